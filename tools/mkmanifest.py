#!/usr/bin/env python3
"""Regenerate /verif/MANIFEST.json from the table below (run after adding a check)."""
import json
import os

ROOT = "/verif"
PROPS = [json.loads(l) for l in open(f"{ROOT}/properties.jsonl")]

# id -> (category, text, note, technique, design_ref)
CHECKS = {
    "C04": (
        "proof",
        "Coq theorems over the registry REGENERATED from the live AGGREGATIONS on every run (T1): every blueprint is a lawful "
        "decomposition (lawful_dec, proved sound: n-ary combine of partial results = block function on all members for every split "
        "into ordered parts incl. empty/all-NaN parts, fills = units, any reduction tree), parametric theorem for user Aggregations. "
        "Tie: K3 correspondence (flox on dask vs Coq model by vm_compute vs NumPy oracle).",
        "Trusted: Coq kernel; translator gen_registry.py; NumPy as oracle; exact arithmetic on exactly representable data "
        "(float rounding not modelled); numpy_groupies kernels modelled by folds (validated by the correspondence).",
        "Coq proof (list homomorphism / monoid laws) over generated registry + differential correspondence",
        "5 C04",
    ),
}

NOTE_COMMON = ("Trusted: Coq 8.16.1 kernel (vm_compute for case files / finite tables, no native_compute, no axioms: Print Assumptions of every "
               "theorem is recorded in the evidence); the translators under tools/translate; NumPy/pandas as oracles; exact arithmetic on "
               "exactly representable data (float rounding not modelled); third-party kernels (numpy_groupies, numbagg, dask) are modelled, "
               "not verified: their models are validated by the correspondence on every run. ")
CHECKS.update({
    "C02": ("proof",
            "Coq theorems: cutting the axis into blocks of ANY sizes partitions each group's members; for every blueprint of the regenerated "
            "registry the simple combine and the grouped combine over ANY reduction tree give the block functions on all members followed by the "
            "same finalize/mask (hence independence of chunking and tree, simple = grouped when the group occurs). Tie: groupby_reduce on dask vs "
            "eager on the same data, vs NumPy and vs the Coq pipeline model, all compositions of small axes x method x reindex.",
            NOTE_COMMON + "dask's blockwise/_tree_reduce are modelled by a tree of blocks (structure checked by C03's K4).",
            "Coq proof (list homomorphism over arbitrary trees/chunkings) + differential correspondence", "5 C02"),
    "C03": ("proof",
            "Coq theorems: any two reduction trees with the same leaves give the same result (simple and grouped combine); the level-by-level "
            "tree builder covers blocks 0..n-1 in order for every split_every; any two valid schedules of a graph of pure tasks (any order, "
            "re-execution allowed) agree on every key; flox's OWN tree (FloxTree: depth-1 partial levels, then a final level whose partitions overwrite one key) reduces "
            "every block of a cohort once and in order whenever n <= k^depth, and loses whole partitions one level short (refuted example). Tie: K4 compares the tree "
            "actually evaluated by dask's and flox's _tree_reduce (also with a leading kept axis) with the Coq builder for every (n, split_every); K2 calls flox's "
            "_tree_reduce on fake layers (n up to 700 around powers of the fan-in) and checks wiring and n <= k^depth for the depth it really uses; K5 runs "
            "sync/threaded/random-order schedulers with re-execution, incl. threaded runs with thousands of groups (GIL released).",
            NOTE_COMMON + "Real thread interleavings are outside Coq: the executor theorem assumes task atomicity and purity (C13).",
            "Coq proof (tree law, executor confluence) + graph-structure correspondence", "5 C03"),
    "C05": ("proof",
            "Coq theorems on the factorisation model and the pipeline: one slot per requested label, labels returned = request (sorted / as "
            "given), slot k holds exactly the elements labelled with the k-th label, missing/unrequested labels get code -1, min_count mask "
            "applied on the exact valid count with the user's fill verbatim in every plan; the reindexing step (Reindex model) gives one slot per requested label in the "
            "requested order, the met label's value or the fill, and is the identity on equal label lists. Tie: K3 over expected superset/subset/disjoint x fills x "
            "min_counts x engines x plans x request containers x sort with the model factorising the raw labels itself; exhaustive K2 of reindex_ (every ordered from_ x to).",
            NOTE_COMMON + "Known finding KF01 (explicit min_count=0 with an absent label) is excluded by hypothesis and reported as KNOWN-FINDING.",
            "Coq proof (factorisation + mask lemmas) + differential correspondence", "5 C05"),
    "C09": ("proof",
            "Executable Coq model of find_group_cohorts (incidence, exact cohorts, preference rules, containment merging, the asserts) with "
            "theorems for ALL inputs: incidence exact; in EVERY multi-block branch incl. the merging loop (any rows, any visiting order) the cohorts "
            "list every present label exactly once and each cohort's block set contains every block of its labels; 'blockwise' only if every label "
            "is confined to one block; the per-axis block selection (_normalize_indexes: int / slice / list form) selects exactly the requested blocks; the graph wiring of "
            "a cohort (subset_to_blocks indexes the block-key array one axis at a time) puts at output position (p0,p1,..) the input block (sel0[p0],sel1[p1],..) for block grids of "
            "any number of axes (NdTake model, K2 against the layer really built, position by position). "
            "Tie: exact K2 correspondence (method, cohorts, order) on all small 1-D layouts x chunkings x merge + random 2-D / dense layouts; each real "
            "answer also checked against the soundness predicates; provenance sums (2**i) and dependency closures of real graphs.",
            NOTE_COMMON + "The consequence for real graphs (dependency closure of each output chunk, exactly-once contribution) is observed on "
            "materialised graphs (provenance sums 2**i), not proved about dask.",
            "Coq model + proof (planner soundness) + exhaustive small-scope correspondence", "5 C09"),
    "C16": ("proof",
            "Coq theorems: sort=True labels strictly ascending (no duplicates), sort=False labels = request / first appearance, both label sets are "
            "permutations of each other, discovered labels exact, and the label->members pairing is independent of sort. Tie: K3 sequences "
            "(labels and values in order) vs NumPy and vs the Coq model over sort x expected kinds x plans.",
            NOTE_COMMON, "Coq proof (sorting/permutation/factorisation) + differential correspondence", "5 C16"),
    "C17": ("proof",
            "Executable Coq models of _get_optimal_chunks_for_groups and of rechunk_for_cohorts' division loop with theorems for ALL inputs: new "
            "chunks positive and summing to the axis length, with sequential labels (contiguous runs, any label order) no group straddles a new "
            "boundary, forced labels start chunks, old boundaries kept. Tie: exact K2 correspondence on all "
            "sequential label sequences of total <=7 (9 thorough) x all chunkings + random patterns; postconditions checked on the real results; "
            "array/xarray flavours keep values/metadata and method='blockwise' on the result is exact.",
            NOTE_COMMON + "dask's rechunk is modelled as the identity on values (checked by K3).",
            "Coq model + proof (loop invariants) + exhaustive small-scope correspondence", "5 C17"),
})

CHECKS.update({
    "C01": ("proof",
            "Structural Coq models of the engine kernels as flox wraps them (engine='flox': stable argsort + reduceat over runs + scatter, NaN-substitution "
            "wrappers incl. the count-based all-NaN detection; numpy_groupies wrappers) with theorems: each equals the reducer on the group's members in "
            "original order, engines agree, reducers = NumPy's left folds. Tie: K2 exact correspondence of generic_aggregate per engine/kernel with the "
            "models; K3 eager groupby_reduce over 27 reductions x 5 engine settings x 10 dtypes vs per-group NumPy and the Coq model.",
            NOTE_COMMON + "Known findings KF01/KF03/KF04 are reported as KNOWN-FINDING. numba/numbagg kernels are covered by K3 only.",
            "Coq proof (sort/segment/scatter refinement) + differential correspondence", "5 C01"),
    "C06": ("proof",
            "Coq theorems on the arg-reduction algebra: the (value, index) operator 'leftmost extreme wins' is associative on NaN-free values; over ANY "
            "reduction tree and chunking the result is the global position of the first occurrence of the extreme (argmax/argmin on NaN-free groups; nanarg* "
            "when no block holds only NaNs of the group - the statement without that hypothesis is refuted by a vm_compute witness = known finding KF02); "
            "nanfirst/nanlast are order-aware monoids. Tie: K3 with ties and NaNs at chunk boundaries vs eager, NumPy and the Coq model.",
            NOTE_COMMON, "Coq proof (semigroup law over trees) + differential correspondence", "5 C06"),
    "C07": ("proof",
            "Coq theorems: digitize-based bin codes = pandas.cut for every strictly increasing edge list, every value (edges, outside, NaN, +-inf) and "
            "both closed sides; mixed-radix ravel of any number of groupers is injective on in-range codes and keeps -1. Tie: exhaustive K2 of "
            "_factorize_single vs pandas.cut (oracle) and the Coq model; _ravel_factorized vs model; K3 1-3 groupers eager/dask/dask labels.",
            NOTE_COMMON, "Coq proof (arithmetic on sorted edges, mixed radix) + exhaustive small-scope correspondence", "5 C07"),
    "C08": ("proof",
            "Coq theorems for arrays of ANY number of dimensions: NdShape models (shape, C-ordered data), _move_reduce_dims_to_end as a transpose and _collapse_axis as a "
            "C-order reshape; after the plumbing, row ravel(ki), column ravel(ri) holds the original element with ki on the kept axes and ri on the reduced axes (any ordered "
            "subset of axes); ravel/unravel are inverse; offset codes separate rows (-1 preserved); hence the flattened reduction with offset codes is the slice-by-slice "
            "1-D grouped reduction (C08_partial_axis_reduction_is_slicewise); leading axes are pure batch axes (C08_leading_dimensions_are_batch). Tie: exhaustive K2 of the "
            "two plumbing functions vs NdShape.plumb (all shapes <= 4 dims x every ordered axis subset), K2 offset_labels, K3 arrays of 1-4 dims, labels 1-3 dims, every axis "
            "subset/order/sign, eager and dask (3 methods) chunked on every axis vs slice-by-slice NumPy, xarray_reduce over n-D groupers.",
            NOTE_COMMON + "numpy's transpose/reshape are modelled by index arithmetic (validated by the exhaustive K2); the squeeze of dummy axes and the broadcasting of size-1 label axes are validated by K3, not proved.",
            "Coq proof (n-d index arithmetic: ravel/unravel, transpose, collapse, offsets) + differential correspondence", "5 C08"),
    "C10": ("proof",
            "Coq theorems: the chunked grouped scan (per-group state of earlier blocks combined with the in-block scan) equals the sequential per-group "
            "scan for EVERY chunking; the carried state may be assembled along any bracketing (Blelloch); nancumsum value = NumPy running nansum. Tie: K3 all "
            "chunkings of short axes + random cases vs the per-group NumPy/pandas scan and the Coq model.",
            NOTE_COMMON + "dask's prefixscan is modelled (some bracketing of binop over preop of earlier blocks).",
            "Coq proof (monoid homomorphism over prefixes) + differential correspondence", "5 C10"),
    "C18": ("proof",
            "Coq theorem: indexing the globally (label, value)-sorted array at cumulative-valid-count + floor/ceil(q(n-1)) and interpolating gives "
            "NumPy's linear quantile of each group's own members, for every number of groups, group size, NaN count and rational q in [0,1]. Tie: exhaustive "
            "(size, NaN count, q) grid + random cases vs numpy.quantile/nanquantile and the Coq model; refusal on non-blockwise plans.",
            NOTE_COMMON + "np.partition on the complex encoding is modelled (labels ascending, valid values ascending, NaNs last).",
            "Coq proof (offset index arithmetic) + differential correspondence", "5 C18"),
})

CHECKS.update({
    "C11": ("proof",
            "The real eager groupby_reduce is evaluated on the WHOLE finite grid 27 reductions x 13 input dtypes x dtype= {None,float32,float64,int64} "
            "x fill {None,int,NaN} on every run (T2) and Coq proves (vm_compute lifted by forallb_forall) that every row equals the NumPy-convention model of the "
            "result dtype; tie: random cells under 5 eager engine settings and 3 methods x 2 engines on dask must announce the same (dtype, shape), and the "
            "announced dtype/shape/chunks/meta must equal those of the computed array and of each computed block.",
            NOTE_COMMON + "The table rows are observations of the running code (translator T2 gen_tables.py); chunk metadata truthfulness is a runtime observation.",
            "Coq proof over a regenerated finite table + differential correspondence", "5 C11"),
    "C12": ("other",
            "Partial. Coq theorems: with labels discovered at compute time a label is reported iff it occurs, the label->members mapping and every value equal "
            "those of the known-labels plan. Laziness itself (no compute / no materialisation at graph construction) is a RUNTIME fact: a counting scheduler and "
            "materialisation spies watch graph construction over a configuration grid (reductions x methods x label kinds x reindex x layouts, 1500 cells quick).",
            NOTE_COMMON + "'No computation at graph-construction time' cannot be stated about a Gallina model of dask; it is observed, not proved.",
            "Coq proof (discovered-label mapping) + instrumented configuration-grid exploration", "5 C12"),
    "C13": ("proof",
            "T4 translates every function reachable from a task callable (AST) into an alias/effect IR (flow-insensitive except for block-level binding versions; unreviewed callees may write into all their arguments) together with a points-to certificate; "
            "Coq re-checks the certificate (check_all) and the checker is PROVED sound: a checked function with no declared store never writes into an object that may "
            "be one of its parameters; executor theorem: re-executing pure tasks in any order leaves every value unchanged. Tie: K5 executes every task of random graphs "
            "by hand with read-only inputs, twice and after a cloudpickle round trip, and threaded vs synchronous.",
            NOTE_COMMON + "Trusted: T4's callee classification tables (FRESH/VIEW calls, COPY_POINTS, ALLOWED_STORES with written justifications, emitted into Gen/Effects.v); "
            "serialisability and real data races are runtime facts seen only by K5.",
            "Coq-verified certificate checker over a generated effect IR + task-level re-execution harness", "5 C13"),
    "C14": ("proof",
            "T4 translates the ~90 functions reachable from the public entry points (groupby_reduce, groupby_scan, rechunk helpers, xarray_reduce, _initialize_aggregation) into an "
            "alias/effect IR in which module-level state (the registry AGGREGATIONS, caches) is a pseudo-parameter; the Coq-verified certificate checker proves that no entry point "
            "may write into an argument or into module-level state. T3 extracts from the AST the ingredients of every graph-key token / layer name and the arguments bound into tasks; Coq proves coverage (every ingredient that "
            "reaches a task is in its token), that equal keys imply equal tasks for an injective hash, and that memoised helpers return the uncached value after ANY call "
            "history. Tie: K5 computes pairs/triples of lazy results differing in exactly one ingredient together (both orders) vs alone, argument/registry snapshots around "
            "API calls, histories replayed in a fresh interpreter, and histories with DEFERRED computation (lazy results built, other calls made, then computed) vs a fresh interpreter.",
            NOTE_COMMON + "Trusted: T4's reviewed callee tables (pure third-party callees, xarray container methods return new containers, deep-ownership reading of objects); memoising decorators are modelled by the memo theorem; dask.base.tokenize is assumed injective (collision-free) on the values met; global state outside flox (numpy error state, dask config) is observed only.",
            "Coq-verified effect-certificate checker over the entry points + Coq proof (token coverage, key injectivity, memo refinement) over generated ingredients + co-computation / history harness", "5 C14"),
    "C15": ("other",
            "Partial by nature: xarray is an independent implementation that is not modelled; native xarray groupby (use_flox=False) is a runtime ORACLE. Coq proves flox's own "
            "dimension bookkeeping (_restore_dim_order = stable sort by position in the object: permutation, ordered, stable) and K2 ties that model to the function; the check "
            "compares xarray_reduce with native groupby on generated DataArrays/Datasets (1-4 dims in any order, 1-D/2-D/external/several groupers, dim None/subset/..., skipna, "
            "chunked, mixed-dims Datasets): values, dim order, coords, names, attrs; pass-through variables vs the input.",
            NOTE_COMMON + "Known findings KF06/KF07/KF08 are reported as KNOWN-FINDING. Everything beyond _restore_dim_order rests on differential testing against xarray.",
            "differential testing against native xarray + Coq proof of the dim-order restoration", "5 C15"),
    "C19": ("proof",
            "The real entry point is evaluated on the finite configuration grid (29 reductions x 5 engines x 4 methods x 3 reindex x label kind/ndim x axis x expected x "
            "layout) on every run; the outcome table is emitted as a Coq term and checked by grid_ok, PROVED sound: every refusal is one of the clean classes at call time, "
            "method=None is accepted wherever map-reduce is and gives the same values, no cell dies with an internal error. The decision functions _choose_method "
            "and _validate_reindex are tabulated from the running code on their WHOLE abstracted domain (T2) and Coq proves the rules that make the automatic "
            "choices safe (explicit requests kept or refused for documented reasons with clean classes; partial-axis reductions -> map-reduce; arg reductions never "
            "blockwise; block-stage reindexing only when the groups are known up front).",
            NOTE_COMMON + "Quick samples the grid (all cells of 4 reductions x 3 engines + random); thorough enumerates it; the tables are observations of the running code "
            "(the two decision tables are exhaustive over their abstracted domains, coverage is itself a checked lemma).",
            "Coq-checked outcome table over an enumerated configuration grid", "5 C19"),
    "C20": ("proof",
            "Coq theorems: +-inf are data (max/min of a NaN-free group containing +inf/-inf is that infinity, also through the engine='flox' NaN-substitution wrapper); integer "
            "sums/products are exact and do not wrap within the result dtype whereas accumulation at the input width would; var/std identities. Tie: K3 on arrays mixing "
            "finite/NaN/+-inf for every engine and plan, narrow-integer arrays whose totals exceed the input width vs NumPy, var/std on well-conditioned floats eager vs chunked.",
            NOTE_COMMON + "Float rounding is not modelled (var/std compared within rtol 1e-9). Known finding KF05 (numba max/min ignore NaN) is reported as KNOWN-FINDING.",
            "Coq proof (extended-value order, bounded-integer arithmetic) + differential correspondence", "5 C20"),
})


def main():
    checks, na = [], []
    for p in PROPS:
        pid = p["id"]
        if pid in CHECKS and os.path.exists(f"{ROOT}/tools/props/{pid.lower()}.py"):
            cat, text, note, tech, ref = CHECKS[pid]
            checks.append({
                "property_id": pid,
                "quick_cmd": f"./check {pid} --tier quick",
                "thorough_cmd": f"./check {pid} --tier thorough",
                "evidence_file": f"/verif/evidence/{pid}.json",
                "replay_cmd_template": f"./check {pid} --replay {{path}}",
                "engine": "coq+corr",
                "level_claimed": {"category": cat, "text": text, "design_ref": f"DESIGN.md section {ref}"},
                "level_note": note,
                "technique": tech,
            })
        else:
            na.append({"property_id": pid, "reason": "check under construction in this framework (see DESIGN.md section 5); not claimed yet"})
    m = {
        "version": 1,
        "setup_cmd": "./setup.sh",
        "hooks": {
            "guard": "FLOX_VERIF",
            "enable": "no source hooks exist: ./check sets FLOX_VERIF=1 and wraps flox functions in its own process (spies, counting scheduler)",
            "baseline_off_cmd": "cd /repo && /venv/bin/python -m pytest -ra -q -p no:cacheprovider --timeout=900 --continue-on-collection-errors",
            "source_commits": [],
            "add_only": True,
        },
        "engines": [{"name": "coq+corr", "path": "/verif/check", "serves_properties": [c["property_id"] for c in checks],
                     "kind_free_text": "Coq 8.16.1 development under /verif/coq (model + theorems), translators from /repo's source, differential correspondence harness"}],
        "checks": checks,
        "not_applicable": na,
        "notes": "Machine-checked proof in Coq 8.16.1. ./setup.sh regenerates coq/Gen from /repo and builds every .vo; each check re-runs its translators and an incremental make.",
    }
    json.dump(m, open(f"{ROOT}/MANIFEST.json", "w"), indent=1)
    print(len(checks), "checks;", len(na), "not claimed")


if __name__ == "__main__":
    main()
