#!/usr/bin/env python3
"""Regenerate /verif/MANIFEST.json from the table below (run after adding a check)."""
import json
import os

ROOT = "/verif"
PROPS = [json.loads(l) for l in open(f"{ROOT}/properties.jsonl")]

# id -> (category, text, note, technique, design_ref)
CHECKS = {
    "C04": (
        "proof",
        "Coq theorems over the registry REGENERATED from the live AGGREGATIONS on every run (T1): every blueprint is a lawful "
        "decomposition (lawful_dec, proved sound: n-ary combine of partial results = block function on all members for every split "
        "into ordered parts incl. empty/all-NaN parts, fills = units, any reduction tree), parametric theorem for user Aggregations. "
        "Tie: K3 correspondence (flox on dask vs Coq model by vm_compute vs NumPy oracle).",
        "Trusted: Coq kernel; translator gen_registry.py; NumPy as oracle; exact arithmetic on exactly representable data "
        "(float rounding not modelled); numpy_groupies kernels modelled by folds (validated by the correspondence).",
        "Coq proof (list homomorphism / monoid laws) over generated registry + differential correspondence",
        "5 C04",
    ),
}


def main():
    checks, na = [], []
    for p in PROPS:
        pid = p["id"]
        if pid in CHECKS and os.path.exists(f"{ROOT}/tools/props/{pid.lower()}.py"):
            cat, text, note, tech, ref = CHECKS[pid]
            checks.append({
                "property_id": pid,
                "quick_cmd": f"./check {pid} --tier quick",
                "thorough_cmd": f"./check {pid} --tier thorough",
                "evidence_file": f"/verif/evidence/{pid}.json",
                "replay_cmd_template": f"./check {pid} --replay {{path}}",
                "engine": "coq+corr",
                "level_claimed": {"category": cat, "text": text, "design_ref": f"DESIGN.md section {ref}"},
                "level_note": note,
                "technique": tech,
            })
        else:
            na.append({"property_id": pid, "reason": "check under construction in this framework (see DESIGN.md section 5); not claimed yet"})
    m = {
        "version": 1,
        "setup_cmd": "./setup.sh",
        "hooks": {
            "guard": "FLOX_VERIF",
            "enable": "no source hooks exist: ./check sets FLOX_VERIF=1 and wraps flox functions in its own process (spies, counting scheduler)",
            "baseline_off_cmd": "cd /repo && /venv/bin/python -m pytest -ra -q -p no:cacheprovider --timeout=900 --continue-on-collection-errors",
            "source_commits": [],
            "add_only": True,
        },
        "engines": [{"name": "coq+corr", "path": "/verif/check", "serves_properties": [c["property_id"] for c in checks],
                     "kind_free_text": "Coq 8.16.1 development under /verif/coq (model + theorems), translators from /repo's source, differential correspondence harness"}],
        "checks": checks,
        "not_applicable": na,
        "notes": "Machine-checked proof in Coq 8.16.1. ./setup.sh regenerates coq/Gen from /repo and builds every .vo; each check re-runs its translators and an incremental make.",
    }
    json.dump(m, open(f"{ROOT}/MANIFEST.json", "w"), indent=1)
    print(len(checks), "checks;", len(na), "not claimed")


if __name__ == "__main__":
    main()
