#!/bin/bash
# usage: tools/run_mutant.sh <patch.diff> C04 C05 ...   (applies the patch to /repo, runs the quick checks, reverts)
patch="$1"; shift
cd /repo || exit 2
if ! git apply --check "$patch" 2>/dev/null; then
  echo "PATCH DOES NOT APPLY CLEANLY to the repaired tree: $patch"; exit 3
fi
git apply "$patch"
git status --short | grep -v _version
cd /verif
mkdir -p .work/evidence_backup && cp evidence/*.json .work/evidence_backup/ 2>/dev/null   # evidence of mutant runs is never kept
for c in "$@"; do
  all=$(./check "$c" --tier quick 2>/dev/null)
  nv=$(echo "$all" | grep -c "^VIOLATION")
  echo "== $c :: violations=$nv :: $(echo "$all" | grep "^VIOLATION" | head -2 | cut -c1-120 | tr '\n' ' ')"
done
cp /verif/.work/evidence_backup/*.json /verif/evidence/ 2>/dev/null
cd /repo && git checkout -- . && git status --short | grep -v _version
cd /verif && for t in registry tables tokens effects; do [ -f tools/translate/gen_$t.py ] && PYTHONPATH=/repo /venv/bin/python tools/translate/gen_$t.py >/dev/null 2>&1; done
