#!/bin/bash
# usage: tools/run_mutant.sh <patch.diff> C04 C05 ...   (applies the patch to /repo, runs the quick checks, reverts)
patch="$1"; shift
cd /repo || exit 2
git apply --check "$patch" 2>/dev/null || { echo "PATCH DOES NOT APPLY (trying 3-way)"; git apply --3way "$patch" || exit 3; git reset -q; }
git apply "$patch" 2>/dev/null
git status --short | grep -v _version
cd /verif
for c in "$@"; do
  out=$(./check "$c" --tier quick 2>/dev/null | grep -E "VIOLATION|KNOWN" | head -3)
  echo "== $c exit=$? :: $(echo "$out" | head -2 | tr '\n' ' ')"
done
cd /repo && git checkout -- . && git status --short | grep -v _version
