"""C15 — xarray_reduce agrees with xarray's own groupby (use_flox=False), including dims, coords and attrs."""
from __future__ import annotations

import itertools
import json
import random
import warnings

from tools.lib import common as C
from tools.lib import findings as F
from tools.lib import gen as G
from tools.lib import impl as I
from tools.lib import proofs as P

LEVEL = "other"
FUNCS = ["sum", "mean", "max", "min", "count", "var", "std", "prod", "median", "first", "last", "any", "all"]


KINDS = ["coord1d", "coord1d", "external1d", "coord2d", "two", "bins"]


def make_obj(rng, ndim, chunked, dataset, kind="coord1d"):
    """returns obj, dim names, the groupers as a list of (name, dims, values, external?)"""
    import numpy as np
    import xarray as xr

    names = ["x", "y", "z", "w"][:ndim]
    rng.shuffle(names)
    sizes = {d: rng.randint(2, 4) for d in names}
    shape = [sizes[d] for d in names]
    vals = np.array([float(rng.choice(G.ALPHA_FINITE)) for _ in range(int(np.prod(shape)))]).reshape(shape)
    if rng.random() < 0.4:
        mask = np.array([rng.random() < 0.2 for _ in range(vals.size)]).reshape(shape)
        vals[mask] = np.nan
    gdim = rng.choice(names)
    nlab = rng.randint(1, 3)
    groupers = []
    if kind == "coord2d" and ndim >= 2:
        gd = rng.sample(names, 2)
        labs = np.array([rng.randrange(nlab) for _ in range(sizes[gd[0]] * sizes[gd[1]])]).reshape(sizes[gd[0]], sizes[gd[1]])
        groupers.append(("lab", tuple(gd), labs, False))
        gdim = gd[0]
    else:
        labs = np.array([rng.randrange(nlab) for _ in range(sizes[gdim])])
        if kind != "two" and rng.random() < 0.2:
            # datetime64 labels, some of them missing (NaT): a missing label is no group
            labs = np.array(["2001-01-01", "2002-03-04", "1999-12-31"], dtype="datetime64[ns]")[labs]
            if sizes[gdim] > 1 and rng.random() < 0.7:
                labs[rng.randrange(sizes[gdim])] = np.datetime64("NaT")
        groupers.append(("lab", (gdim,), labs, kind == "external1d"))
        if kind == "two":
            d2 = rng.choice(names)
            labs2 = np.array([rng.randrange(2) + 5 for _ in range(sizes[d2])])
            groupers.append(("lab2", (d2,), labs2, False))
    coords = {d: np.arange(sizes[d]) * 10 for d in names if rng.random() < 0.7}
    da = xr.DataArray(vals, dims=names, coords=coords, name="v", attrs={"units": "m", "k": 1})
    for gname, gdims, gvals, external in groupers:
        if not external:
            da = da.assign_coords({gname: (gdims, gvals)})
            da[gname].attrs = {"desc": "labels"}
    gdims_all = [d for g in groupers for d in g[1]]
    if rng.random() < 0.4:   # a non-dimension coordinate along another dim must survive
        other = [d for d in names if d not in gdims_all]
        if other:
            od = rng.choice(other)
            da = da.assign_coords(aux=(od, np.arange(sizes[od]) + 0.5))
    obj = da
    if dataset:
        others = [d for d in names if d not in gdims_all]
        v2 = xr.DataArray(np.arange(sizes[gdim], dtype=float) - 1, dims=[gdim], attrs={"a": 2})
        ds = xr.Dataset({"v": da, "u": v2}, attrs={"title": "t"})
        if rng.random() < 0.7:
            # an INTEGER variable next to the float one: the NaN-skipping default (skipna=None) is decided per variable
            ds["i"] = xr.DataArray((np.nan_to_num(vals) * 2).astype("int64"), dims=names, attrs={"units": "1"})
        if others and rng.random() < 0.6:   # a variable lacking the grouped dimension passes through
            ds["p"] = xr.DataArray(np.arange(sizes[others[0]], dtype=float), dims=[others[0]])
        obj = ds
    if chunked:
        obj = obj.chunk({d: rng.randint(1, sizes[d]) for d in names})
        for gname, gdims, gvals, external in groupers:   # native groupby needs in-memory labels
            if not external:
                obj = obj.assign_coords({gname: obj[gname].compute()})
    return obj, names, groupers


def compare(a, b, keep_attrs=True, passthrough=None):
    """dims order, values, coords (names and values), names, attrs.  Returns [(variable-or-None, problem)].
    `passthrough`: Dataset variables with none of the reduced dims; the property says they pass through UNCHANGED
    (native xarray applies count/any/all to them elementwise), so their values are compared with the input."""
    import numpy as np
    import xarray as xr

    problems = []
    if isinstance(a, xr.Dataset):
        if set(a.data_vars) != set(b.data_vars):
            return [(None, f"variables differ: {sorted(a.data_vars)} vs {sorted(b.data_vars)}")]
        for v in a.data_vars:
            ref = b[v]
            if passthrough and v in passthrough:
                try:
                    ref = passthrough[v].broadcast_like(b[v]).transpose(*b[v].dims)
                    ref = ref.assign_coords({c: b[v][c] for c in b[v].coords if c not in ref.coords})
                    ref.attrs = b[v].attrs
                except Exception:  # noqa: BLE001  -- native reshaped the variable (e.g. a size-1 dim): compare with native itself
                    ref = b[v]
            problems += [(v, p) for _, p in compare(a[v], ref, keep_attrs)]
        if keep_attrs and a.attrs != b.attrs:
            problems.append((None, f"dataset attrs {a.attrs} vs {b.attrs}"))
        return problems
    if a.dims != b.dims:
        return [(None, f"dims {a.dims} vs native {b.dims}")]
    av, bv = np.asarray(a.values, dtype=float), np.asarray(b.values, dtype=float)
    if av.shape != bv.shape or not np.allclose(av, bv, equal_nan=True, rtol=1e-10, atol=1e-12):
        problems.append((None, f"values {av.tolist()} vs native {bv.tolist()}"))
    if set(a.coords) != set(b.coords):
        problems.append((None, f"coords {sorted(a.coords)} vs native {sorted(b.coords)}"))
    else:
        for c in a.coords:
            if a[c].dims != b[c].dims or not np.array_equal(np.asarray(a[c].values), np.asarray(b[c].values)):
                problems.append((None, f"coord {c}: {a[c].values.tolist()} vs native {b[c].values.tolist()}"))
    if a.name != b.name:
        problems.append((None, f"name {a.name} vs {b.name}"))
    if keep_attrs and a.attrs != b.attrs:
        problems.append((None, f"attrs {a.attrs} vs native {b.attrs}"))
    return problems


NON_IDEMPOTENT = {"sum", "count", "prod", "var", "std"}


def kf06_variable(obj, var, dim_tuple, grouper_dims, func):
    """KF06: in the grouped (non-shortcut) path a Dataset variable that has a reduced dimension but lacks a grouper
    dimension or another reduced dimension is broadcast along it and the copies are reduced too."""
    vd = obj[var].dims
    if not any(d in grouper_dims for d in dim_tuple) or not any(d in vd for d in dim_tuple) or func not in NON_IDEMPOTENT:
        return False
    return any(d not in vd for d in grouper_dims) or any(d not in vd for d in dim_tuple)


def masking_oracle(run, obj, gname, func, dim, desc):
    import numpy as np
    import pandas as pd
    import xarray as xr

    import flox.xarray as fx

    dim_tuple = (dim,) if isinstance(dim, str) else tuple(dim)
    by = obj[gname].compute()
    labels = np.unique(by.values[~pd.isnull(by.values)])
    try:
        with warnings.catch_warnings():
            warnings.simplefilter("ignore")
            kw = {"min_count": 1} if func == "sum" else {}
            pieces = [getattr(obj.where(by == g), func)(dim=dim_tuple, skipna=True, **kw) for g in labels]
            want = xr.concat(pieces, dim=pd.Index(labels, name=gname)).compute()
            got = fx.xarray_reduce(obj, gname, func=func, dim=dim, fill_value=np.nan, expected_groups=labels).compute()
    except (ValueError, NotImplementedError):
        run.extra["refused_cases"] = run.extra.get("refused_cases", 0) + 1
        return
    run.count("mask|" + json.dumps(desc, sort_keys=True), True)
    run.extra["masking_oracle_cases"] = run.extra.get("masking_oracle_cases", 0) + 1
    ok = set(got.dims) == set(want.dims)
    if ok:
        g = np.asarray(got.transpose(*want.dims).values, dtype=float)
        ok = np.allclose(g, np.asarray(want.values, dtype=float), equal_nan=True)
    if not ok:
        run.violation({"property": "C15", "kind": "xarray_reduce differs from the grouped reduction of the underlying arrays (masking oracle; native xarray refuses this request)",
                       "case": desc, "got_dims": list(got.dims), "want_dims": list(want.dims),
                       "got": np.asarray(got.values, dtype=float).reshape(-1).tolist()[:40],
                       "want": np.asarray(want.transpose(*got.dims).values if set(got.dims) == set(want.dims) else want.values, dtype=float).reshape(-1).tolist()[:40]}, tag="mask")


def nd_grouper_cases(run, rng, n):
    """2-D / 3-D grouping coordinates (mostly with equally long dims, where a mis-transposed label array goes unnoticed),
    object dims in any order, dim = any non-empty subset of the grouper's dims in any order (+ possibly another dim):
    decided by the masking oracle (native xarray refuses most of these)"""
    import numpy as np
    import xarray as xr

    for _ in range(n):
        ndim = rng.randint(2, 4)
        names = ["x", "y", "z", "w"][:ndim]
        rng.shuffle(names)
        side = rng.choice([2, 3])
        sizes = {d: (side if rng.random() < 0.8 else rng.randint(2, 4)) for d in names}
        gnd = rng.randint(2, min(3, ndim))
        gd = rng.sample(names, gnd)
        vals = np.array([float(rng.choice(G.ALPHA_FINITE)) for _ in range(int(np.prod([sizes[d] for d in names])))]).reshape([sizes[d] for d in names])
        if rng.random() < 0.4:
            vals[np.array([rng.random() < 0.15 for _ in range(vals.size)]).reshape(vals.shape)] = np.nan
        labs = np.array([rng.randrange(3) for _ in range(int(np.prod([sizes[d] for d in gd])))]).reshape([sizes[d] for d in gd])
        obj = xr.DataArray(vals, dims=names, name="v").assign_coords(lab=(tuple(gd), labs))
        if rng.random() < 0.4:
            obj = obj.chunk({d: rng.randint(1, sizes[d]) for d in names})
            obj = obj.assign_coords(lab=obj["lab"].compute())
        k = rng.randint(1, gnd)
        dim = rng.sample(gd, k)
        others = [d for d in names if d not in gd]
        if others and rng.random() < 0.3:
            dim.append(rng.choice(others))
        rng.shuffle(dim)
        func = rng.choice(["sum", "max", "min", "mean"])
        desc = {"kind": "nd-grouper", "dims": names, "sizes": sizes, "grouper_dims": gd, "labels": labs.tolist(), "dim": dim, "func": func,
                "vals": [I.fnum(x) for x in vals.reshape(-1)]}
        masking_oracle(run, obj, "lab", func, dim if len(dim) > 1 or rng.random() < 0.5 else dim[0], desc)


def cases(run, rng, n, maxdim):
    import numpy as np
    import xarray as xr
    from xarray.groupers import UniqueGrouper

    import flox
    import flox.xarray as fx

    KF06 = "KF06-dataset-variable-broadcast-copies"
    desc = None
    for _ in range(n):
        ndim = rng.randint(1, maxdim)
        chunked = rng.random() < 0.4
        dataset = rng.random() < 0.3
        func = rng.choice(FUNCS)
        kind = rng.choice(KINDS)
        if func in ("median", "first", "last") and chunked:
            func = "sum"
        obj, names, groupers = make_obj(rng, ndim, chunked, dataset, kind)
        grouper_dims = []
        for g in groupers:
            for d in g[1]:
                if d not in grouper_dims:
                    grouper_dims.append(d)
        gdim = grouper_dims[0]
        fkw = {}
        if len(groupers) == 2 and groupers[0][1] == groupers[1][1]:
            present = set(zip(groupers[0][2].tolist(), groupers[1][2].tolist()))
            if len(present) < len(set(groupers[0][2].tolist())) * len(set(groupers[1][2].tolist())):
                # absent label combinations: flox documents no default fill (C05), native xarray gives NaN.  A supplied
                # fill also applies to all-NaN groups, so the data of these cases carry no NaN.
                fkw["fill_value"] = np.nan
                obj = obj.fillna(0.0)
        bins = None
        if kind == "bins":
            # binning by edges: group dimension '<name>_bins', labels outside every bin dropped, empty bins NaN
            bins = sorted(rng.sample([-0.5, 0.5, 1.5, 2.5, 3.5], k=rng.randint(2, 4)))
            fkw = {"expected_groups": np.array(bins), "isbin": True, "fill_value": np.nan}
            obj = obj.fillna(0.0)
        if func in ("any", "all"):
            obj = obj > 0 if not dataset else obj.map(lambda v: v > 0)
        skipna = rng.choice([None, True, False]) if func not in ("count", "first", "last", "any", "all") else None
        keep_attrs = rng.random() < 0.8
        dimchoice = rng.choice(["default", "gdim", "all", "gdim+other", "other"]) if func not in ("first", "last") else "default"
        others = [d for d in names if d not in grouper_dims]
        if dimchoice == "default":
            dim = None
        elif dimchoice == "gdim":
            dim = gdim if len(grouper_dims) == 1 else list(grouper_dims)
        elif dimchoice == "all":
            dim = ...
        elif dimchoice == "other":
            if not others:
                continue
            dim = rng.choice(others)
        else:
            dim = list(grouper_dims) + ([rng.choice(others)] if others else [])
            rng.shuffle(dim)
        desc = {"ndim": ndim, "dims": names, "groupers": [{"name": g[0], "dims": list(g[1]), "labels": g[2].tolist(), "external": g[3]} for g in groupers],
                "func": func, "skipna": skipna, "dim": str(dim), "chunked": chunked, "dataset": dataset, "keep_attrs": keep_attrs, "kind": kind, "bins": bins}
        kw = {"skipna": skipna} if skipna is not None else {}
        if func in ("var", "std"):
            kw["ddof"] = rng.choice([0, 1])
            desc["ddof"] = kw["ddof"]
        by_objs = [xr.DataArray(g[2], dims=g[1], name=g[0]) if g[3] else g[0] for g in groupers]
        dimkw = {"dim": dim} if dim is not None else {}
        try:
            with warnings.catch_warnings(), xr.set_options(use_flox=False):
                warnings.simplefilter("ignore")
                if bins is not None:
                    gb = obj.groupby_bins(by_objs[0], bins)
                elif len(groupers) == 1:
                    gb = obj.groupby(by_objs[0])
                else:
                    gb = obj.groupby({g[0]: UniqueGrouper() for g in groupers})
                native = getattr(gb, func)(**dimkw, keep_attrs=keep_attrs, **kw)
                native = native.compute()
        except Exception as e:  # noqa: BLE001  -- native xarray refuses: nothing to compare with
            run.extra["native_refused"] = run.extra.get("native_refused", 0) + 1
            key = f"{func}: {type(e).__name__}: {str(e)[:70]}"
            run.extra.setdefault("native_refusal_messages", {})
            run.extra["native_refusal_messages"][key] = run.extra["native_refusal_messages"].get(key, 0) + 1
            # second clause of the property: the VALUES equal the grouped reduction of the underlying arrays.  Where native
            # xarray refuses (n-D grouper with dim a subset / another order), a masking oracle written with plain xarray ops decides.
            if (len(groupers) == 1 and not groupers[0][3] and bins is None and not dataset and skipna is not False
                    and func in ("sum", "max", "min", "mean") and dim is not None and dim is not ...):
                masking_oracle(run, obj, groupers[0][0], func, dim, desc)
            continue
        dim_tuple = tuple(names) if dim is ... else tuple(grouper_dims) if dim is None else (dim,) if isinstance(dim, str) else tuple(dim)
        try:
            with warnings.catch_warnings():
                warnings.simplefilter("ignore")
                got = fx.xarray_reduce(obj, *by_objs, func=func, dim=dim, keep_attrs=keep_attrs, **kw, **fkw)
                lazy_ok = (not chunked) or dataset or hasattr(got.data, "dask")
                got = got.compute()
        except (ValueError, NotImplementedError) as e:
            if dataset and "Missing core dims" in str(e) and F.active(KF06) and any(
                    any(d not in obj[k].dims for d in dim_tuple) and any(d in obj[k].dims for d in dim_tuple) for k in obj.data_vars):
                run.known(KF06, F.describe(KF06))   # the refusal flavour of the same defect
                continue
            run.extra["refused_cases"] = run.extra.get("refused_cases", 0) + 1
            run.extra.setdefault("refusal_messages", {})
            key = f"{func}: {str(e)[:80]}"
            run.extra["refusal_messages"][key] = run.extra["refusal_messages"].get(key, 0) + 1
            continue
        except Exception as e:  # noqa: BLE001
            info = {"property": "C15", "kind": "xarray_reduce raised an internal error where native groupby succeeds", "case": desc, "exc": repr(e)[:200]}
            run.violation(info, tag="xr")
            continue
        run.count(json.dumps(desc, sort_keys=True), ndim > 1)
        run.extra.setdefault("kinds", {})
        run.extra["kinds"][kind] = run.extra["kinds"].get(kind, 0) + 1
        passthrough = None
        if dataset:
            passthrough = {k: obj[k].compute() for k in obj.data_vars if not any(d in obj[k].dims for d in dim_tuple)}
        probs = compare(got, native, keep_attrs, passthrough)
        if not lazy_ok:
            probs.append((None, "result of a chunked input is not lazy"))
        known = [(v, p) for v, p in probs if F.active(KF06) and dataset and v is not None and p.startswith("values")
                 and kf06_variable(obj, v, dim_tuple, grouper_dims, func)]
        probs = [x for x in probs if x not in known]
        if known:
            run.known(KF06, F.describe(KF06))
        KF08 = "KF08-bins-dim-without-grouper-dim"
        if F.active(KF08) and bins is not None and not any(d in grouper_dims for d in dim_tuple) and probs:
            run.known(KF08, F.describe(KF08))
            probs = []
        KF11 = "KF11-shortcut-keeps-missing-labels"
        if (F.active(KF11) and bins is None and not any(d in grouper_dims for d in dim_tuple) and probs
                and any(any(x is None or x != x for x in g["labels"]) if isinstance(g["labels"], list) else False for g in desc["groupers"])):
            run.known(KF11, F.describe(KF11))
            probs = []
        KF07 = "KF07-shortcut-several-groupers-1d-coords"
        if F.active(KF07) and len(grouper_dims) > 1 and not any(d in grouper_dims for d in dim_tuple):
            k7 = [(v, p) for v, p in probs if p.startswith("coord lab") or p.startswith("dims ")]
            if k7:
                run.known(KF07, F.describe(KF07))
                probs = [x for x in probs if x not in k7]
        if probs:
            info = {"property": "C15", "kind": "xarray_reduce differs from native xarray groupby (use_flox=False)", "case": desc,
                    "problems": [f"{v}: {p}" if v else p for v, p in probs[:5]],
                    "values": np.asarray(obj["v"].values if dataset else obj.values, dtype=float).tolist()}
            run.violation(info, tag="xr")
    if desc:
        run.sample({"xarray_case": desc})


def restore_cases(run, rng, n):
    """K2: flox.xarray._restore_dim_order vs the Coq model XrDims.restore_dim_order"""
    import numpy as np
    import xarray as xr

    from flox.xarray import _restore_dim_order

    pool = ["x", "y", "z", "w", "t", "lab", "q"]
    coq = []
    for _ in range(n):
        objdims = rng.sample(pool[:5], rng.randint(1, 4))
        gname = rng.choice(["lab", "lab", rng.choice(objdims)])
        nd = rng.choice([1, 1, 2])
        gdims = rng.sample(objdims, min(nd, len(objdims)))
        by = xr.DataArray(np.zeros([2] * len(gdims)), dims=gdims, name=gname)
        nr = rng.random() < 0.4
        resdims = [d for d in objdims if rng.random() < 0.7 and d != gname] + [gname] + (["q"] if rng.random() < 0.3 else [])
        rng.shuffle(resdims)
        obj = xr.DataArray(np.zeros([2] * len(objdims)), dims=objdims)
        res = xr.Variable(resdims, np.zeros([2] * len(resdims)))
        if rng.random() < 0.3 and gname == "lab":   # binning: the group dimension is '<name>_bins'
            resdims = [d if d != gname else "lab_bins" for d in resdims]
            res = xr.Variable(resdims, np.zeros([2] * len(resdims)))
            out = list(_restore_dim_order(res, obj, by, no_groupby_reorder=nr, group_name="lab_bins").dims)
            gname = "lab_bins"
        else:
            out = list(_restore_dim_order(res, obj, by, no_groupby_reorder=nr).dims)
        run.count(f"rdo|{objdims}|{gname}|{gdims}|{nr}|{resdims}", len(resdims) > 1 and out != resdims)
        sl = lambda l: C.list_lit([C.str_lit(x) for x in l])
        gd = f"(Some {C.str_lit(gdims[0])})" if len(gdims) == 1 else "None"
        coq.append(f"({sl(objdims)}, {C.str_lit(gname)}, {gd}, {'true' if nr else 'false'}, {sl(resdims)}, {sl(out)})")
    hdr = "From Coq Require Import ZArith String List Bool.\nFrom Flox Require Import Cases.\nImport ListNotations.\nOpen Scope string_scope.\n"
    text = hdr + "Definition cases := [\n " + ";\n ".join(coq) + "\n].\nEval vm_compute in (failing restore_case_ok cases).\n"
    res = C.coq_eval_many({"rdo": text}, "C15")
    ok, out = res["rdo"]
    lists = C.parse_nat_list(out)
    good = ok and len(lists) == 1 and not lists[0]
    detail = "" if good else (f"model differs on {[coq[j] for j in lists[0][:3]]}" if ok and len(lists) == 1 else out[-400:])
    run.extra["model_cases_evaluated_in_coq"] = len(coq)
    run.oblige("correspondence:K2 XrDims.restore_dim_order == flox.xarray._restore_dim_order", good, detail[:1200])


def broadcast_cases(run, rng, n):
    """_broadcast_size_one_dims (aligns every grouper with the array's core dims): element-wise semantics on labelled index
    arrays, dims of equal length most of the time (a wrong permutation is then shape-compatible and silent)"""
    import numpy as np

    from flox.xarray import _broadcast_size_one_dims

    coq = []
    primes = {"x": 2, "y": 3, "z": 5, "w": 7}
    for _ in range(n):
        ncore = rng.randint(1, 4)
        core0 = rng.sample(["x", "y", "z", "w"], ncore)
        side = rng.choice([2, 3])
        distinct = rng.random() < 0.3      # distinct lengths: the axis names of the result can be read off its shape (Coq K2)
        sizes = {d: (primes[d] if distinct else side if rng.random() < 0.8 else rng.randint(2, 4)) for d in core0}
        nby = rng.randint(1, 2)
        bys, bydims = [], []
        for _b in range(nby):
            k = rng.randint(1, ncore)
            dims = rng.sample(core0, k)                      # any subset, any order
            by = np.arange(int(np.prod([sizes[d] for d in dims]))).reshape([sizes[d] for d in dims])
            bys.append(by)
            bydims.append(dims)
        lead = rng.randint(0, 1)
        array = np.zeros([2] * lead + [sizes[d] for d in core0])
        try:
            out = _broadcast_size_one_dims(array, *bys, core_dims=[core0] + bydims)
        except Exception as e:  # noqa: BLE001
            run.violation({"property": "C15", "kind": "_broadcast_size_one_dims raised", "core_dims": core0, "by_dims": bydims, "sizes": sizes,
                           "exc": repr(e)[:200]}, tag="bcast")
            return
        run.count(f"bc|{core0}|{bydims}|{sizes}", ncore > 1)
        for by, dims, res in zip(bys, bydims, out[1:]):
            if distinct:
                inv = {v: k for k, v in primes.items()}
                names = [f"(Some {C.str_lit(inv[n_])})" if n_ in inv else "None" for n_ in res.shape]
                sl = lambda l: C.list_lit([C.str_lit(x) for x in l])   # noqa: E731
                coq.append(f"({sl(core0)}, {sl(dims)}, {C.list_lit(names)})")
            want_shape = tuple(sizes[d] if d in dims else 1 for d in core0)
            ok = tuple(res.shape) == want_shape
            if ok:
                full = np.broadcast_to(res, [sizes[d] for d in core0])
                for idx in itertools.product(*[range(sizes[d]) for d in core0]):
                    pos = dict(zip(core0, idx))
                    if full[idx] != by[tuple(pos[d] for d in dims)]:
                        ok = False
                        break
            if not ok:
                run.violation({"property": "C15", "kind": "_broadcast_size_one_dims mis-aligns a grouper with the array's core dimensions",
                               "core_dims": core0, "by_dims": dims, "sizes": sizes, "result_shape": list(res.shape), "wanted_shape": list(want_shape),
                               "how_to_run": "flox.xarray._broadcast_size_one_dims(array, by, core_dims=[core_dims, by_dims]) with by = arange"}, tag="bcast")
                return
    hdr = "From Coq Require Import ZArith String List Bool.\nFrom Flox Require Import Cases.\nImport ListNotations.\nOpen Scope string_scope.\n"
    text = hdr + "Definition cases := [\n " + ";\n ".join(coq) + "\n].\nEval vm_compute in (failing broadcast_case_ok cases).\n"
    ok, o = C.coq_eval_many({"bcast": text}, "C15")["bcast"]
    lists = C.parse_nat_list(o)
    good = ok and len(lists) == 1 and not lists[0]
    run.extra["broadcast_model_cases_in_coq"] = len(coq)
    run.oblige("correspondence:K2 XrDims.broadcast_result == axes of flox.xarray._broadcast_size_one_dims", good,
               "" if good else (f"model differs on {[coq[j] for j in lists[0][:3]]}" if ok and len(lists) == 1 else o[-400:])[:1200])


def run(run: C.Run):
    rng = random.Random(run.seed)
    P.front(run, translators=())
    thorough = run.tier == "thorough"
    restore_cases(run, rng, 3000 if thorough else 600)
    broadcast_cases(run, rng, 4000 if thorough else 800)
    cases(run, rng, 6000 if thorough else 500, 4 if thorough else 3)
    nd_grouper_cases(run, rng, 2000 if thorough else 250)
    if any(not o[1] for o in run.obligations) and not run.violations:
        run.violation({"property": "C15", "kind": "proof obligation no longer checks", "failed": P.failed_obligations(run)}, nofail=True, tag="obligation")
    run.cov["explanation"] = (
        "Partial by nature: xarray is an independent implementation that is not modelled; native xarray groupby with flox disabled is the "
        "RUNTIME ORACLE. Coq covers flox's own dimension bookkeeping only (_restore_dim_order: the output dims are a permutation of the "
        "result's dims, ordered like the object's dims with the group dimension at the place of the grouped dimension, relative order of "
        "the others preserved). The check generates DataArrays / Datasets with 1-3 (4 thorough) dims in random order, a 1-D grouping "
        "coordinate on any dim, NaNs, extra non-dimension coordinates, variables lacking the grouped dim, dim in {None, grouped dim, "
        "..., grouped+other, other (plain reduction shortcut)}, skipna in {None,True,False}, keep_attrs, chunked or not, and compares "
        "values, dims order, coords, names and attrs with the native result.")
    run.cov["rule"] = "random xarray objects as described; non-trivial = more than one dimension; cases native xarray itself refuses are skipped"


def replay(run: C.Run, path):
    P.front(run, translators=())
    cases(run, random.Random(run.seed), 300, 3)
