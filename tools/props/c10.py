"""C10 — grouped scans equal per-group sequential scans for every chunking."""
from __future__ import annotations

import random
import warnings

from tools.lib import common as C
from tools.lib import findings as F
from tools.lib import gen as G
from tools.lib import impl as I
from tools.lib import proofs as P
from tools.props.c07 import eval_simple

LEVEL = "proof"
FCODE = {"nancumsum": 0, "ffill": 1, "bfill": 2}


def oracle(func, vals, labels):
    """positions of each group hold the ordinary NumPy scan of that group's members, in positional order"""
    import numpy as np
    import pandas as pd

    out = np.array(vals, dtype=float).copy()
    lab = np.asarray(labels, dtype=float)
    for g in np.unique(lab[~np.isnan(lab)]):
        idx = np.nonzero(lab == g)[0]
        mem = out[idx]
        if func == "nancumsum":
            out[idx] = np.nancumsum(mem)
        elif func == "ffill":
            out[idx] = pd.Series(mem).ffill().to_numpy()
        else:
            out[idx] = pd.Series(mem).bfill().to_numpy()
    return out


def scan_cases(run, rng, cases, defer=0):
    """defer > 0: the lazy results of `defer` consecutive cases are all BUILT before the first of them is computed
    (a graph must not depend on the scans requested between building and computing it)"""
    import dask
    import dask.array as da
    import numpy as np

    import flox

    def inputs(case):
        func, vals, labels, chunks, dtype = case
        v = np.array([I.unf(x) for x in vals], dtype=dtype)
        lab = np.array([I.unf(x) for x in labels], dtype=float if "nan" in labels else int)
        arr = v if chunks is None else da.from_array(v, chunks=(tuple(chunks),))
        return v, lab, arr

    coq = []
    prebuilt = {}
    for ci, (func, vals, labels, chunks, dtype) in enumerate(cases):
        if defer and ci % defer == 0:
            prebuilt = {}
            for cj in range(ci, min(len(cases), ci + defer)):
                _, lab_j, arr_j = inputs(cases[cj])
                try:
                    with warnings.catch_warnings():
                        warnings.simplefilter("ignore")
                        prebuilt[cj] = flox.groupby_scan(arr_j, lab_j, func=cases[cj][0])
                except Exception as e:  # noqa: BLE001  -- re-raised at the case's own turn
                    prebuilt[cj] = e
        v, lab, arr = inputs((func, vals, labels, chunks, dtype))
        key = f"scan|{func}|{vals}|{labels}|{chunks}|{dtype}|{defer}"
        nblocks = 0 if chunks is None else len(chunks)
        absent_somewhere = False
        if chunks:
            off = 0
            for s in chunks:
                if set(labels[off:off + s]) != set(labels):
                    absent_somewhere = True
                off += s
        run.count(key, nblocks >= 2 and absent_somewhere)
        try:
            with warnings.catch_warnings(), dask.config.set(scheduler="sync"):
                warnings.simplefilter("ignore")
                res = prebuilt.pop(ci, None) if defer else None
                if isinstance(res, Exception):
                    raise res
                if res is None:
                    res = flox.groupby_scan(arr, lab, func=func)
                got = np.asarray(res.compute() if hasattr(res, "compute") else res)
        except (ValueError, NotImplementedError):
            run.extra["refused_cases"] = run.extra.get("refused_cases", 0) + 1
            continue
        except Exception as e:  # noqa: BLE001
            info = {"property": "C10", "kind": "groupby_scan raised an internal error", "func": func, "vals": vals,
                    "labels": labels, "chunks": chunks, "dtype": dtype, "exc": repr(e)[:200]}
            fid = F.classify_nd("C10", info)
            if fid:
                run.known(fid, F.describe(fid))
            else:
                run.violation(info, tag="scan")
            continue
        got_dtype = np.asarray(got).dtype
        if np.asarray(got).dtype.kind in "Mm":          # datetimes / timedeltas are compared through their int64 representation
            got = np.asarray(got).view("int64")
        vf = v.view("int64").astype(float) if v.dtype.kind in "Mm" else v.astype(float)
        if dtype.startswith("float"):
            want = oracle(func, v, lab)
        else:
            want = oracle(func, vf, lab) if func == "nancumsum" else vf
        valid_pos = ~np.isnan(lab.astype(float))       # positions with a missing label: unspecified
        tol = dict(rtol=1e-12, atol=1e-12) if dtype != "float32" else dict(rtol=1e-5, atol=1e-6)     # float64 / integer data: no digit may be lost
        ok = got.shape == v.shape and np.allclose(np.asarray(got, dtype=float)[valid_pos], want[valid_pos], equal_nan=True, **tol)
        if not ok:
            info = {"property": "C10", "kind": "grouped scan differs from the per-group sequential NumPy scan", "func": func,
                    "vals": vals, "labels": labels, "chunks": chunks, "dtype": dtype,
                    "got": [I.fnum(x) for x in np.asarray(got, dtype=float)], "want": [I.fnum(x) for x in want]}
            if defer:
                w0 = ci - ci % defer
                info["history"] = (f"the lazy scans of these {defer} cases were all built (in this order) before any was computed; this is case "
                                   f"{ci - w0} of the window")
                info["window"] = [dict(zip(("func", "vals", "labels", "chunks", "dtype"), c)) for c in cases[w0:w0 + defer]]
            fid = F.classify_nd("C10", info)
            if fid:
                run.known(fid, F.describe(fid))
            else:
                run.violation(info, tag="scan")
            continue
        if chunks is not None:
            # "the same for in-memory and chunked inputs": EVERY position, those with a missing label included
            try:
                with warnings.catch_warnings():
                    warnings.simplefilter("ignore")
                    eager = np.asarray(flox.groupby_scan(v, lab, func=func))
                    eager_dtype = eager.dtype
                    eager = eager.view("int64").astype(float) if eager.dtype.kind in "Mm" else eager.astype(float)
            except Exception:  # noqa: BLE001
                eager = None
            if eager is not None and got_dtype != eager_dtype and got_dtype.kind not in "Mm":
                run.violation({"property": "C10", "kind": "chunked grouped scan has another dtype than the in-memory scan of the same data",
                               "func": func, "vals": vals, "labels": labels, "chunks": chunks, "dtype": dtype,
                               "chunked_dtype": str(got_dtype), "in_memory_dtype": str(eager_dtype),
                               **({"window": [dict(zip(("func", "vals", "labels", "chunks", "dtype"), c)) for c in cases[ci - ci % defer:ci - ci % defer + defer]]} if defer else {})}, tag="scan")
                continue
            if eager is not None and not np.allclose(np.asarray(got, dtype=float), eager, equal_nan=True, **tol):
                run.violation({"property": "C10", "kind": "chunked grouped scan differs from the in-memory scan of the same data",
                               "func": func, "vals": vals, "labels": labels, "chunks": chunks, "dtype": dtype,
                               "chunked": [I.fnum(x) for x in np.asarray(got, dtype=float)], "in_memory": [I.fnum(x) for x in eager]}, tag="scan")
                continue
        if dtype == "float64" and "nan" not in labels and all(x == "nan" or float(x).is_integer() for x in vals) and not F.classify_nd("C10", {"func": func, "labels": labels, "vals": vals, "chunks": chunks, "probe": True}):
            present = sorted(set(labels))
            codes = [present.index(x) for x in labels]
            coq.append(f"({FCODE[func]}, {C.list_lit([str(s) + '%nat' for s in (chunks or [])])}, {C.list_lit([C.zlit(c) for c in codes])}, "
                       f"{C.list_lit([C.xval_lit(I.unf(x)) for x in vals])}, {C.list_lit([C.xval_lit(float(x)) for x in np.asarray(got, dtype=float)])})")
    if cases:
        run.sample({"scan_case": dict(zip(("func", "vals", "labels", "chunks", "dtype"), cases[-1]))})
    return coq


def gen(rng, n, exhaustive_upto):
    cases = []
    for m in range(2, exhaustive_upto + 1):
        for chunks in G.compositions(m):
            for func in FCODE:
                labels = [rng.randrange(2) for _ in range(m)]
                vals = [rng.choice([1, 2, -1, "nan", "nan"]) for _ in range(m)]
                cases.append((func, vals, labels, list(chunks), "float64"))
    for _ in range(n):
        func = rng.choice(list(FCODE))
        m = rng.randint(2, 12)
        ng = rng.randint(1, 4)
        labels = G.rand_labels(rng, m, ng, style=rng.choice(["random", "periodic", "runs"]))
        if func != "nancumsum" and rng.random() < 0.2:
            labels = [l if rng.random() > 0.15 else "nan" for l in labels]
        dtype = rng.choice(["float64", "float64", "float64", "int64", "int32", "bool", "float32"])
        if dtype.startswith("float"):
            vals = [rng.choice([-2, -1, 0, 1, 2, 3]) for _ in range(m)]
            # NaN runs, possibly spanning chunk boundaries
            start = rng.randrange(m)
            for i in range(start, min(m, start + rng.randint(1, 5))):
                vals[i] = "nan"
        elif dtype == "bool":
            vals = [rng.random() < 0.5 for _ in range(m)]
        else:
            vals = [rng.randint(-3, 3) for _ in range(m)]
        chunks = None if rng.random() < 0.25 else list(G.random_composition(rng, m))
        cases.append((func, vals, labels, chunks, dtype))
    # datetime64 / timedelta64 data without NaT (NaT filling is known finding KF09): ffill/bfill keep the values, timedelta sums run on int64
    for _ in range(max(6, n // 60)):
        m = rng.randint(3, 12)
        labels = G.rand_labels(rng, m, rng.randint(1, 3))
        if rng.random() < 0.5:
            cases.append((rng.choice(["ffill", "bfill"]), [rng.randint(0, 10 ** 6) for _ in range(m)], labels, list(G.random_composition(rng, m)), "datetime64[ns]"))
        else:
            cases.append(("nancumsum", [rng.randint(-10 ** 6, 10 ** 6) for _ in range(m)], labels, list(G.random_composition(rng, m)), "timedelta64[ns]"))
    # narrow integers whose running / per-block group totals leave the input width (int8: 127, uint8: 255, int16: 32767)
    for _ in range(max(6, n // 60)):
        dtype = rng.choice(["bool", "int8", "uint8", "int16"])
        m = rng.randint(300, 700)
        ng = rng.randint(1, 3)
        labels = [i % ng for i in range(m)] if rng.random() < 0.5 else [rng.randrange(ng) for _ in range(m)]
        hi = {"bool": 1, "int8": 100, "uint8": 200, "int16": 30000}[dtype]
        vals = [rng.random() < 0.9 for _ in range(m)] if dtype == "bool" else [rng.choice([hi, hi // 2, 1]) for _ in range(m)]
        cases.append(("nancumsum", vals, labels, list(G.random_composition(rng, m, rng.randint(2, 5))), dtype))
    return cases


def run(run: C.Run):
    rng = random.Random(run.seed)
    P.front(run, translators=("registry",))
    thorough = run.tier == "thorough"
    cases = gen(rng, 4000 if thorough else 700, 8 if thorough else 6)
    run.cov["exhaustive"] = True
    coq = scan_cases(run, rng, cases)
    # the same kind of cases, mixed dtypes, every lazy result of a window built before any of them is computed
    dcases = [c for c in gen(rng, 1500 if thorough else 300, 0) if c[3] is not None]
    rng.shuffle(dcases)
    # neighbours in a window: the same scan on data of alternating dtype kinds (what a shared, specialised blueprint would confuse)
    arranged = []
    for f in sorted({c[0] for c in dcases}):
        fl = [c for c in dcases if c[0] == f and c[4].startswith("float")]
        ot = [c for c in dcases if c[0] == f and not c[4].startswith("float")]
        while fl or ot:
            if fl:
                arranged.append(fl.pop())
            if ot:
                arranged.append(ot.pop())
    # float data with many significant digits (not representable as integers or in float32): a carried state that passes
    # through another scan's dtype loses digits visibly
    dcases = [(f, [x if x == "nan" else x + rng.choice([0.123456789, 0.37, -0.000123, 1 / 3]) for x in vals] if dt == "float64" else vals, lab, ch, dt)
              for f, vals, lab, ch, dt in arranged]
    coq += scan_cases(run, rng, dcases, defer=6)
    run.extra["deferred_scan_cases (6 lazy scans built before the first is computed)"] = len(dcases)
    eval_simple(run, "scan", "scan_case_ok", coq, "correspondence:K3 Scan.scan_seq / scan_chunked == flox.groupby_scan")
    if any(not o[1] for o in run.obligations) and not run.violations:
        run.violation({"property": "C10", "kind": "proof obligation / correspondence no longer checks",
                       "failed": P.failed_obligations(run)}, nofail=True, tag="obligation")
    run.assumptions.append("dask's Blelloch prefixscan is modelled as: block i receives some bracketing of binop over preop of blocks 0..i-1")
    run.cov["rule"] = (
        "groupby_scan nancumsum/ffill/bfill: ALL chunkings of axes of length <=6 (quick) / 8 (thorough) with 2 interleaved groups and "
        "NaNs, plus random cases (<=12 elements, 1-4 groups, NaN runs spanning chunk boundaries, groups absent from blocks, missing "
        "labels for ffill/bfill, float64/float32/int/bool data, eager and dask); compared with the per-group sequential NumPy/pandas "
        "scan and (float64, no missing labels) with the Coq model; positions whose label is missing are not compared; "
        "non-trivial = >=2 blocks and some block lacks a group")


def replay(run: C.Run, path):
    P.front(run, translators=("registry",))
    rp = C.json.load(open(path))
    if "window" in rp:
        w = [(c["func"], c["vals"], c["labels"], c["chunks"], c["dtype"]) for c in rp["window"]]
        coq = scan_cases(run, random.Random(run.seed), w, defer=len(w))
        eval_simple(run, "scan", "scan_case_ok", coq, "correspondence:K3 Scan == flox.groupby_scan")
    elif "func" in rp:
        coq = scan_cases(run, random.Random(run.seed), [(rp["func"], rp["vals"], rp["labels"], rp["chunks"], rp["dtype"])])
        eval_simple(run, "scan", "scan_case_ok", coq, "correspondence:K3 Scan == flox.groupby_scan")
