"""C19 — unsupported requests refused cleanly; auto plan works wherever map-reduce does."""
from __future__ import annotations

import json
import random

from tools.lib import common as C
from tools.lib import findings as F
from tools.lib import grid as GD
from tools.lib import impl as I
from tools.lib import proofs as P

LEVEL = "proof"
CODE = {"Ok": 0, "ValueError": 1, "NotImplementedError": 2, "ImportError": 3}


def code(o):
    if o is None:
        return 0
    return CODE.get(o, 4)


def same_result(a, b):
    if a.get("result") is None or b.get("result") is None:
        return False
    if a.get("shape") != b.get("shape") or len(a["result"]) != len(b["result"]):
        return False
    return all(I.same(x, y) for x, y in zip(a["result"], b["result"])) and \
        all(I.same(x, y) for x, y in zip(a.get("groups", []), b.get("groups", []))) and len(a.get("groups", [])) == len(b.get("groups", []))


def mres(o, ref):
    succeeded = o["call"] == "Ok" and o["compute"] == "Ok"
    return f"(mkM {code(o['call'])} {code(o['compute'])} {'true' if (succeeded and same_result(o, ref)) else 'false'})"


def choose_method_search(run):
    """when the theorems over the _choose_method table no longer check: exhibit the offending decision (python mirror of
    ChooseLaw.row_ok evaluated on the real function)"""
    import numpy as np

    import flox.core as fc
    from flox.aggregations import _initialize_aggregation

    for name in ["sum", "nanmean", "argmax", "nanargmin", "median", "nanquantile", "first"]:
        agg = _initialize_aggregation(name, None, np.dtype("float64"), None, 0, {"q": 0.5} if "quantile" in name else {})
        is_arg, bw_only = bool(fc._is_arg_reduction(agg)), agg.chunk == (None,)
        for method in (None, "map-reduce", "cohorts", "blockwise"):
            for pref in ("map-reduce", "cohorts", "blockwise"):
                for nax, ndim in ((1, 1), (1, 2), (2, 2)):
                    try:
                        out = fc._choose_method(method, pref, agg, np.zeros((2,) * ndim, dtype=int), nax)
                    except Exception as e:  # noqa: BLE001
                        out = "raise:" + type(e).__name__
                    if method is not None:
                        ok = out == method
                    elif bw_only:
                        ok = (out == "blockwise" and pref == "blockwise") or (out == "raise:ValueError" and pref != "blockwise")
                    else:
                        ok = (out in ("map-reduce", "cohorts", "blockwise") and (nax == ndim or out == "map-reduce")
                              and not (is_arg and out == "blockwise")
                              and (nax != ndim or out == pref or (is_arg and pref == "blockwise" and out == "cohorts")))
                    if not ok:
                        run.violation({"property": "C19", "kind": "_choose_method breaks the rules that make the automatic choice safe",
                                       "aggregation": name, "requested_method": method, "preferred_method": pref, "nax": nax, "by_ndim": ndim,
                                       "returned": out, "how_to_run": "flox.core._choose_method(method, preferred, agg, by, nax)"}, tag="choose")
                        return


def block_grid_cases(run, rng, n):
    """n-d labels over NON-SQUARE block grids (2x3, 3x1, 2x1x3 ...), blocks of unequal sizes, reduced over all label axes; every
    group inside one block (so that an explicit method='blockwise' is in contract) or groups spread over blocks; optional batch
    dimension.  Contract: no internal error; the automatic plan succeeds and equals map-reduce (and the per-group NumPy result);
    explicit cohorts / blockwise equal it or are refused."""
    import dask
    import dask.array as da
    import numpy as np

    import flox

    def outcome(arr, by, func, method):
        try:
            with warnings.catch_warnings(), dask.config.set(scheduler="sync"):
                warnings.simplefilter("ignore")
                r, g = flox.groupby_reduce(arr, by, func=func, method=method)
                r, g = dask.compute(r, g)
            return "Ok", np.asarray(r, dtype=float), np.asarray(g)
        except BaseException as e:  # noqa: BLE001
            if isinstance(e, (KeyboardInterrupt, SystemExit)):
                raise
            return I.exc_class(e) + ": " + str(e)[:100], None, None

    import warnings
    desc = None
    for _ in range(n):
        nd = rng.choice([2, 2, 3])
        grid = tuple(rng.randint(1, 3) for _ in range(nd))
        if len(set(grid)) == 1 and rng.random() < 0.7:
            grid = grid[:-1] + (grid[-1] % 3 + 1,)          # prefer non-square grids
        chunks = tuple(tuple(rng.randint(1, 3) for _ in range(g)) for g in grid)
        shape = tuple(sum(c) for c in chunks)
        confined = rng.random() < 0.7
        labels = np.zeros(shape, dtype=int)
        bounds = [np.cumsum((0,) + c) for c in chunks]
        for bi, idx in enumerate(np.ndindex(*grid)):
            sl = tuple(slice(bounds[d][i], bounds[d][i + 1]) for d, i in enumerate(idx))
            blk = labels[sl]
            if confined:
                blk[...] = 2 * bi + (np.arange(blk.size).reshape(blk.shape) % 2 if rng.random() < 0.5 else 0)
            else:
                blk[...] = (np.arange(blk.size).reshape(blk.shape) + bi) % 3
        batch = rng.random() < 0.3
        vshape = ((2,) if batch else ()) + shape
        vals = np.array([rng.randint(-4, 4) for _ in range(int(np.prod(vshape)))], dtype=float).reshape(vshape)
        func = rng.choice(["sum", "nanmax", "count", "mean", "nanfirst", "min"])
        arr = da.from_array(vals, chunks=(((2,),) if batch else ()) + chunks)
        desc = {"label_shape": list(shape), "block_grid": list(grid), "chunks": [list(c) for c in chunks], "labels": labels.tolist(), "vals": vals.tolist(),
                "func": func, "batch_dim": batch, "every_group_inside_one_block": confined}
        # an explicit method='blockwise' is in contract only when every group lies inside one block
        res = {m: outcome(arr, labels, func, m) for m in (None, "map-reduce", "cohorts") + (("blockwise",) if confined else ())}
        run.count("bg|" + json.dumps(desc, sort_keys=True), len(set(grid)) > 1)
        hist = run.extra.setdefault("block_grid_histogram", {})
        hist[str(grid)] = hist.get(str(grid), 0) + 1
        mr = res["map-reduce"]
        problem = None
        # per-group NumPy reference
        ids = np.unique(labels)
        flat_l = labels.reshape(-1)
        def ref_of(v2):
            v2 = v2.reshape(-1)
            out = []
            for g_ in ids:
                mem = v2[flat_l == g_]
                out.append({"sum": mem.sum(), "nanmax": mem.max(), "count": float(len(mem)), "mean": mem.mean(), "nanfirst": mem[0], "min": mem.min()}[func])
            return np.array(out, dtype=float)
        want = np.stack([ref_of(v2) for v2 in vals]) if batch else ref_of(vals)
        for m, (oc, r, g) in res.items():
            if oc.startswith("Internal"):
                problem = f"method={m!r}: internal error {oc}"
            elif oc == "Ok" and (r.shape != want.shape or not np.allclose(r, want, equal_nan=True) or list(np.asarray(g).reshape(-1)) != list(ids)):
                problem = f"method={m!r}: wrong answer (differs from the per-group NumPy result)"
            elif oc != "Ok" and m is None and mr[0] == "Ok":
                problem = f"the automatic plan is refused ({oc}) although an explicit map-reduce succeeds"
            elif oc != "Ok" and m == "blockwise" and confined and len(shape) <= 1:
                problem = f"method='blockwise' refused an input meeting its precondition ({oc})"
            if problem:
                break
        if problem:
            run.violation(dict(desc, property="C19", kind="n-d block grid: " + problem,
                               outcomes={str(m): [oc, None if r is None else r.tolist()] for m, (oc, r, g) in res.items()}, numpy_reference=want.tolist(),
                               how_to_run="flox.groupby_reduce(da.from_array(vals, chunks=chunks), labels, func=func, method=m) for m in (None,'map-reduce','cohorts','blockwise')"),
                          tag="bgrid")
    if desc:
        run.sample({"block_grid_case": {k: v for k, v in desc.items() if k not in ("labels", "vals")}})


def cohort_merge_cases(run, rng, n):
    """1-D labels over many blocks with OVERLAPPING cohorts (so that the planner reaches its merging stage), several labels living in
    identical block sets, and requested labels that never occur (some smaller than every present label): the automatic plan and an
    explicit method='cohorts' must not fail where map-reduce succeeds, and must give the same answer"""
    import warnings

    import dask
    import dask.array as da
    import numpy as np

    import flox

    desc = None
    for _ in range(n):
        nb = rng.randint(4, 9)
        csz = rng.randint(1, 3)
        m = nb * csz
        low = rng.randint(0, 3)                      # requested labels below `low` never occur
        npres = rng.randint(3, 6)
        present = list(range(low, low + npres))
        labels = np.zeros(m, dtype=int)
        # every present label gets a contiguous window of blocks; windows overlap; some labels share exactly the same window
        windows = {}
        for lab in present:
            if windows and rng.random() < 0.35:
                windows[lab] = windows[rng.choice(list(windows))]
            else:
                a = rng.randrange(nb)
                windows[lab] = (a, min(nb, a + rng.randint(1, 4)))
        for b in range(nb):
            cands = [lab for lab, (a, e) in windows.items() if a <= b < e] or [present[0]]
            for i in range(csz):
                labels[b * csz + i] = rng.choice(cands)
        ngroups = low + npres + rng.randint(0, 2)
        vals = np.array([rng.randint(-4, 4) for _ in range(m)], dtype=float)
        func = rng.choice(["sum", "nanmax", "count", "mean"])
        desc = {"labels": labels.tolist(), "vals": vals.tolist(), "chunk_size": csz, "expected_groups": f"arange({ngroups})", "func": func}
        outs = {}
        for method in ("map-reduce", None, "cohorts"):
            try:
                with warnings.catch_warnings(), dask.config.set(scheduler="sync"):
                    warnings.simplefilter("ignore")
                    r, _ = flox.groupby_reduce(da.from_array(vals, chunks=csz), labels, func=func, method=method, expected_groups=np.arange(ngroups), fill_value=-99)
                    outs[method] = ("Ok", np.asarray(r.compute(), dtype=float))
            except BaseException as e:  # noqa: BLE001
                if isinstance(e, (KeyboardInterrupt, SystemExit)):
                    raise
                outs[method] = (I.exc_class(e) + ": " + str(e)[:100], None)
        run.count("cm|" + json.dumps(desc, sort_keys=True), True)
        mr = outs["map-reduce"]
        problem = None
        for method in (None, "cohorts"):
            oc, r = outs[method]
            if oc.startswith("Internal"):
                problem = f"method={method!r}: internal error {oc}"
            elif mr[0] == "Ok" and oc != "Ok" and method is None:
                problem = f"the automatic plan is refused ({oc}) although an explicit map-reduce succeeds"
            elif mr[0] == "Ok" and oc == "Ok" and not np.allclose(r, mr[1], equal_nan=True):
                problem = f"method={method!r} gives another answer than map-reduce"
            if problem:
                break
        if problem:
            run.violation(dict(desc, property="C19", kind="overlapping cohorts: " + problem,
                               outcomes={str(k): [v[0], None if v[1] is None else v[1].tolist()] for k, v in outs.items()},
                               how_to_run="flox.groupby_reduce(da.from_array(vals, chunks=chunk_size), labels, func=func, method=m, expected_groups=np.arange(n), fill_value=-99)"),
                          tag="cmerge")
    if desc:
        run.sample({"cohort_merge_case": desc})


def run(run: C.Run):
    rng = random.Random(run.seed)
    if not P.front(run, translators=("tables",)):
        choose_method_search(run)
    thorough = run.tier == "thorough"
    if thorough:
        cells = list(GD.all_cells())
    else:
        core = [c for c in GD.all_cells(["sum", "argmax", "nanfirst", "median"]) if c["engine"] in (None, "numpy", "flox")]
        rest = list(GD.all_cells([f for f in GD.FUNCS if f not in ("sum", "argmax", "nanfirst", "median")]))
        rng.shuffle(rest)
        cells = core + rest[:2500]
    # group by the cell without its method: every group is evaluated for all four methods
    keyless = {}
    for c in cells:
        k = tuple((x, c[x]) for x in GD.KEYS if x != "method")
        keyless.setdefault(k, dict(c))
    groups = list(keyless.values())
    if not thorough:
        rng.shuffle(groups)
        groups = groups[:650]
    else:
        run.cov["exhaustive"] = True
    work_cells = [dict(g, method=m) for g in groups for m in GD.METHODS]
    variants = (0, 1)
    work, res = GD.run_cells(work_cells, variants)
    by = {}
    for (cell, v), r in zip(work, res):
        by[(tuple((x, cell[x]) for x in GD.KEYS if x != "method"), v, cell["method"])] = r
    rows, row_cells = [], []
    hist = {}
    for g in groups:
        k = tuple((x, g[x]) for x in GD.KEYS if x != "method")
        for v in variants:
            o = {m: by[(k, v, m)] for m in GD.METHODS}
            mr = o["map-reduce"]
            for m in GD.METHODS:
                oc = (o[m]["call"], o[m]["compute"])
                hist[str(oc)] = hist.get(str(oc), 0) + 1
                run.count(json.dumps([k, v, m]), o[m]["call"] == "Ok")
            # variant 1 (interleaved labels) does not meet the documented precondition of an explicit method='blockwise'
            bw = mres(o['blockwise'], mr) if v == 0 else "(mkM 1 0 false)"
            rows.append(f"(mkRow {mres(o[None], mr)} {mres(mr, mr)} {mres(o['cohorts'], mr)} {bw})")
            row_cells.append((g, v, o))
    run.extra["outcome_histogram(call, compute)"] = hist
    run.sample({"grid_cell": {k: str(v) for k, v in groups[0].items()}, "outcomes": {str(m): [row_cells[0][2][m]["call"], row_cells[0][2][m]["compute"]] for m in GD.METHODS}})
    hdr = "From Coq Require Import List Bool.\nFrom Flox Require Import C19Proofs.\nImport ListNotations.\n"
    texts = {f"grid_{i // 1500}": hdr + "Definition rows := [\n " + ";\n ".join(rows[i:i + 1500]) + "\n].\nEval vm_compute in (Cases.failing row_ok rows).\n"
             for i in range(0, len(rows), 1500)}
    texts = {k: t.replace("From Flox Require Import C19Proofs.", "From Flox Require Import C19Proofs Cases.") for k, t in texts.items()}
    out = C.coq_eval_many(texts, "C19")
    bad_idx, logs = [], []
    for name, (ok, o) in sorted(out.items()):
        lists = C.parse_nat_list(o)
        if not ok or len(lists) != 1:
            logs.append(o[-300:])
            bad_idx.append(-1)
        else:
            base = int(name.split("_")[1]) * 1500
            bad_idx += [base + j for j in lists[0]]
    run.extra["grid_rows_checked_in_coq"] = len(rows)
    unexplained = []
    for j in bad_idx:
        if j < 0:
            unexplained.append({"coq": logs[:1]})
            continue
        g, v, o = row_cells[j]
        info = {"property": "C19", "kind": "grid cell violates the refusal / auto-plan contract", "cell": {k: g[k] for k in GD.KEYS if k != "method"},
                "variant": v, "outcomes": {str(m): {kk: o[m].get(kk) for kk in ("call", "compute", "msg", "result", "groups", "shape")} for m in GD.METHODS},
                "how_to_run": "tools/lib/grid.py:run_cell(dict(cell, method=...), variant)"}
        fid = F.classify_nd("C19", dict(info, **info["cell"]))
        if fid:
            run.known(fid, F.describe(fid))
        else:
            unexplained.append(info)
    run.oblige("grid_ok evaluated by vm_compute on the outcome table of this run (no internal error; auto plan = map-reduce; explicit plans equal or refused)",
               not unexplained, f"{len(unexplained)} offending rows" if unexplained else "")
    for info in unexplained[:6]:
        run.violation(info, tag="grid")
    block_grid_cases(run, rng, 1200 if thorough else 200)
    cohort_merge_cases(run, rng, 1500 if thorough else 250)
    run.cov["rule"] = (
        "n-d labels over random NON-SQUARE block grids with unequal blocks (groups confined to blocks or spread), 4 methods vs the per-group NumPy "
        "result; finite configuration grid: reduction (29) x engine (5) x method (4) x reindex (3) x label kind (numpy/dask) x label ndim (1/2/3) x axis "
        "(all/last) x expected_groups (given/absent) x block layout (one block / few / one per element > split_every / no requested label present); "
        "quick: all cells of 4 reductions x 3 engines plus a random sample, 1100 method-groups; thorough: the whole grid x 2 canonical inputs; per "
        "cell the outcome class at call time and at compute time and the computed values/labels are recorded, emitted as a Coq table and "
        "checked by grid_ok (proved sound); non-trivial = the call was accepted")


def replay(run: C.Run, path):
    rp = json.load(open(path))
    P.front(run, translators=("tables",))
    cell = rp.get("cell")
    if cell:
        for m in GD.METHODS:
            r = GD.run_cell(dict(cell, method=m), rp.get("variant", 0))
            if str(r["call"]).startswith("Internal") or str(r["compute"]).startswith("Internal"):
                run.violation(dict(rp, replayed=r), tag="grid")
                break
