"""C11 — result dtype, shape and chunk metadata are plan-independent and truthful."""
from __future__ import annotations

import itertools
import random
import re
import warnings

from tools.lib import common as C
from tools.lib import findings as F
from tools.lib import gen as G
from tools.lib import proofs as P

LEVEL = "proof"
DTYPES = ["bool", "int8", "int16", "int32", "int64", "uint8", "uint16", "uint32", "uint64", "float32", "float64"]
FUNCS = ["sum", "nansum", "prod", "nanprod", "mean", "nanmean", "var", "nanvar", "std", "nanstd", "max", "nanmax", "min", "nanmin",
         "nanfirst", "nanlast", "count", "argmax", "nanargmin", "any", "all"]


def offending_rows():
    text = ("From Coq Require Import List String.\nFrom Flox Require Import Tables Dtype.\nImport ListNotations.\n"
            "Eval vm_compute in (List.length (filter (fun r => negb (dtype_row_ok r)) final_dtype_rows)).\n"
            "Eval vm_compute in (firstn 8 (filter (fun r => negb (dtype_row_ok r)) final_dtype_rows)).\n")
    ok, out = C.coq_eval(text, "offending", "C11", timeout=200)
    return out[-1500:] if ok else None


def plan_cases(run, rng, n):
    import dask
    import dask.array as da
    import numpy as np

    import flox

    for _ in range(n):
        func = rng.choice(FUNCS)
        dtype = rng.choice(DTYPES)
        if func in ("any", "all"):
            dtype = "bool"
        m = rng.randint(2, 9)
        ng = rng.randint(1, 3)
        vals = np.array([rng.randint(0, 3) for _ in range(m)]).astype(dtype)
        labels = np.array([i % ng for i in range(m)]) if rng.random() < 0.5 else np.array(sorted(rng.randrange(ng) for _ in range(m)))
        fill = rng.choice([None, None, 0, np.nan])
        kw = {}
        if fill is not None:
            kw = {"fill_value": fill, "expected_groups": np.arange(ng + (1 if rng.random() < 0.5 else 0))}
        outkw = rng.choice([None, None, None, "float64", "float32", "int64", "int32"]) if func not in ("any", "all", "count", "argmax", "nanargmin") and dtype != "bool" else None
        if outkw:
            kw["dtype"] = outkw
        ref = None
        variants = []
        for eng in ("numpy", "flox", "numbagg", "numba", None):
            variants.append(("eager", eng, None))
        for method in ("map-reduce", "cohorts", None):
            for eng in ("numpy", "flox"):
                variants.append(("dask", eng, method))
        chunks = G.random_composition(rng, m, 3)
        for mode, eng, method in variants:
            if eng == "flox" and func.startswith(("arg", "nanarg")):
                continue
            if eng == "numbagg" and "dtype" in kw:
                continue
            arr = vals if mode == "eager" else da.from_array(vals, chunks=(chunks,))
            try:
                with warnings.catch_warnings(), dask.config.set(scheduler="sync"):
                    warnings.simplefilter("ignore")
                    res, groups = flox.groupby_reduce(arr, labels, func=func, engine=eng, method=method, **kw)
                    announced = (str(res.dtype), tuple(res.shape))
                    if mode == "dask":
                        ach = res.chunks
                        meta_t = type(res._meta).__name__
                        comp = res.compute()
                        blocks = [res.blocks[i].compute() for i in range(res.numblocks[-1])]
                        bad_meta = (str(comp.dtype) != announced[0] or tuple(comp.shape) != announced[1]
                                    or tuple(b.shape[-1] for b in blocks) != tuple(ach[-1]) or any(str(b.dtype) != announced[0] for b in blocks)
                                    or type(comp).__name__ != meta_t)
                        if bad_meta:
                            run.violation({"property": "C11", "kind": "announced dtype/shape/chunks/meta differ from the computed blocks",
                                           "func": func, "dtype": dtype, "engine": eng, "method": method, "chunks": list(chunks),
                                           "vals": vals.tolist(), "labels": labels.tolist(), "kwargs": {k: str(v) for k, v in kw.items()},
                                           "announced": [announced[0], list(announced[1]), [list(c) for c in ach], meta_t],
                                           "computed": [str(comp.dtype), list(comp.shape), [list(b.shape) for b in blocks], type(comp).__name__]}, tag="meta")
            except (ValueError, NotImplementedError):
                continue
            except Exception as e:  # noqa: BLE001
                info = {"property": "C11", "kind": "internal error", "func": func, "dtype": dtype, "engine": eng, "method": method,
                        "vals": vals.tolist(), "labels": labels.tolist(), "kwargs": {k: str(v) for k, v in kw.items()}, "exc": repr(e)[:200]}
                fid = F.classify_nd("C11", info)
                if fid:
                    run.known(fid, F.describe(fid))
                else:
                    run.violation(info, tag="meta")
                continue
            run.count(f"plan|{func}|{dtype}|{mode}|{eng}|{method}|{fill}|{outkw}|{m}|{ng}", mode == "dask")
            if ref is None:
                ref = (announced, (mode, eng, method))
            elif announced != ref[0]:
                info = {"property": "C11", "kind": "result dtype/shape depends on engine / strategy / chunking",
                        "func": func, "dtype": dtype, "vals": vals.tolist(), "labels": labels.tolist(),
                        "kwargs": {k: str(v) for k, v in kw.items()}, "chunks": list(chunks),
                        "reference": [list(map(str, ref[1])), ref[0][0], list(ref[0][1])],
                        "differs": [[str(mode), str(eng), str(method)], announced[0], list(announced[1])]}
                fid = F.classify_nd("C11", info)
                if fid:
                    run.known(fid, F.describe(fid))
                else:
                    run.violation(info, tag="plan")
    run.sample({"plan_case": {"func": func, "dtype": dtype, "fill": str(fill), "dtype_kw": outkw, "n": m, "ngroups": ng}})


def run(run: C.Run):
    rng = random.Random(run.seed)
    ok = P.front(run, translators=("registry", "tables"))
    if not ok:
        run.extra["offending_table_rows"] = offending_rows()
    run.cov["exhaustive"] = True
    plan_cases(run, rng, 2500 if run.tier == "thorough" else 320)
    rows = re.findall(r"\((F_\w+), (D\w+), (None|Some D\w+), (Fill\w+),\s*(ODtype D\w+|OExc \w+)", run.extra.get("offending_table_rows") or "")
    for f, d, kw, fill, out in rows[:4]:
        # a row of the table IS a concrete input: the real eager call was made with exactly these arguments
        run.violation({"property": "C11", "kind": "result dtype does not follow the NumPy conventions",
                       "func": f[2:], "input_dtype": d, "dtype_kwarg": kw, "fill_value_kind": fill, "observed": out,
                       "how_to_run": "groupby_reduce(np.array([1,2,3,4], dtype=input_dtype), [0,0,1,1], func=func, engine='numpy', dtype=dtype_kwarg, "
                                     "fill_value={FillNone: None, FillInt: 0, FillNaN: nan}[kind], expected_groups=[0,1] if fill given)"}, tag="row")
    if any(not o[1] for o in run.obligations) and not run.violations:
        run.violation({"property": "C11", "kind": "proof obligation no longer checks: the dtype table regenerated from the code "
                       "no longer satisfies the NumPy conventions", "failed": P.failed_obligations(run),
                       "offending_rows": run.extra.get("offending_table_rows")}, nofail=True, tag="obligation")
    run.cov["rule"] = (
        "T2 evaluates the real eager groupby_reduce on the WHOLE finite grid 27 reductions x 13 dtypes x dtype= {None,float32,float64,"
        "int64} x fill {None,int,NaN} (~2700 rows) and Coq proves every row equals the NumPy-convention model (vm_compute + "
        "forallb_forall); K3: random cells run under 5 eager engine settings and 3 methods x 2 engines on dask: the announced "
        "(dtype, shape) must be identical across all of them, and for dask results the announced dtype/shape/chunks/meta type must "
        "equal those of the computed array and of every computed block; non-trivial = chunked variant")


def replay(run: C.Run, path):
    P.front(run, translators=("registry", "tables"))
    plan_cases(run, random.Random(run.seed), 100)
