"""C14 — no side effects; results independent of call history and of co-computed results."""
from __future__ import annotations

import copy
import json
import pickle
import random
import subprocess
import warnings

from tools.lib import common as C
from tools.lib import findings as F
from tools.lib import gen as G
from tools.lib import impl as I
from tools.lib import proofs as P

LEVEL = "proof"


def base_cfg(rng):
    m = rng.randint(4, 9)
    return {"vals": [float(rng.choice(G.ALPHA_FINITE)) for _ in range(m)], "labels": [rng.randrange(3) for _ in range(m)],
            "func": rng.choice(["sum", "nanmax", "mean", "var", "count", "argmax", "nanfirst", "prod", "min"]),
            "chunks": list(G.random_composition(rng, m, 4)), "method": rng.choice(["map-reduce", "cohorts", None]),
            "engine": rng.choice(["numpy", "flox"]), "sort": True, "fill_value": None, "min_count": None, "ddof": None, "q": None,
            "expected": [0, 1, 2], "dtype": None, "reindex": None}


VARIANTS = {
    "vals": lambda c, rng: dict(c, vals=[v + rng.choice([1.0, -2.0, 5.0]) if rng.random() < 0.6 else v for v in c["vals"]]),
    "labels": lambda c, rng: dict(c, labels=[(l + 1) % 3 for l in c["labels"]]),
    "func": lambda c, rng: dict(c, func={"sum": "nansum", "nanmax": "nanmin", "mean": "nanmean", "var": "std", "count": "sum", "argmax": "argmin",
                                         "nanfirst": "nanlast", "prod": "sum", "min": "max"}.get(c["func"], "nansum" if c["func"] == "sum" else "sum")),
    "ddof": lambda c, rng: dict(c, func="var", ddof=1) if c["func"] == "var" or rng.random() < 0.5 else dict(c, func="std", ddof=1),
    "q": lambda c, rng: dict(c, func="nanquantile", q=0.25, method="blockwise", engine="flox"),
    "min_count": lambda c, rng: dict(c, min_count=rng.choice([2, 3]), fill_value=float("nan")),
    "fill_value": lambda c, rng: dict(c, fill_value=-7.0, expected=[0, 1, 2, 5]),
    "dtype": lambda c, rng: dict(c, dtype="float32"),
    "method": lambda c, rng: dict(c, method={"map-reduce": "cohorts", "cohorts": "map-reduce", None: "map-reduce", "blockwise": "map-reduce"}.get(c["method"], "map-reduce")),
    "engine": lambda c, rng: dict(c, engine="flox" if c["engine"] == "numpy" else "numpy"),
    "sort": lambda c, rng: dict(c, sort=False, method="cohorts", expected=[2, 0, 1]),
    "reindex": lambda c, rng: dict(c, reindex=False, method="map-reduce"),
    "expected": lambda c, rng: dict(c, expected=[0, 1, 2, 7], fill_value=0.0),
}


def build(cfg):
    import dask.array as da
    import numpy as np

    import flox

    v = np.array(cfg["vals"])
    lab = np.array(cfg["labels"])
    kw = {}
    fk = {}
    # finalize kwargs only where the reduction takes them (a chain of variants may have changed func)
    if cfg.get("ddof") is not None and cfg["func"] in ("var", "std", "nanvar", "nanstd"):
        fk["ddof"] = cfg["ddof"]
    if cfg.get("q") is not None and cfg["func"] in ("nanquantile", "quantile"):
        fk["q"] = cfg["q"]
    if cfg["func"] in ("nanquantile", "quantile") and "q" not in fk:
        fk["q"] = 0.5
    if fk:
        kw["finalize_kwargs"] = fk
    for k in ("fill_value", "min_count", "dtype", "method", "engine", "reindex"):
        if cfg.get(k) is not None:
            kw[k] = cfg[k]
    if cfg["func"] in ("argmax", "argmin") and cfg.get("engine") == "flox":
        kw["engine"] = "numpy"
    chunks = tuple(cfg["chunks"]) if cfg.get("method") != "blockwise" else (len(cfg["vals"]),)
    if cfg.get("by_dask"):
        # labels held in a dask array and discovered at compute time: sort is not reflected in any expected index
        lab = da.from_array(lab, chunks=(chunks,))
        kw.pop("method", None)
        res, *groups = flox.groupby_reduce(da.from_array(v, chunks=(chunks,)), lab, func=cfg["func"], sort=cfg["sort"], **kw)
        return res, groups[0]
    res, *groups = flox.groupby_reduce(da.from_array(v, chunks=(chunks,)), lab, func=cfg["func"], sort=cfg["sort"],
                                       expected_groups=np.array(cfg["expected"]), **kw)
    return res, groups[0]


def cocompute_pairs(run, rng, n):
    """two / three lazy results differing in exactly one ingredient, evaluated in ONE merged graph, both orders"""
    import dask
    import numpy as np

    for _ in range(n):
        base = base_cfg(rng)
        ing = rng.choice(list(VARIANTS))
        try:
            c2 = VARIANTS[ing](base, rng)
            if ing in ("ddof",):
                base = dict(base, func=c2["func"], ddof=0)
            if ing == "q":
                base = dict(c2, q=0.75)
            if ing == "min_count":
                base = dict(base, min_count=1, fill_value=float("nan"))
            if ing == "sort":
                base = dict(base, method="cohorts", expected=[2, 0, 1])
                if rng.random() < 0.5:
                    # labels discovered at compute time, first appearance not in sorted order
                    labs = list(base["labels"])
                    if labs == sorted(labs):
                        labs = labs[::-1]
                    base = dict(base, by_dask=True, labels=labs, func=rng.choice(["sum", "nanmax", "count", "prod"]))
                    c2 = dict(c2, by_dask=True, labels=labs, func=base["func"])
            if ing == "fill_value":
                base = dict(base, fill_value=3.0, expected=[0, 1, 2, 5])
            if ing == "reindex":
                base = dict(base, reindex=True, method="map-reduce")
            with warnings.catch_warnings(), dask.config.set(scheduler="sync"):
                warnings.simplefilter("ignore")
                r1, g1 = build(base)
                r2, g2 = build(c2)
                cfgs = [base, c2]
                rs = [r1, r2]
                if rng.random() < 0.3:
                    ing3 = rng.choice([k for k in VARIANTS if k not in (ing, "q", "ddof", "sort")])
                    c3 = VARIANTS[ing3](base, rng)
                    r3, _ = build(c3)
                    rs.append(r3)
                    cfgs.append(c3)
                alone = [np.asarray(r.compute()) for r in rs]
                together = [np.asarray(x) for x in dask.compute(*rs)]
                rev = [np.asarray(x) for x in dask.compute(*rs[::-1])][::-1]
        except (ValueError, NotImplementedError):
            run.extra["refused_cases"] = run.extra.get("refused_cases", 0) + 1
            continue
        differs = not np.array_equal(alone[0], alone[1], equal_nan=True) or alone[0].dtype != alone[1].dtype
        run.count(f"pair|{ing}|{json.dumps(base, sort_keys=True)}", differs)
        hist = run.extra.setdefault("ingredient_histogram", {})
        hist[ing] = hist.get(ing, 0) + 1
        ok = all(np.array_equal(a, t, equal_nan=True) and a.dtype == t.dtype for a, t in zip(alone, together)) and \
            all(np.array_equal(a, t, equal_nan=True) and a.dtype == t.dtype for a, t in zip(alone, rev))
        if not ok:
            run.violation({"property": "C14", "kind": "results evaluated together differ from the same results evaluated alone",
                           "ingredient_varied": ing, "configs": cfgs, "alone": [a.tolist() for a in alone],
                           "together": [t.tolist() for t in together], "together_reversed_order": [t.tolist() for t in rev],
                           "same_name": bool(rs[0].name == rs[1].name),
                           "how_to_run": "tools/props/c14.py:build(cfg) for each config, then dask.compute(r1, r2)"}, tag="co")
    run.sample({"cocompute_case": {"ingredient": ing, "base": base}})


def scan_pairs(run, rng, n):
    import dask
    import dask.array as da
    import numpy as np

    import flox

    for _ in range(n):
        m = rng.randint(4, 9)
        v1 = np.array([float(rng.choice(G.ALPHA_FINITE)) for _ in range(m)])
        v2 = v1[::-1].copy() + 1
        lab = np.array([rng.randrange(2) for _ in range(m)])
        ch = tuple(G.random_composition(rng, m, 3))
        func = rng.choice(["nancumsum", "ffill", "bfill"])
        if func != "nancumsum":
            v1[rng.randrange(m)] = np.nan
        with warnings.catch_warnings(), dask.config.set(scheduler="sync"):
            warnings.simplefilter("ignore")
            s1 = flox.groupby_scan(da.from_array(v1, chunks=(ch,)), lab, func=func)
            s2 = flox.groupby_scan(da.from_array(v2, chunks=(ch,)), lab, func=func)
            a1, a2 = np.asarray(s1.compute()), np.asarray(s2.compute())
            t1, t2 = [np.asarray(x) for x in dask.compute(s1, s2)]
        run.count(f"scanpair|{func}|{v1.tolist()}|{lab.tolist()}|{ch}", True)
        if not (np.array_equal(a1, t1, equal_nan=True) and np.array_equal(a2, t2, equal_nan=True)):
            run.violation({"property": "C14", "kind": "two scans evaluated together differ from the scans evaluated alone", "func": func,
                           "v1": [I.fnum(x) for x in v1], "v2": [I.fnum(x) for x in v2], "labels": lab.tolist(), "chunks": list(ch),
                           "alone": [a1.tolist(), a2.tolist()], "together": [t1.tolist(), t2.tolist()]}, tag="co")


def snapshot_registry():
    from flox.aggregations import AGGREGATIONS

    snap = {}
    for k, a in AGGREGATIONS.items():
        snap[k] = {x: repr(v) for x, v in sorted(vars(a).items())}    # instance state only (no cached-property evaluation)
    return snap


def side_effects(run, rng, n):
    """arguments (arrays, labels, expected_groups, Aggregation objects) and the registry are untouched by API calls"""
    import dask.array as da
    import numpy as np
    import pandas as pd

    import flox
    import flox.xarray as fx
    from flox.aggregations import Aggregation

    reg0 = snapshot_registry()
    user_agg = Aggregation("mysum", numpy="sum", chunk="sum", combine="sum", fill_value=0)
    agg0 = copy.deepcopy(user_agg.__dict__)
    for _ in range(n):
        m = rng.randint(3, 10)
        v = np.array([float(rng.choice(G.ALPHA_FINITE + [float("nan")])) for _ in range(m)])
        lab = np.array([rng.choice([0.0, 1.0, 2.0, float("nan")]) for _ in range(m)])
        ex = rng.choice([np.array([0.0, 1.0, 2.0]), pd.Index([2.0, 0.0, 1.0]), [1.0, 0.0, 2.0]])
        v0, l0 = v.copy(), lab.copy()
        ex0 = copy.deepcopy(ex)
        call = rng.choice(["reduce", "reduce_dask", "scan", "user_agg", "rechunk_bw", "rechunk_co", "xarray", "view", "view", "readonly"])
        func = rng.choice(["sum", "nanmax", "mean", "nanvar", "count", "argmax", "nanfirst"])
        try:
            with warnings.catch_warnings():
                warnings.simplefilter("ignore")
                if call == "reduce":
                    from flox.core import ReindexStrategy
                    rs = ReindexStrategy(blockwise=rng.choice([None, True, False]))
                    rs0 = copy.deepcopy(rs)
                    flox.groupby_reduce(v, lab, func=func, expected_groups=ex, fill_value=0, sort=rng.random() < 0.5, engine=rng.choice(["numpy", "flox", None]),
                                        reindex=rs if rng.random() < 0.5 else None)
                    if rs != rs0:
                        lab = lab * np.nan   # a user-supplied ReindexStrategy was modified: force the report below
                elif call in ("view", "readonly"):
                    # integer labels that are a VIEW (row / slice) of a larger table, with out-of-range and -1 entries
                    table = np.array([[rng.randrange(-1, 7) for _ in range(m)] for _ in range(3)])
                    t0 = table.copy()
                    by = table[1] if rng.random() < 0.5 else table.reshape(-1)[m:2 * m]
                    if call == "readonly":
                        by.flags.writeable = False
                        v.flags.writeable = False
                    arr = v if rng.random() < 0.5 else da.from_array(v, chunks=3)
                    r, _ = flox.groupby_reduce(arr, by, func=func, expected_groups=pd.RangeIndex(rng.randint(2, 5)), fill_value=0,
                                               engine=rng.choice(["numpy", "flox", None]))
                    np.asarray(r.compute() if hasattr(r, "compute") else r)
                    if not np.array_equal(table, t0):
                        lab = lab * np.nan   # force the report below
                    v.flags.writeable = True
                elif call == "reduce_dask":
                    r, _ = flox.groupby_reduce(da.from_array(v, chunks=3), lab, func=func, expected_groups=ex, fill_value=0, method=rng.choice([None, "map-reduce", "cohorts"]))
                    r.compute()
                elif call == "scan":
                    out = flox.groupby_scan(v, np.nan_to_num(lab).astype(int), func=rng.choice(["nancumsum", "ffill", "bfill"]))
                    np.asarray(out)
                elif call == "user_agg":
                    r, _ = flox.groupby_reduce(da.from_array(v, chunks=3), lab, func=user_agg, expected_groups=ex, fill_value=0)
                    r.compute()
                elif call == "rechunk_bw":
                    arr = da.from_array(v, chunks=3)
                    ch0 = arr.chunks
                    flox.rechunk_for_blockwise(arr, axis=0, labels=np.sort(np.nan_to_num(lab).astype(int)))
                    assert arr.chunks == ch0
                elif call == "rechunk_co":
                    arr = da.from_array(v, chunks=3)
                    ch0 = arr.chunks
                    flox.rechunk_for_cohorts(arr, axis=0, labels=np.nan_to_num(lab).astype(int), force_new_chunk_at=[0])
                    assert arr.chunks == ch0
                else:
                    import xarray as xr

                    ds = xr.DataArray(v, dims="x", coords={"lab": ("x", np.nan_to_num(lab).astype(int))}, attrs={"a": 1})
                    before = ds.copy(deep=True)
                    fx.xarray_reduce(ds, "lab", func="sum")
                    assert ds.identical(before)
        except (ValueError, NotImplementedError):
            pass
        same = (np.array_equal(v, v0, equal_nan=True) and np.array_equal(lab, l0, equal_nan=True)
                and (np.array_equal(np.asarray(ex), np.asarray(ex0), equal_nan=True)) and type(ex) is type(ex0)
                and repr(user_agg.__dict__) == repr(agg0))
        run.count(f"se|{call}|{func}|{v0.tolist()}|{l0.tolist()}", True)
        if not same:
            run.violation({"property": "C14", "kind": "an API call modified one of its arguments", "call": call, "func": func,
                           "vals_before": [I.fnum(x) for x in v0], "vals_after": [I.fnum(x) for x in v],
                           "labels_before": [I.fnum(x) for x in l0], "labels_after": [I.fnum(x) for x in lab],
                           "expected_before": repr(ex0), "expected_after": repr(ex), "agg_changed": repr(user_agg.__dict__) != repr(agg0)}, tag="se")
            break
    reg1 = snapshot_registry()
    run.oblige("runtime:registry AGGREGATIONS identical before/after the call sequence", reg0 == reg1,
               "" if reg0 == reg1 else str([k for k in reg0 if reg0[k] != reg1.get(k)]))
    if reg0 != reg1:
        run.violation({"property": "C14", "kind": "the registry of aggregations was modified by API calls",
                       "changed_entries": [k for k in reg0 if reg0[k] != reg1.get(k)]}, tag="reg")


FRESH = r"""
import sys, json, warnings
sys.path.insert(0, '/repo'); warnings.filterwarnings('ignore')
import numpy as np, flox, dask.array as da
c = json.loads(sys.argv[1])
v = np.array(c['vals']); lab = np.array(c['labels'])
arr = da.from_array(v, chunks=(tuple(c['chunks']),)) if c['chunks'] else v
r, g = flox.groupby_reduce(arr, lab, func=c['func'], method=c['method'], expected_groups=np.array([0, 1, 2]), fill_value=-1.0)
r = np.asarray(r.compute() if hasattr(r, 'compute') else r)
print(json.dumps([float(x) if x == x else 'nan' for x in r.astype(float)]))
"""


def histories(run, rng, n, length):
    """the last call of a random sequence gives the same result as the same call made first in a fresh interpreter"""
    import dask.array as da
    import numpy as np

    import flox

    for _ in range(n):
        calls = []
        for _j in range(rng.randint(2, length)):
            m = rng.randint(3, 9)
            calls.append({"vals": [float(rng.choice(G.ALPHA_FINITE)) for _ in range(m)], "labels": [rng.randrange(3) for _ in range(m)],
                          "func": rng.choice(["sum", "nanmax", "mean", "var", "count", "nanfirst", "argmax"]),
                          "chunks": rng.choice([None, list(G.random_composition(rng, m, 3))]), "method": rng.choice([None, "map-reduce", "cohorts"])})
        # repeat one call's chunking/labels so that memoised planners are hit
        calls[-1]["labels"] = calls[0]["labels"][:len(calls[-1]["vals"])] + [0] * max(0, len(calls[-1]["vals"]) - len(calls[0]["labels"]))
        out = None
        with warnings.catch_warnings():
            warnings.simplefilter("ignore")
            for c in calls:
                if not c["chunks"]:
                    c["method"] = None
                v = np.array(c["vals"])
                arr = da.from_array(v, chunks=(tuple(c["chunks"]),)) if c["chunks"] else v
                try:
                    r, g = flox.groupby_reduce(arr, np.array(c["labels"]), func=c["func"], method=c["method"],
                                               expected_groups=np.array([0, 1, 2]), fill_value=-1.0)
                    out = np.asarray(r.compute() if hasattr(r, "compute") else r).astype(float)
                except (ValueError, NotImplementedError):
                    out = None
        if out is None:
            continue
        rc, txt = C.sh([C.PY, "-c", FRESH, json.dumps(calls[-1])], timeout=300)
        try:
            fresh = [float("nan") if x == "nan" else x for x in json.loads(txt.strip().splitlines()[-1])]
        except Exception:  # noqa: BLE001
            run.violation({"property": "C14", "kind": "fresh-process replay failed", "call": calls[-1], "output": txt[-400:]}, tag="hist")
            continue
        run.count(f"hist|{json.dumps(calls, sort_keys=True)}", True)
        if not np.allclose(out, np.array(fresh), equal_nan=True):
            run.violation({"property": "C14", "kind": "result depends on the calls made before it in the process",
                           "history": calls, "after_history": out.tolist(), "fresh_process": fresh}, tag="hist")
    run.sample({"history_case": calls})


def interleaved(run, rng, n):
    """call histories with DEFERRED computation: a lazy result is built, other calls (same func, other dtypes / options)
    are made, and only then is it computed; each deferred result and the last call must equal the same call made alone
    in a FRESH interpreter"""
    from concurrent.futures import ThreadPoolExecutor

    from tools.lib import histcall as H

    ranges = {"float64": 3, "float32": 3, "int8": 60, "int16": 300, "int64": 1000, "uint8": 100, "bool": 1}
    jobs = []
    for _ in range(n):
        focus_kind = rng.choice(["scan", "reduce"])
        focus_func = rng.choice(["nancumsum"] if focus_kind == "scan" else ["sum", "nansum", "mean", "max", "var", "prod", "nanfirst", "argmax", "count"])
        calls = []
        shared2d = None
        for _j in range(rng.randint(3, 6)):
            m = rng.randint(4, 10)
            kind, func = (focus_kind, focus_func) if rng.random() < 0.7 else rng.choice(
                [("scan", "nancumsum"), ("scan", "ffill"), ("scan", "bfill"), ("reduce", "sum"), ("reduce", "nanmax"), ("reduce", "mean"), ("reduce", "count")])
            dt = rng.choice(list(ranges)) if func not in ("ffill", "bfill") else rng.choice(["float64", "float32"])
            if dt == "bool" and func in ("mean", "var", "prod", "argmax", "nanfirst"):
                dt = "int8"
            r = ranges[dt]
            vals = [rng.randint(0 if dt in ("uint8", "bool") else -r, r) for _ in range(m)]
            if dt.startswith("float"):
                vals = [float(x) / rng.choice([1, 2, 4, 3, 7]) for x in vals]
                if func in ("ffill", "bfill", "nancumsum", "nansum") and rng.random() < 0.6:
                    vals[rng.randrange(m)] = float("nan")
            chunks = list(G.random_composition(rng, m, 4)) if rng.random() < 0.8 else None
            c = {"kind": kind, "func": func, "dtype": dt, "vals": vals, "labels": [rng.randrange(3) for _ in range(m)], "chunks": chunks,
                 "method": rng.choice([None, "map-reduce", "cohorts"]) if chunks and kind == "reduce" else None,
                 "deferred": bool(chunks) and rng.random() < 0.6}
            if dt in ("uint8", "bool"):
                c["fill_value"] = 0          # a negative fill cannot be stored in an unsigned result (NumPy itself refuses it)
            if kind == "reduce" and func in ("sum", "nansum", "mean", "max", "count", "nanmax") and rng.random() < 0.45:
                # SQUARE 2-D labels that depend on the row, the same chunks on both axes, reduced over one axis or over all of them:
                # planner results memoised for one layout must not be served for its transpose
                if shared2d is None:
                    # one layout per history (the SAME labels and chunks in several calls, only axis / func / data differ)
                    side = rng.randint(2, 6)
                    base = sorted(rng.randrange(3) for _ in range(side)) if rng.random() < 0.6 else [rng.randrange(3) for _ in range(side)]
                    shared2d = {"side": side, "labels": [base[i] for i in range(side) for _ in range(side)] if rng.random() < 0.8 else [rng.randrange(3) for _ in range(side * side)],
                                "chunks": list(G.random_composition(rng, side, 3))}
                side = shared2d["side"]
                c.update(shape=[side, side], labels=shared2d["labels"],
                         vals=[float(rng.randint(-3, 3)) if dt.startswith("float") else rng.randint(0, 3) for _ in range(side * side)],
                         chunks=shared2d["chunks"], axis=rng.choice([None, None, 0, 1, -1]), method=rng.choice([None, None, None, "cohorts", "map-reduce"]))
                c["deferred"] = rng.random() < 0.4
            if func == "var":
                c["ddof"] = rng.choice([0, 1])
            if kind == "reduce" and rng.random() < 0.2 and func in ("sum", "nansum", "max", "nanmax"):
                c["out_dtype"] = rng.choice(["float32", "int64", "float64"])
            calls.append(c)
        got = {}
        lazy = {}
        with warnings.catch_warnings():
            warnings.simplefilter("ignore")
            for i, c in enumerate(calls):
                try:
                    r = H.build(c)
                    if c["deferred"]:
                        lazy[i] = r
                    else:
                        got[i] = H.canon(H.compute(r))
                except (ValueError, NotImplementedError, OverflowError) as e:
                    got[i] = ["refused", type(e).__name__]
            order = list(lazy)
            rng.shuffle(order)
            for i in order:
                try:
                    got[i] = H.canon(H.compute(lazy[i]))
                except (ValueError, NotImplementedError, OverflowError) as e:
                    got[i] = ["refused", type(e).__name__]
                except Exception as e:  # noqa: BLE001
                    got[i] = ["internal error", repr(e)[:200]]
        targets = (sorted(lazy)[:2] + [len(calls) - 1])
        for t in dict.fromkeys(targets):
            jobs.append((calls, t, got[t]))
        run.count(f"inter|{json.dumps(calls, sort_keys=True)}", len(lazy) >= 1 and len({c['dtype'] for c in calls}) >= 2)

    def fresh(job):
        calls, t, _ = job
        rc, txt = C.sh([C.PY, "-m", "tools.lib.histcall", json.dumps(calls[t])], timeout=600, cwd=str(C.ROOT))
        for line in reversed(txt.strip().splitlines()):
            if line.startswith("RESULT "):
                return json.loads(line[7:])
        return ["fresh process failed", txt[-300:]]

    with ThreadPoolExecutor(8) as ex:
        fresh_results = list(ex.map(fresh, jobs))
    for (calls, t, g), f in zip(jobs, fresh_results):
        if f and f[0] == "fresh process failed":
            run.violation({"property": "C14", "kind": "fresh-process replay failed", "call": calls[t], "output": f[1]}, tag="inter")
        elif g != f:
            run.violation({"property": "C14", "kind": "result depends on the calls made between building a lazy result and computing it "
                           "(or before it): it differs from the same call made alone in a fresh interpreter",
                           "history": calls, "target_index": t, "in_history [dtype, values]": g, "fresh_process [dtype, values]": f,
                           "how_to_run": "tools/lib/histcall.py: build() every call in order, compute() the non-deferred ones at once and "
                                         "the deferred ones at the end; compare with `python -m tools.lib.histcall '<call json>'`"}, tag="inter")
    if jobs:
        run.sample({"interleaved_history": jobs[-1][0]})
    run.extra["interleaved_targets_checked_against_fresh_process"] = len(jobs)


def layout_histories(run, rng, n):
    """the SAME n-d labels and chunks requested several times in one process with different axes / reductions / methods (what the
    planner and the rechunk helpers memoise is keyed by content): EVERY call of the sequence must equal the same call made alone in a
    fresh interpreter"""
    from concurrent.futures import ThreadPoolExecutor

    from tools.lib import histcall as H

    jobs = []
    for _ in range(n):
        side = rng.randint(2, 8)
        base = sorted(rng.randrange(3) for _ in range(side)) if rng.random() < 0.7 else [rng.randrange(3) for _ in range(side)]
        labels = [base[i] for i in range(side) for _ in range(side)] if rng.random() < 0.8 else [rng.randrange(3) for _ in range(side * side)]
        chunks = list(G.random_composition(rng, side, 3))
        axes = [0, None] if rng.random() < 0.5 else [rng.choice([0, 1, -1, None]) for _ in range(rng.randint(2, 4))]
        calls = []
        for ax in axes:
            calls.append({"kind": "reduce", "func": rng.choice(["sum", "nanmean", "max", "count"]), "dtype": "float64", "shape": [side, side], "labels": labels,
                          "vals": [float(rng.randint(-4, 4)) for _ in range(side * side)], "chunks": chunks, "axis": ax,
                          "method": rng.choice([None, None, "cohorts"]), "deferred": False})
        with warnings.catch_warnings():
            warnings.simplefilter("ignore")
            for i, c in enumerate(calls):
                try:
                    got = H.canon(H.compute(H.build(c)))
                except (ValueError, NotImplementedError, OverflowError) as e:
                    got = ["refused", type(e).__name__]
                except Exception as e:  # noqa: BLE001
                    got = ["internal error", repr(e)[:200]]
                jobs.append((calls, i, got))
        run.count(f"layout|{json.dumps(calls, sort_keys=True)}", len(chunks) > 1)

    def fresh(job):
        calls, t, _ = job
        rc, txt = C.sh([C.PY, "-m", "tools.lib.histcall", json.dumps(calls[t])], timeout=600, cwd=str(C.ROOT))
        for line in reversed(txt.strip().splitlines()):
            if line.startswith("RESULT "):
                return json.loads(line[7:])
        return ["fresh process failed", txt[-300:]]

    with ThreadPoolExecutor(8) as ex:
        fresh_results = list(ex.map(fresh, jobs))
    for (calls, t, g), f in zip(jobs, fresh_results):
        if g != f and not (g and g[0] == "internal error" and f and f[0] == "fresh process failed"):
            run.violation({"property": "C14", "kind": "result depends on the calls made before it in the process (same labels and chunks requested with another axis / "
                                                    "reduction earlier): it differs from the same call made alone in a fresh interpreter",
                           "history": calls[:t + 1], "target_index": t, "in_history [dtype, values]": g, "fresh_process [dtype, values]": f,
                           "how_to_run": "tools/lib/histcall.py: build()+compute() every call of `history` in order; compare the last with `python -m tools.lib.histcall '<call json>'`"}, tag="layout")
    run.extra["layout_history_calls_checked_against_fresh_process"] = len(jobs)


def run(run: C.Run):
    rng = random.Random(run.seed)
    ok = P.front(run, translators=("registry", "tokens", "effects"))
    thorough = run.tier == "thorough"
    reg_start = snapshot_registry()          # before ANY flox API call of this process
    cocompute_pairs(run, rng, 2500 if thorough else 400)
    scan_pairs(run, rng, 300 if thorough else 50)
    side_effects(run, rng, 1500 if thorough else 250)
    histories(run, rng, 60 if thorough else 8, 12 if thorough else 6)
    interleaved(run, rng, 120 if thorough else 14)
    layout_histories(run, rng, 80 if thorough else 16)
    reg_end = snapshot_registry()
    changed = [k for k in reg_start if reg_start[k] != reg_end.get(k)] + [k for k in reg_end if k not in reg_start]
    run.oblige("runtime:registry AGGREGATIONS at the end of the whole run identical to the registry right after import", not changed, str(changed))
    if changed:
        k = changed[0]
        diff = {a: [reg_start.get(k, {}).get(a), reg_end.get(k, {}).get(a)] for a in set(reg_start.get(k, {})) | set(reg_end.get(k, {}))
                if reg_start.get(k, {}).get(a) != reg_end.get(k, {}).get(a)}
        run.violation({"property": "C14", "kind": "the registry of aggregations was modified by API calls", "changed_entries": changed,
                       "first_changed_entry": k, "attributes [after import, after the calls]": diff}, tag="reg")
    if any(not o[1] for o in run.obligations) and not run.violations:
        text = ("From Coq Require Import String List.\nFrom Flox Require Import TokensGen Tokens.\nImport ListNotations.\n"
                "Eval vm_compute in (filter (fun x => negb (mem x token_args)) (expand derived_params flowing_params), "
                "filter (fun x => negb (mem x agg_token_attrs)) (expand agg_derived_attrs agg_read_attrs), filter (fun n => negb (name_ok n)) layer_names).\n")
        _, out = C.coq_eval(text, "uncovered", "C14", timeout=120)
        from tools.props.c13 import offending_functions
        (C.WORK / "C13").mkdir(parents=True, exist_ok=True)
        run.violation({"property": "C14", "kind": "proof obligation no longer checks: an ingredient bound into tasks is not covered by the key, "
                                                  "or a public entry point may now write into one of its arguments / into module-level state",
                       "failed": P.failed_obligations(run), "uncovered (params, agg attributes, bad layer names)": out[-800:],
                       "functions_that_may_store_into_a_parameter_or_module_state (T4)": offending_functions()},
                      nofail=True, tag="obligation")
    run.assumptions += ["dask.base.tokenize is injective on the values it is given (Section hypothesis of C14_equal_keys_equal_tasks)",
                        "cachey / lru_cache return the stored value for an equal key (Section hypotheses of the memo theorem)"]
    run.cov["rule"] = (
        "T4 regenerates the alias/effect IR of the ~90 functions reachable from the public entry points (module-level state = last "
        "pseudo-parameter) and Coq re-checks the certificate: no entry point may write into an argument or into module state; "
        "T3 extracts token ingredients / task-bound ingredients / layer names from the AST and Coq proves coverage; K5: pairs and "
        "triples of lazy reductions differing in exactly ONE ingredient (values, labels, func, ddof, q, min_count, fill_value, dtype, "
        "method, engine, sort, reindex, expected_groups) computed in one dask.compute in both orders vs alone; pairs of scans; argument "
        "and registry snapshots around random API calls (reduce eager/dask, scan, user Aggregation, rechunk helpers, xarray_reduce); "
        "call histories whose last call is replayed first in a FRESH interpreter; non-trivial pair = the two results really differ")


def replay(run: C.Run, path):
    P.front(run, translators=("registry", "tokens", "effects"))
    cocompute_pairs(run, random.Random(run.seed), 200)
    scan_pairs(run, random.Random(run.seed), 30)
