"""C13 — generated tasks are pure, re-executable and serialisable."""
from __future__ import annotations

import json
import pickle
import random
import warnings

from tools.lib import common as C
from tools.lib import findings as F
from tools.lib import gen as G
from tools.lib import graphs as GR
from tools.lib import impl as I
from tools.lib import proofs as P

LEVEL = "proof"


def canon(x):
    """deep, comparable, JSON-free canonical form of a task value"""
    import numpy as np
    import pandas as pd

    if isinstance(x, np.ndarray):
        return ("nd", str(x.dtype), x.shape, x.tobytes() if x.dtype != object else repr(x.tolist()))
    if isinstance(x, pd.Index):
        return ("idx", type(x).__name__, str(x.dtype), repr(x.tolist()))
    if isinstance(x, dict):
        return ("dict", tuple((repr(k), canon(v)) for k, v in x.items()))
    if isinstance(x, (list, tuple)):
        return (type(x).__name__, tuple(canon(v) for v in x))
    if hasattr(x, "__dataclass_fields__"):
        return (type(x).__name__, tuple((k, canon(getattr(x, k))) for k in x.__dataclass_fields__))
    if isinstance(x, (np.generic,)):
        return ("np", str(x.dtype), repr(x.item() if not isinstance(x, np.floating) or x == x else "nan"))
    return ("py", repr(x))


def freeze(x):
    """make every ndarray reachable from x read-only (returns x)"""
    import numpy as np

    if isinstance(x, np.ndarray):
        x.flags.writeable = False
    elif isinstance(x, dict):
        for v in x.values():
            freeze(v)
    elif isinstance(x, (list, tuple)):
        for v in x:
            freeze(v)
    elif hasattr(x, "__dataclass_fields__"):
        for k in x.__dataclass_fields__:
            freeze(getattr(x, k))
    return x


def check_graph(run, res, desc, rng):
    """execute every task of the graph of `res`: inputs read-only, twice, and after a cloudpickle round trip"""
    import cloudpickle

    d = GR.materialize(res)
    deps = GR.deps_of(d)
    done = {}
    order = []
    remaining = set(d)
    while remaining:
        ready = sorted((k for k in remaining if deps[k] <= done.keys()), key=str)
        k = ready[0]
        remaining.discard(k)
        order.append(k)
        t = d[k]
        inputs = {x: done[x] for x in t.dependencies}
        problem = None
        # first with WRITEABLE private copies of the inputs: a task that writes "only when it may" must still leave them untouched
        import copy as _copy
        try:
            priv = {x: _copy.deepcopy(v) for x, v in inputs.items()}
            snap = {x: canon(v) for x, v in priv.items()}
            t(priv)
            if {x: canon(v) for x, v in priv.items()} != snap:
                problem = "task modified one of its (writeable) inputs"
        except Exception:  # noqa: BLE001  -- failures are diagnosed by the read-only run below
            pass
        for v in inputs.values():
            freeze(v)
        before = {x: canon(v) for x, v in inputs.items()}
        try:
            out1 = t(inputs)
            out2 = t(inputs)
            t2 = cloudpickle.loads(cloudpickle.dumps(t))
            out3 = t2(inputs)
        except ValueError as e:
            if "read-only" in str(e):
                problem = f"task writes into one of its inputs: {e}"
                out1 = None
            else:
                raise
        except Exception as e:  # noqa: BLE001
            problem = f"task failed ({type(e).__name__}: {str(e)[:120]})"
            out1 = None
        run.extra["tasks_executed"] = run.extra.get("tasks_executed", 0) + 1
        if problem is None:
            after = {x: canon(v) for x, v in inputs.items()}
            if after != before:
                problem = "task modified one of its inputs"
            elif canon(out1) != canon(out2):
                problem = "task returned a different value when executed again on the same inputs"
            elif canon(out1) != canon(out3):
                problem = "task behaves differently after a cloudpickle round trip"
        if problem:
            info = {"property": "C13", "kind": problem, "task_key": str(k)[:120], "graph": desc,
                    "how_to_run": "tools/props/c13.py:check_graph on the lazy result described by `graph`"}
            fid = F.classify_nd("C13", dict(info, **desc))
            if fid:
                run.known(fid, F.describe(fid))
            else:
                run.violation(info, tag="task")
            return False
        done[k] = out1
    return True


def graphs(run, rng, n):
    import dask
    import dask.array as da
    import numpy as np
    import pandas as pd

    import flox

    for _ in range(n):
        m = rng.randint(3, 10)
        kind = rng.choice(["reduce", "reduce", "reduce", "reduce-dasklabels", "reduce-dasklabels", "scan", "rangeindex-outofrange", "rangeindex-outofrange"])
        vals = np.array([I.unf(v) for v in G.rand_vals(rng, m, alphabet=G.ALPHA_FINITE + ["nan"], p_special=0.15)], dtype=float)
        labels = np.array([rng.randrange(4) for _ in range(m)])
        lstyle = rng.random()
        if lstyle < 0.25:
            labels = np.sort(labels)                     # most groups confined to one block: single-block cohorts
        elif lstyle < 0.35:
            labels = np.array(([0] + [1] * 3 + [2] * 3 + [3, 3] + [1, 2] * 3)[:m])   # a one-block cohort sharing its block with wider ones
        chunks = tuple(G.random_composition(rng, m, 4)) if rng.random() < 0.85 else (m,)
        if rng.random() < 0.3 and kind != "scan":
            vals = np.array([rng.randint(-3, 3) for _ in range(m)], dtype="int64")
        desc = {"kind": kind, "vals": [I.fnum(x) for x in vals], "labels": labels.tolist(), "chunks": list(chunks), "dtype": str(vals.dtype)}
        try:
            with warnings.catch_warnings(), dask.config.set(scheduler="sync", split_every=rng.choice([2, 4])):
                warnings.simplefilter("ignore")
                arr = da.from_array(vals, chunks=(chunks,))
                if kind == "scan":
                    func = rng.choice(["nancumsum", "ffill", "bfill"])
                    desc["func"] = func
                    res = flox.groupby_scan(arr, labels, func=func)
                else:
                    func = rng.choice(["sum", "nanmax", "mean", "nanvar", "count", "argmax", "nanfirst", "nanlast", "prod", "min", "nanargmin", "all"])
                    method = rng.choice([None, "map-reduce", "cohorts", "blockwise"])
                    engine = rng.choice(["numpy", "flox", None, "numbagg"])
                    desc.update(func=func, method=method, engine=engine)
                    by = labels
                    kw = {}
                    if func == "all":
                        arr = da.from_array(vals > 0, chunks=(chunks,))
                    if kind == "reduce-dasklabels":
                        by = da.from_array(labels, chunks=(chunks,))
                        if rng.random() < 0.6:
                            kw["expected_groups"] = np.arange(4)
                            kw["fill_value"] = -1 if func != "all" else False
                    elif kind == "rangeindex-outofrange":
                        # labels beyond the requested RangeIndex, none equal to -1, held in a dask array
                        by = da.from_array(labels + rng.choice([0, 1, 2]), chunks=(chunks,))
                        kw["expected_groups"] = pd.RangeIndex(rng.randint(2, 4))
                        kw["fill_value"] = -1 if func != "all" else False
                        desc["expected"] = "RangeIndex"
                    elif rng.random() < 0.5:
                        kw["expected_groups"] = np.arange(5)
                        kw["fill_value"] = -1 if func != "all" else False
                        if rng.random() < 0.3 and func not in ("all", "argmax", "nanargmin", "count"):
                            # the dtype-appropriate NA sentinel object travels inside the tasks
                            from flox import xrdtypes
                            kw["fill_value"] = xrdtypes.NA
                            kw["min_count"] = 1
                            desc["fill"] = "xrdtypes.NA"
                    if "fill_value" in kw and kw["fill_value"] is not False and "min_count" not in kw and rng.random() < 0.6:
                        # a numeric fill of the result's own dtype and a min_count that really masks small groups
                        kw["min_count"] = rng.choice([1, 2, 3])
                        kw["fill_value"] = rng.choice([-1, -1.0])
                        desc.update(min_count=kw["min_count"], fill=repr(kw["fill_value"]))
                    if method == "blockwise":
                        order = np.argsort(labels, kind="stable")
                        vals2, labels2 = np.asarray(arr)[order], labels[order]
                        arr = da.from_array(vals2, chunks=(m,))
                        by = labels2 if not isinstance(by, da.Array) else da.from_array(labels2, chunks=(m,))
                    res, _ = flox.groupby_reduce(arr, by, func=func, method=method, engine=engine, **kw)
        except (ValueError, NotImplementedError):
            continue
        run.count(json.dumps(desc, sort_keys=True, default=str), len(chunks) > 1)
        check_graph(run, res, desc, rng)
    run.sample({"graph_case": desc})


def few_block_graphs(run, rng, n):
    """graphs whose final aggregation task receives ONE block (a single-block array, or a cohort confined to one block that
    also hosts members of other cohorts), grouped-combine reductions, a min_count that really masks and a fill of the
    result's own dtype: the aggregate task must not write into the block-level result another task produced"""
    import dask
    import dask.array as da
    import numpy as np

    import flox

    desc = None
    for _ in range(n):
        m = rng.randint(5, 12)
        labels = np.sort(np.array([rng.randrange(4) for _ in range(m)])) if rng.random() < 0.6 else np.array(([0] + [1] * 3 + [2] * 3 + [3, 3] + [1, 2] * 3)[:m])
        isint = rng.random() < 0.6
        vals = np.array([rng.randint(-3, 3) for _ in range(m)], dtype="int64" if isint else "float64")
        if not isint and rng.random() < 0.4:
            vals[rng.randrange(m)] = np.nan
        chunks = rng.choice([(m,), (m // 2, m - m // 2), tuple(G.random_composition(rng, m, 4))])
        func = rng.choice(["argmax", "argmin", "nanargmax", "nanargmin", "nanfirst", "nanlast", "first", "last", "sum", "nanmax", "count", "var", "std", "nanvar", "mean"])
        method = rng.choice(["map-reduce", "cohorts", None])
        if func in ("var", "std", "nanvar", "mean") and rng.random() < 0.7:
            # blockwise kernels on whole (writeable) blocks: labels sorted, chunk boundaries on group boundaries
            labels = np.sort(labels)
            cuts = [i for i in range(1, m) if labels[i] != labels[i - 1]]
            pts = [0] + sorted(rng.sample(cuts, k=rng.randint(0, len(cuts)))) + [m]
            chunks = tuple(b - a for a, b in zip(pts, pts[1:]))
            method = "blockwise"
        bydask = method != "blockwise" and (func in ("sum", "nanmax", "count") or rng.random() < 0.2)
        kw = {"min_count": rng.choice([1, 2, 3]), "fill_value": rng.choice([-1, -1.0])}
        if method == "blockwise":
            kw["engine"] = rng.choice(["numpy", "flox", "numba"])
        desc = {"kind": "few-blocks", "func": func, "method": method, "vals": [I.fnum(x) for x in vals], "labels": labels.tolist(), "chunks": list(chunks),
                "dtype": str(vals.dtype), "labels_in_dask": bydask, "min_count": kw["min_count"], "fill": repr(kw["fill_value"])}
        try:
            with warnings.catch_warnings(), dask.config.set(scheduler="sync"):
                warnings.simplefilter("ignore")
                arr = da.from_array(vals, chunks=(chunks,))
                if bydask:
                    res, _ = flox.groupby_reduce(arr, da.from_array(labels, chunks=(chunks,)), func=func, **kw)
                else:
                    res, _ = flox.groupby_reduce(arr, labels, func=func, method=method, expected_groups=np.arange(5), **kw)
        except (ValueError, NotImplementedError):
            continue
        run.count(json.dumps(desc, sort_keys=True, default=str), True)
        check_graph(run, res, desc, rng)
    if desc:
        run.sample({"few_block_case": desc})


def scan_graphs(run, rng, n):
    """grouped scans whose blocks carry already-sorted labels (resampling-like runs) and NaN holes inside groups: every task must leave
    its input blocks untouched (writeable or not)"""
    import dask.array as da
    import numpy as np

    import flox

    desc = None
    for _ in range(n):
        m = rng.randint(6, 14)
        runs = []
        while len(runs) < m:
            runs += [len(set(runs))] * rng.randint(1, 4)
        labels = np.array(runs[:m]) if rng.random() < 0.7 else np.array([rng.randrange(3) for _ in range(m)])
        vals = np.array([float(rng.randint(-3, 3)) for _ in range(m)])
        for i in rng.sample(range(m), k=rng.randint(1, max(1, m // 3))):
            vals[i] = np.nan
        func = rng.choice(["ffill", "bfill", "nancumsum"])
        chunks = tuple(G.random_composition(rng, m, 4))
        desc = {"kind": "scan-sorted-blocks", "func": func, "vals": [I.fnum(x) for x in vals], "labels": labels.tolist(), "chunks": list(chunks)}
        try:
            with warnings.catch_warnings():
                warnings.simplefilter("ignore")
                res = flox.groupby_scan(da.from_array(vals, chunks=(chunks,)), labels, func=func)
        except (ValueError, NotImplementedError):
            continue
        run.count(json.dumps(desc, sort_keys=True), len(chunks) > 1)
        check_graph(run, res, desc, rng)
    if desc:
        run.sample({"scan_graph_case": desc})


def transient_write_probe(run, rng, n):
    """a task must not modify its input EVEN TEMPORARILY (another task may read the same block at that moment): the block-level reduction
    runs in a worker thread on a large writeable block while this thread keeps reading a few of the block's entries"""
    import threading

    import numpy as np

    import flox.core as fc

    for _ in range(n):
        size = rng.choice([1_000_000, 2_000_000])
        ng = rng.choice([3, 50])
        func = rng.choice(["nansum", "nanmax", "nanmin", "nanmean", "nanprod", "sum", "max", "nanvar"])
        engine = rng.choice(["flox", "flox", "numpy"])
        labels = np.sort(np.arange(size) % ng)                       # already sorted: kernels may work on the caller's buffer
        vals = (np.arange(size, dtype=float) % 13) - 6
        watch = np.array(sorted(rng.sample(range(size), 40)))
        vals[watch[::2]] = np.nan
        before = vals[watch].copy()
        seen = {"changed": None, "done": False, "error": None}

        def work():
            try:
                fc.chunk_reduce(vals, labels, func=func, engine=engine, expected_groups=None)
            except Exception as e:  # noqa: BLE001
                seen["error"] = repr(e)[:200]
            seen["done"] = True

        t = threading.Thread(target=work)
        t.start()
        polls = 0
        while not seen["done"]:
            cur = vals[watch]
            polls += 1
            if not np.array_equal(cur, before, equal_nan=True):
                seen["changed"] = [float(x) for x in cur[:6]]
                break
        t.join()
        run.count(f"transient|{size}|{ng}|{func}|{engine}", True)
        run.extra["transient_probe_polls"] = run.extra.get("transient_probe_polls", 0) + polls
        after_ok = np.array_equal(vals[watch], before, equal_nan=True)
        if seen["changed"] is not None or not after_ok:
            run.violation({"property": "C13", "kind": "a block-level task modified its input " + ("while it was running (the values were restored afterwards)" if after_ok else "(and left it modified)"),
                           "func": func, "engine": engine, "block_size": size, "ngroups": ng, "watched_entries_before": [float(x) for x in before[:6]],
                           "watched_entries_seen_during_the_task": seen["changed"],
                           "how_to_run": "tools/props/c13.py:transient_write_probe (flox.core.chunk_reduce on a sorted-label writeable block in a worker thread, polled from the main thread)"},
                          tag="transient")


def user_aggregation_reuse(run, rng, n):
    """a user-supplied Aggregation object reused for a second, different call: the graph built by the FIRST call must still
    compute what it computed before (tasks are self-contained: they do not read state shared with the user's object / later calls)"""
    import dask.array as da
    import numpy as np

    import flox
    from flox import xrdtypes
    from flox.aggregations import Aggregation

    for _ in range(n):
        m = rng.randint(4, 10)
        vals = np.array([I.unf(v) for v in G.rand_vals(rng, m, alphabet=G.ALPHA_FINITE + ["nan"], p_special=0.3)], dtype=float)
        labels = np.array([rng.randrange(3) for _ in range(m)])
        chunks = tuple(G.random_composition(rng, m, 3))
        which = rng.choice(["max", "mean"])
        if which == "max":
            agg = Aggregation("usermax", chunk="nanmax", combine="nanmax", numpy="nanmax", fill_value=xrdtypes.NINF, final_fill_value=xrdtypes.NA,
                              preserves_dtype=True)
        else:
            agg = Aggregation("usermean", chunk=("nansum", "nanlen"), combine=("sum", "sum"), finalize=_user_mean, fill_value=(0, 0),
                              dtypes=(None, np.intp), final_dtype=np.floating)
        method = rng.choice(["map-reduce", "cohorts", "blockwise"])
        desc = {"kind": "custom-agg-reused", "agg": which, "vals": [I.fnum(x) for x in vals], "labels": labels.tolist(), "chunks": list(chunks), "method": method}
        try:
            with warnings.catch_warnings():
                warnings.simplefilter("ignore")
                arr = da.from_array(vals, chunks=(chunks if method != "blockwise" else (m,),))
                r1, _ = flox.groupby_reduce(arr, labels, func=agg, expected_groups=np.arange(4), fill_value=-1.0, min_count=2, method=method)
                first = np.asarray(r1.compute(scheduler="sync"))
                # the same Aggregation object, another request (other fill, min_count, dtype of the data)
                other = da.from_array((np.nan_to_num(vals) * 100).astype(rng.choice(["int8", "int16", "float32"])), chunks=(chunks if method != "blockwise" else (m,),))
                r2, _ = flox.groupby_reduce(other, labels, func=agg, expected_groups=np.arange(4), fill_value=-9, min_count=1, method=method)
                r2.compute(scheduler="sync")
                again = np.asarray(r1.compute(scheduler="sync"))
        except (ValueError, NotImplementedError, TypeError, OverflowError):
            run.extra["refused_cases"] = run.extra.get("refused_cases", 0) + 1
            continue
        run.count(json.dumps(desc, sort_keys=True), len(chunks) > 1)
        if not np.array_equal(first, again, equal_nan=True) or first.dtype != again.dtype:
            run.violation({"property": "C13", "kind": "re-executing a graph after the user's Aggregation object was reused gives another result "
                                                    "(tasks read state shared with a later call)", "graph": desc,
                           "first": [I.fnum(x) for x in np.asarray(first, dtype=float)], "again": [I.fnum(x) for x in np.asarray(again, dtype=float)]}, tag="agg")
    run.sample({"user_aggregation_case": desc})


def _user_mean(total, count):
    return total / count


def threaded_shared(run, rng, n):
    """tasks sharing an input run concurrently (threaded scheduler): same values as the synchronous run"""
    import dask
    import dask.array as da
    import numpy as np

    import flox

    for _ in range(n):
        m = rng.randint(20, 60)
        vals = np.array([float(rng.choice(G.ALPHA_FINITE)) for _ in range(m)])
        labels = np.array([rng.randrange(5) - 1 for _ in range(m)])   # includes -1
        chunks = tuple(G.random_composition(rng, m, 8))
        arr = da.from_array(vals, chunks=(chunks,))
        with warnings.catch_warnings():
            warnings.simplefilter("ignore")
            outs = []
            for func in ("sum", "nanmax", "count", "mean"):
                r, _ = flox.groupby_reduce(arr, labels, func=func, expected_groups=np.arange(4), fill_value=-1, method=rng.choice(["map-reduce", "cohorts"]))
                outs.append(r)
            a = [np.asarray(x) for x in dask.compute(*outs, scheduler="sync")]
            b = [np.asarray(x) for x in dask.compute(*outs, scheduler="threads", num_workers=8)]
        run.count(f"thr|{vals.tolist()}|{labels.tolist()}|{chunks}", True)
        if not all(np.array_equal(x, y, equal_nan=True) for x, y in zip(a, b)) or not np.array_equal(labels, np.asarray(labels)):
            run.violation({"property": "C13", "kind": "threaded execution of tasks sharing inputs differs from the synchronous run",
                           "vals": vals.tolist(), "labels": labels.tolist(), "chunks": list(chunks)}, tag="thr")


def offending_functions():
    rc, out = C.sh([C.PY, str(C.ROOT / "tools/translate/gen_effects.py"), str(C.WORK / "C13" / "Effects_report.v"), "--report"], timeout=300)
    return [l for l in out.splitlines() if l.startswith("STORES")]


def run(run: C.Run):
    rng = random.Random(run.seed)
    ok = P.front(run, translators=("registry", "effects"))
    thorough = run.tier == "thorough"
    if not ok:
        (C.WORK / "C13").mkdir(parents=True, exist_ok=True)
        run.extra["functions_that_may_store_into_their_parameters"] = offending_functions()
    graphs(run, rng, 2500 if thorough else 260)
    few_block_graphs(run, rng, 800 if thorough else 90)
    scan_graphs(run, rng, 600 if thorough else 70)
    transient_write_probe(run, rng, 40 if thorough else 8)
    threaded_shared(run, rng, 60 if thorough else 8)
    user_aggregation_reuse(run, rng, 400 if thorough else 60)
    if any(not o[1] for o in run.obligations) and not run.violations:
        run.violation({"property": "C13", "kind": "proof obligation no longer checks: a function reachable from a task callable may now write into one of its parameters",
                       "failed": P.failed_obligations(run), "offending": run.extra.get("functions_that_may_store_into_their_parameters")},
                      nofail=True, tag="obligation")
    run.trusted += ["T4 callee classification (FRESH_CALLS / VIEW_CALLS / COPY_POINTS / ALLOWED_STORES of gen_effects.py; the last two are emitted into Gen/Effects.v with their justifications)"]
    run.assumptions += ["the Python->IR translation is flow-insensitive and field-insensitive; serialisation (cloudpickle) and real data races are runtime facts observed by K5 only"]
    run.cov["rule"] = (
        "T4 regenerates the alias/effect IR + points-to certificate of the functions reachable from task callables (44 with the tuple-return projections) and Coq re-checks it "
        "(no task callable may write into an object that may be one of its parameters); K5: every task of the graphs of random reductions "
        "(numpy / dask labels, RangeIndex expected groups with out-of-range labels, 4 methods, 4 engines) and scans is executed by hand "
        "with read-only inputs, twice, and after a cloudpickle round trip, comparing values and input snapshots; threaded runs of "
        "several results sharing inputs vs the synchronous run; non-trivial = more than one block")


def replay(run: C.Run, path):
    P.front(run, translators=("registry", "effects"))
    graphs(run, random.Random(run.seed), 150)
    few_block_graphs(run, random.Random(run.seed), 150)
