"""C20 — numeric fidelity: infinities kept, no narrow-integer wrap, stable var/std."""
from __future__ import annotations

import random
import warnings

from tools.lib import common as C
from tools.lib import findings as F
from tools.lib import gen as G
from tools.lib import impl as I
from tools.lib import proofs as P
from tools.lib import reduce_suite as R

LEVEL = "proof"
ENGINES = ["numpy", "numba", "flox", "numbagg", None]


def inf_cases(rng, n):
    out = []
    for _ in range(n):
        func = rng.choice(["min", "max", "nanmin", "nanmax"])
        m = rng.randint(1, 10)
        ng = rng.randint(1, 3)
        vals = [rng.choice([-2, 0, 3, "inf", "-inf", "inf", "-inf", "nan"]) for _ in range(m)]
        if rng.random() < 0.3:
            # groups whose only valid members ARE the internal sentinel (-inf for max, +inf for min), next to NaNs
            sent = "-inf" if "max" in func else "inf"
            vals = [rng.choice([sent, sent, "nan", "nan", 0]) for _ in range(m)]
        if not func.startswith("nan") and rng.random() < 0.7:
            vals = [v if v != "nan" else "inf" for v in vals]
        c = {"func": func, "vals": vals, "labels": G.rand_labels(rng, m, ng), "engine": rng.choice(ENGINES)}
        if c["engine"] == "numba" and func in ("min", "max") and "nan" in vals:
            c["engine"] = "numpy"      # third-party numba kernel ignores NaN for min/max: KF05, probed separately
        plan = rng.choice(["eager", "eager", "map-reduce", "cohorts", "auto"])
        if plan != "eager":
            c["chunks"] = [list(G.random_composition(rng, m, 4))]
            c["method"] = None if plan == "auto" else plan
            c["expected"] = sorted({x for x in c["labels"] if x != "nan"})
        out.append(c)
    return out


def int_cases(rng, n):
    out = []
    for _ in range(n):
        dtype = rng.choice(["int8", "uint8", "int16", "uint16", "int32"])
        func = rng.choice(["sum", "nansum", "sum", "prod", "nanprod", "mean", "nanmean", "var", "nanvar", "count", "max", "min"])
        m = rng.randint(2, 12)
        ng = rng.randint(1, 2)
        hi = {"int8": 127, "uint8": 255, "int16": 32767, "uint16": 65535, "int32": 2 ** 31 - 1}[dtype]
        if func in ("prod", "nanprod"):
            vals = [rng.choice([2, 3, 5, 7, 11, -3 if not dtype.startswith("u") else 3]) for _ in range(m)]
        else:
            vals = [rng.choice([hi, hi - 1, hi // 2, 1, (-hi if not dtype.startswith("u") else hi)]) for _ in range(m)]
        c = {"func": func, "vals": vals, "labels": G.rand_labels(rng, m, ng), "engine": rng.choice(ENGINES), "dtype": dtype}
        if rng.random() < 0.12 and func not in ("prod", "nanprod", "var", "nanvar"):
            # MANY members of small value: the number of members (count) and the totals exceed the input width (int8: 127, uint8: 255)
            dtype = rng.choice(["int8", "uint8", "int8", "uint8", "int16", "bool"])
            m = rng.randint(260, 700)
            vals = [rng.random() < 0.8 for _ in range(m)] if dtype == "bool" else [rng.choice([1, 1, 1, 2, 0]) for _ in range(m)]
            c = {"func": rng.choice(["count", "count", "sum", "nansum", "mean", "max"]) if dtype != "bool" else rng.choice(["count", "sum", "any"]),
                 "vals": vals, "labels": [rng.randrange(ng) for _ in range(m)] if rng.random() < 0.5 else sorted(rng.randrange(ng) for _ in range(m)),
                 "engine": rng.choice(ENGINES), "dtype": dtype}
            func = c["func"]
        if func in ("var", "nanvar"):
            c["ddof"] = 0
            # keep every group well-conditioned (spread comparable to the magnitude): the property is about
            # well-conditioned data; sums of squares of nearly equal huge values cancel catastrophically
            mixed = (not dtype.startswith("u")) and rng.random() < 0.5
            for g in set(c["labels"]):
                idx = [i for i, l in enumerate(c["labels"]) if l == g]
                if len(idx) >= 2:
                    # (mixed sign: the FIRST member near the negative end, another near the positive end - differences between members
                    #  exceed the input width although every member fits it)
                    c["vals"][idx[0]], c["vals"][idx[1]] = (-(hi - rng.randint(0, hi // 4)) if mixed else 1), hi - (rng.randint(0, hi // 8) if mixed else 0)
                else:
                    c["vals"][idx[0]] = 1
        plan = rng.choice(["eager", "eager", "map-reduce", "cohorts"])
        if plan != "eager":
            c["chunks"] = [list(G.random_composition(rng, m, 4))]
            c["method"] = plan
            c["expected"] = sorted(set(c["labels"]))
            if c["engine"] == "numbagg" and func in ("max", "min"):
                c["engine"] = "numpy"
        out.append(c)
    return out


def var_pairs(run, rng, n):
    """var/std of well-conditioned float data: eager vs chunked to floating-point accuracy"""
    import dask.array as da
    import numpy as np

    import flox

    nrng = np.random.default_rng(rng.randrange(2 ** 31))
    for _ in range(n):
        m = rng.randint(4, 60)
        ng = rng.randint(1, 4)
        mean = rng.choice([0.0, 1.0, 10.0, -50.0])
        vals = nrng.normal(mean, rng.choice([0.5, 1.0, 5.0]), size=m)
        labels = nrng.integers(0, ng, size=m)
        func = rng.choice(["var", "std", "nanvar", "nanstd"])
        ddof = rng.choice([0, 1])
        if func.startswith("nan"):
            vals[nrng.random(m) < 0.1] = np.nan
        ikind = None
        if rng.random() < 0.35:
            # integer data of every width, magnitudes up to far beyond sqrt(2**63): the squares must not be formed in an integer type
            ikind = rng.choice(["int64", "int64", "uint32", "int32", "int16", "uint64"])
            scale = {"int64": rng.choice([1e3, 4e9, 1e12, 1e15]), "uint32": 1e9, "int32": 5e8, "int16": 8e3, "uint64": rng.choice([1e10, 1e15])}[ikind]
            centre = 0.0 if ikind.startswith("int") else 3 * scale
            vals = np.clip(np.rint(nrng.normal(centre, scale, size=m)), 0 if ikind.startswith("u") else -4 * scale, centre + 4 * scale).astype(ikind)
        chunks = G.random_composition(rng, m, 6)
        with warnings.catch_warnings():
            warnings.simplefilter("ignore")
            kw = dict(func=func, finalize_kwargs={"ddof": ddof}, expected_groups=np.arange(ng), fill_value=np.nan)
            e = np.asarray(flox.groupby_reduce(vals, labels, engine="numpy", **kw)[0])
            results = {}
            for method in ("map-reduce", "cohorts"):
                for eng in ("numpy", "flox"):
                    results[(method, eng)] = np.asarray(flox.groupby_reduce(da.from_array(vals, chunks=(chunks,)), labels, method=method, engine=eng, **kw)[0].compute())
            npf = getattr(np, func)
            ref = np.array([npf(vals[labels == g], ddof=ddof) if (labels == g).any() else np.nan for g in range(ng)])
        run.count(f"var|{m}|{ng}|{func}|{ddof}|{chunks}|{ikind}", len(chunks) > 1)
        hist = run.extra.setdefault("var_pairs_dtype_histogram", {})
        hist[str(vals.dtype)] = hist.get(str(vals.dtype), 0) + 1
        for k, r in results.items():
            if not (np.allclose(r, e, rtol=1e-9, atol=1e-12, equal_nan=True) and np.allclose(r, ref, rtol=1e-9, atol=1e-12, equal_nan=True)):
                run.violation({"property": "C20", "kind": "var/std eager vs chunked disagree beyond floating-point accuracy",
                               "func": func, "ddof": ddof, "vals": vals.tolist(), "dtype": str(vals.dtype), "labels": labels.tolist(), "chunks": list(chunks),
                               "plan": list(k), "chunked": r.tolist(), "eager": e.tolist(), "numpy": ref.tolist()}, tag="var")
                break
    run.sample({"var_case": {"func": func, "ddof": ddof, "n": m, "chunks": list(chunks)}})


def nontrivial(case):
    return G.has_special(case["vals"]) or case.get("dtype", "float64") != "float64"


def run(run: C.Run):
    rng = random.Random(run.seed)
    proofs_ok = P.front(run, translators=("registry",))
    thorough = run.tier == "thorough"
    cases = F.corpus("C20") + inf_cases(rng, 5000 if thorough else 1000) + int_cases(rng, 5000 if thorough else 1000)
    R.check_reduce_cases(run, cases, "C20", nontrivial, full=False, model=True,
                         grouped_fn=lambda case, rec: rec.get("reindex_blockwise") is False or rec.get("method") in ("cohorts", "blockwise"))
    var_pairs(run, rng, 2000 if thorough else 250)
    if any(not o[1] for o in run.obligations) and not run.violations:
        run.violation({"property": "C20", "kind": "proof obligation / correspondence no longer checks",
                       "failed": P.failed_obligations(run)}, nofail=True, tag="obligation")
    run.assumptions.append("'to floating-point accuracy' is measured (rtol 1e-9 on well-conditioned data), not proved: float rounding is outside the model")
    run.cov["rule"] = (
        "(1) min/max/nanmin/nanmax on arrays mixing finite values, NaN and +-inf, every engine incl. the automatic choice, eager and "
        "map-reduce/cohorts/auto; (2) int8/uint8/int16/uint16/int32 arrays whose group totals exceed the input width (values at the "
        "dtype's extremes) for sum/nansum/prod/nanprod/mean/var/count/min/max on every engine and plan, vs NumPy (which accumulates in "
        "the default platform integer); (3) var/std/nanvar/nanstd on normally distributed floats (|mean|/std <= 100) and on integer data of every width with magnitudes up to 1e15 (squares beyond int64): eager vs "
        "chunked (2 methods x 2 engines) vs NumPy within rtol 1e-9; non-trivial = +-inf/NaN present or a narrow integer dtype")


def replay(run: C.Run, path):
    rp = C.json.load(open(path))
    if "case" in rp:
        R.check_reduce_cases(run, [rp["case"]], run.pid, nontrivial)
    else:
        P.front(run)
