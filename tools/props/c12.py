"""C12 — graph construction is lazy; labels found at compute time give the same mapping."""
from __future__ import annotations

import json
import random
import warnings

from tools.lib import common as C
from tools.lib import gen as G
from tools.lib import graphs as GR
from tools.lib import grid as GD
from tools.lib import impl as I
from tools.lib import proofs as P

LEVEL = "other"


def lazy_grid(run, rng, ngroups):
    groups = []
    seen = set()
    cells = list(GD.all_cells())
    rng.shuffle(cells)
    cells = cells[:ngroups]
    work, res = GD.run_cells(cells, (0, 1))
    bad = 0
    for (cell, v), r in zip(work, res):
        run.count(json.dumps([cell, v], sort_keys=True, default=str), r["call"] == "Ok")
        if r.get("computes_during_call", 0) or r["call"] == "Computed" or (r["call"] == "Ok" and r.get("lazy") is False) \
                or r.get("groups_lazy_when_unknown") is False:
            bad += 1
            run.violation({"property": "C12", "kind": "graph construction evaluated a chunk / returned a non-lazy object",
                           "cell": {k: cell[k] for k in GD.KEYS}, "variant": v, "computes_during_call": r.get("computes_during_call"),
                           "lazy": r.get("lazy"), "call": r["call"], "msg": r.get("msg"),
                           "how_to_run": "tools/lib/grid.py:run_cell(cell, variant)  (scheduler that raises on any compute)"}, tag="lazy")
    run.sample({"lazy_cell": {k: str(work[0][0][k]) for k in GD.KEYS}, "outcome": res[0]["call"]})
    return bad


def lazy_scans_xarray(run, rng, n):
    import dask
    import dask.array as da
    import numpy as np
    import xarray as xr

    import flox
    import flox.xarray as fx

    for _ in range(n):
        m = rng.randint(4, 10)
        vals = np.array([float(rng.choice(G.ALPHA_FINITE)) for _ in range(m)])
        labels = np.array([rng.randrange(3) for _ in range(m)])
        chunks = tuple(G.random_composition(rng, m, 3))
        rs = GR.RaisingScheduler()
        kind = rng.choice(["scan", "scan", "xarray", "xarray-bylazy", "rechunk"])
        desc = {"kind": kind, "vals": vals.tolist(), "labels": labels.tolist(), "chunks": list(chunks)}
        try:
            with warnings.catch_warnings(), dask.config.set(scheduler=rs):
                warnings.simplefilter("ignore")
                arr = da.from_array(vals, chunks=(chunks,))
                if kind == "scan":
                    func = rng.choice(["nancumsum", "ffill", "bfill"])
                    pattern = rng.choice(["random", "all-distinct", "constant", "length-1 axis"])
                    v2 = vals.copy()
                    if rng.random() < 0.5:
                        v2[rng.randrange(m)] = np.nan
                    if rng.random() < 0.25 and func == "nancumsum":
                        v2 = np.nan_to_num(v2).astype(rng.choice(["int64", "int8", "float32"]))
                    lab2 = labels
                    if pattern == "all-distinct":       # the 'nothing to scan' shortcut must stay lazy too
                        lab2 = np.array(rng.sample(range(m + 3), m))
                    elif pattern == "constant":
                        lab2 = np.zeros(m, dtype=int)
                    arr2 = da.from_array(v2, chunks=(chunks,))
                    if pattern == "length-1 axis":
                        arr2 = da.from_array(v2.reshape(m, 1), chunks=(chunks, (1,)))
                        lab2 = np.array([rng.randrange(3)])
                    desc.update(func=func, pattern=pattern, vals=[I.fnum(x) for x in np.asarray(v2, dtype=float).reshape(-1)], labels=lab2.tolist(), dtype=str(v2.dtype))
                    out = flox.groupby_scan(arr2, lab2, func=func)
                    lazy = isinstance(out, da.Array)
                elif kind == "rechunk":
                    out = flox.rechunk_for_blockwise(arr, axis=0, labels=np.sort(labels))
                    lazy = isinstance(out, da.Array)
                else:
                    func = rng.choice(["sum", "mean", "max", "count", "nanvar", "argmax", "first"])
                    desc["func"] = func
                    by = xr.DataArray(labels if kind == "xarray" else da.from_array(labels, chunks=(chunks,)), dims="x", name="lab")
                    obj = xr.DataArray(arr, dims="x", name="v")
                    out = fx.xarray_reduce(obj, by, func=func, expected_groups=np.arange(3), **({"fill_value": -1} if func != "first" else {}))
                    lazy = isinstance(out.data, da.Array)
        except (ValueError, NotImplementedError):
            continue
        except RuntimeError as e:
            if "compute during graph construction" in str(e):
                lazy = False
            else:
                raise
        run.count(json.dumps(desc, sort_keys=True), True)
        if rs.calls or not lazy:
            run.violation({"property": "C12", "kind": "API call evaluated a chunk / returned a non-lazy object", **desc,
                           "computes_during_call": rs.calls, "lazy": lazy}, tag="lazy")
    run.sample({"scan_or_xarray_case": desc})


def unknown_labels(run, rng, n):
    """dask labels without expected_groups: labels found at compute time and their values vs the eager computation"""
    import dask
    import dask.array as da
    import numpy as np

    import flox

    for _ in range(n):
        m = rng.randint(2, 12)
        pool = rng.sample(range(-3, 8), k=rng.randint(1, 4))
        labels = np.array([rng.choice(pool + [np.nan]) for _ in range(m)], dtype=float)
        if np.isnan(labels).all():
            continue
        ldt = rng.choice(["float64", "float64", "float32", "int64", "int8", "uint8", "uint16", "uint64"])
        if ldt != "float64":
            # other label dtypes (no missing labels for integers); cyclic / descending patterns make per-block label lists ascending or not
            base = np.where(np.isnan(labels), pool[0], labels)
            if rng.random() < 0.5:
                srt = sorted(set(base.tolist()))
                base = np.array([(srt if rng.random() < 0.5 else srt[::-1])[i % len(srt)] for i in range(m)], dtype=float)
            labels = (base - min(base.min(), 0)).astype(ldt) if ldt.startswith("u") else base.astype(ldt)
        vals = np.array([I.unf(v) for v in G.rand_vals(rng, m, alphabet=G.ALPHA_FINITE + ["nan"], p_special=0.1)], dtype=float)
        func = rng.choice(["sum", "nansum", "max", "nanmin", "count", "mean", "nanfirst", "nanlast", "nanvar", "prod"])
        chunks = tuple(G.random_composition(rng, m))
        dchunks = (chunks,)
        if rng.random() < 0.3 and func not in ("nanfirst", "nanlast"):
            # N-D labels (reduced over all their axes), integer labels that include -1 and other negative values as ORDINARY labels
            a, b = rng.randint(1, 3), rng.randint(2, 4)
            m = a * b
            ipool = rng.sample([-3, -1, -1, 0, 1, 2, 5], k=rng.randint(1, 4))
            labels = np.array([rng.choice(ipool) for _ in range(m)], dtype=rng.choice(["int64", "int8"])).reshape(a, b)
            vals = np.array([float(rng.randint(-3, 3)) for _ in range(m)]).reshape(a, b)
            dchunks = (tuple(G.random_composition(rng, a)), tuple(G.random_composition(rng, b)))
            chunks = dchunks[0] + dchunks[1]
        with warnings.catch_warnings(), dask.config.set(scheduler="sync", split_every=rng.choice([2, 4])):
            warnings.simplefilter("ignore")
            try:
                sort = rng.random() < 0.6
                r, g = flox.groupby_reduce(da.from_array(vals, chunks=dchunks), da.from_array(labels, chunks=dchunks), func=func,
                                           engine=rng.choice(["numpy", "flox"]), sort=sort)
                lazy = isinstance(r, da.Array) and isinstance(g, da.Array)
                rr, gg = dask.compute(r, g)
                er, eg = flox.groupby_reduce(vals, labels, func=func, engine="numpy")
            except (ValueError, NotImplementedError):
                continue
        run.count(f"unk|{func}|{vals.tolist()}|{labels.tolist()}|{chunks}", len(chunks) > 1)
        got = {float(k): I.fnum(v) for k, v in zip(np.asarray(gg), np.asarray(rr, dtype=float))}
        want = {float(k): I.fnum(v) for k, v in zip(np.asarray(eg), np.asarray(er, dtype=float))}
        ok = lazy and set(got) == set(want) and all(I.same(got[k], want[k]) for k in want) \
            and (not sort or list(np.asarray(gg)) == sorted(np.asarray(gg))) and len(np.asarray(gg)) == len(set(np.asarray(gg).tolist()))
        if not ok:
            run.violation({"property": "C12", "kind": "labels / values found at compute time differ from the eager label->value mapping",
                           "func": func, "vals": [I.fnum(x) for x in vals.reshape(-1)], "labels": [I.fnum(x) for x in labels.reshape(-1)], "label_shape": list(labels.shape), "label_dtype": str(labels.dtype),
                           "chunks": list(chunks), "chunked": got, "eager": want, "lazy": lazy, "sort": sort}, tag="unk")
    run.sample({"unknown_labels_case": {"func": func, "labels": [I.fnum(x) for x in labels.reshape(-1)], "chunks": list(chunks)}})


def run(run: C.Run):
    rng = random.Random(run.seed)
    P.front(run, translators=("registry",))
    thorough = run.tier == "thorough"
    lazy_grid(run, rng, 20000 if thorough else 1500)
    lazy_scans_xarray(run, rng, 600 if thorough else 120)
    unknown_labels(run, rng, 3000 if thorough else 400)
    if any(not o[1] for o in run.obligations) and not run.violations:
        run.violation({"property": "C12", "kind": "proof obligation no longer checks", "failed": P.failed_obligations(run)}, nofail=True, tag="obligation")
    run.cov["explanation"] = (
        "Partial by nature: a stray evaluation of a lazy array is a runtime fact that no Coq model of flox can exhibit, so the laziness half is "
        "decided by ENUMERATING configuration cells (reduction x engine x method x reindex x label kind x ndim x axis x expected x layout, "
        "two inputs each) under a scheduler that raises on any compute, plus groupby_scan / xarray_reduce / rechunk calls; the "
        "unbounded content is the second half: Coq theorems that the labels discovered at compute time are exactly the present labels "
        "in ascending order with the same label->members mapping, and that the grouped combine gives the eager values for any chunking "
        "and tree; tied to the code by comparing real unknown-label runs (dask labels, no expected_groups) with the eager mapping.")
    run.cov["rule"] = "cells of the configuration grid sampled uniformly (quick 1500 x 2 inputs, thorough 20000 x 2); non-trivial = the call was accepted"


def replay(run: C.Run, path):
    rp = json.load(open(path))
    P.front(run, translators=("registry",))
    if "cell" in rp:
        r = GD.run_cell(rp["cell"], rp.get("variant", 0))
        if r.get("computes_during_call") or r.get("lazy") is False:
            run.violation(dict(rp, replayed=r), tag="lazy")
    else:
        unknown_labels(run, random.Random(run.seed), 200)
