"""C05 — one slot per requested label; fill_value and min_count honoured exactly."""
from __future__ import annotations

import random

from tools.lib import common as C
from tools.lib import findings as F
from tools.lib import gen as G
from tools.lib import proofs as P
from tools.lib import reduce_suite as R

LEVEL = "proof"
FUNCS = ["sum", "nansum", "prod", "nanprod", "max", "nanmax", "min", "nanmin", "count", "mean", "nanmean",
         "var", "nanvar", "nanfirst", "nanlast", "first", "last", "all", "any"]
FILLS = ["nan", 0, -5, 2 ** 40, False, None]
MINCOUNTS = [None, None, 0, 1, 2, 50]


def grouped_fn(case, rec):
    # late-reindex plans: a label absent from every block is filled by the final reindex with the user's fill
    return rec.get("reindex_blockwise") is False or rec.get("method") in ("cohorts", "blockwise")


def gen_cases(rng, n):
    out = []
    while len(out) < n:
        func = rng.choice(FUNCS)
        m = rng.randint(1, 10)
        present_pool = rng.sample(range(-2, 7), k=rng.randint(1, 4))
        labels = [rng.choice(present_pool) if rng.random() > 0.15 else "nan" for _ in range(m)]
        present = sorted({x for x in labels if x != "nan"})
        if not present:
            continue
        kind = rng.choice(["superset", "subset", "disjoint", "exact", "exact"])
        if kind == "superset":
            expected = sorted(set(present) | set(rng.sample(range(-4, 9), k=2)))
        elif kind == "subset":
            expected = rng.sample(present, k=max(1, len(present) - 1))
        elif kind == "disjoint":
            expected = [x for x in range(10, 13)]
        else:
            expected = list(present)
        if rng.random() < 0.5:
            rng.shuffle(expected)   # unsorted request; sort=True must return it ascending
        fill = rng.choice(FILLS)
        absent_possible = any(e not in present for e in expected)
        if fill is None and absent_possible:
            fill = rng.choice(FILLS[:-1])
        mc = rng.choice(MINCOUNTS)
        if fill is None and mc not in (None, 0):
            fill = rng.choice(FILLS[:-1])
        vals = G.rand_vals(rng, m, p_special=0.25)
        c = {"func": func, "vals": vals, "labels": labels, "expected": expected, "engine": rng.choice(["numpy", "flox", None, "numbagg"])}
        if func in ("all", "any"):
            c["dtype"] = "bool"
            c["vals"] = [bool(v) if not isinstance(v, str) else True for v in vals]
        if func in ("first", "last"):
            c["vals"] = [v if v != "nan" else 1 for v in vals]
        if fill is not None:
            c["fill_value"] = fill
        if mc is not None:
            c["min_count"] = mc
        if func in ("var", "nanvar"):
            c["ddof"] = 0
        if rng.random() < 0.35:
            c["sort"] = False        # one slot per requested label IN THE REQUESTED ORDER
        plan = rng.choice(["eager", "eager", "map-reduce", "cohorts", "auto", "map-reduce-late"])
        if plan != "eager":
            c["chunks"] = [list(G.random_composition(rng, m, 4))]
            c["method"] = {"map-reduce": "map-reduce", "map-reduce-late": "map-reduce", "cohorts": "cohorts", "auto": None}[plan]
            if plan == "map-reduce-late":
                c["reindex"] = False
            if func in ("first", "last"):
                continue
            if c["engine"] == "numbagg":
                c["engine"] = "numpy"
            if plan in ("map-reduce", "auto") and rng.random() < 0.4:
                c["by_dask"] = True      # labels held in a dask array: the request is all that is known when the graph is built
        if rng.random() < 0.4:
            c["expected_as"] = rng.choice(["pd.Index", "list"])      # the same request in another container
        out.append(c)
    return out


def wide_cases(rng, n):
    """many requested labels (15-30) drawn from a float grid or sparse integer ids, with repeated UNREQUESTED labels in the data"""
    out = []
    for _ in range(n):
        kind = rng.choice(["float-grid", "sparse-int"])
        universe = [x * 0.5 for x in range(-10, 60)] if kind == "float-grid" else [x * 1000 + 7 for x in range(0, 70)]
        nexp = rng.randint(15, 30)
        expected = sorted(rng.sample(universe, nexp))
        unrequested = [u for u in universe if u not in expected]
        m = rng.randint(20, 45)
        pool = rng.sample(expected, k=rng.randint(3, 8)) + rng.sample(unrequested, k=rng.randint(2, 5))
        labels = [rng.choice(pool) for _ in range(m)]
        if rng.random() < 0.5:
            rng.shuffle(expected)
        c = {"func": rng.choice(["sum", "count", "nanmax", "mean", "min"]), "vals": [rng.choice(G.ALPHA_FINITE) for _ in range(m)],
             "labels": labels, "expected": expected, "fill_value": rng.choice([-7, 0, "nan"]), "engine": rng.choice(["numpy", "flox"])}
        if rng.random() < 0.3:
            c["min_count"] = 2
        plan = rng.choice(["eager", "map-reduce", "cohorts"])
        if plan != "eager":
            c["chunks"] = [list(G.random_composition(rng, m, 4))]
            c["method"] = plan
        out.append(c)
    return out


def disjoint_block_cases(rng, n):
    """every requested label occurs, no missing labels; the blocks hold DISJOINT, interleaved subsets of the labels ({e0,e2} | {e1,e3} ...),
    so the groups meet the blocks in an order that is a non-trivial permutation of the request; sort True / False; every method"""
    out = []
    for _ in range(n):
        k = rng.randint(3, 7)
        expected = sorted(rng.sample(range(-3, 40), k))
        nb = rng.randint(2, 3)
        blocks = [[e for i, e in enumerate(expected) if i % nb == b] for b in range(nb)]
        if rng.random() < 0.4:
            rng.shuffle(blocks)
        labels, chunks = [], []
        method = rng.choice([None, "cohorts", "blockwise", "map-reduce"])
        for bl in blocks:
            if not bl:
                continue
            part = [x for x in bl for _ in range(rng.randint(1, 2))]
            if rng.random() < 0.5 and method != "blockwise":
                # (method='blockwise' rechunks 1-D labels assuming the members of a group are adjacent: keep them so)
                rng.shuffle(part)
            labels += part
            chunks.append(len(part))
        func = rng.choice(["sum", "max", "count", "nanfirst", "argmax", "mean", "nanmin", "argmin"])
        ex = list(expected)
        if rng.random() < 0.4:
            rng.shuffle(ex)
        c = {"func": func, "vals": [rng.randint(-5, 9) for _ in labels], "labels": labels, "expected": ex, "sort": rng.random() < 0.35,
             "engine": "numpy" if "arg" in func else rng.choice(["numpy", "flox", None]), "chunks": [chunks],
             "method": method, "fill_value": rng.choice([-99, "nan"])}
        if "arg" in func and c["method"] == "blockwise":
            c["method"] = "cohorts"
        out.append(c)
    return out


def reindex_cases(run, rng):
    """K2, exhaustive: flox.core.reindex_ for EVERY ordered subset `from_` of {0..3} (the labels a block / cohort found, in any order) and
    every ordered subset `to` of {0..4} of size <= 3, plus `to` = RangeIndex(1..5), vs Reindex.reindex"""
    import itertools

    import numpy as np
    import pandas as pd

    import flox.core as fc
    from tools.props.c07 import eval_simple

    froms = [p for k in range(1, 5) for p in itertools.permutations(range(4), k)]
    tos = [("index", p) for k in range(1, 4) for p in itertools.permutations(range(5), k)] + [("range", tuple(range(n))) for n in range(1, 6)]
    coq = []
    for fr in froms:
        vals = np.array([10 + 7 * x for x in fr], dtype="int64")
        for kind, to in tos:
            idx = pd.RangeIndex(len(to)) if kind == "range" else pd.Index(list(to))
            try:
                out = fc.reindex_(vals, np.array(fr), idx, fill_value=-1)
            except Exception as e:  # noqa: BLE001
                run.violation({"property": "C05", "kind": f"reindex_ raised {type(e).__name__}: {str(e)[:100]}", "from_": list(fr), "to": list(to), "to_kind": kind}, tag="reindex")
                continue
            run.count(f"reindex|{fr}|{kind}|{to}", tuple(fr) != tuple(to))
            z = lambda xs: C.list_lit([C.zlit(int(x)) for x in xs])  # noqa: E731
            coq.append(f"({z(fr)}, {z(to)}, {z(vals)}, (-1), {z(np.asarray(out).reshape(-1))})")
    run.extra["reindex_cases (exhaustive ordered subsets)"] = len(coq)
    eval_simple(run, "reindex", "reindex_case_ok", coq, "correspondence:K2 Reindex.reindex == flox.core.reindex_ (every ordered from_ x every ordered to, Index and RangeIndex)")


def nontrivial(case):
    labs = {x for x in case["labels"] if x != "nan"}
    ex = set(case["expected"])
    return bool(ex - labs) or bool(labs - ex) or case.get("min_count") not in (None, 0)


def run(run: C.Run):
    rng = random.Random(run.seed)
    proofs_ok = P.front(run, translators=("registry",))
    cases = F.corpus("C05") + gen_cases(rng, 6000 if run.tier == "thorough" else 1600) + wide_cases(rng, 1500 if run.tier == "thorough" else 250) \
        + disjoint_block_cases(rng, 1500 if run.tier == "thorough" else 300)
    R.check_reduce_cases(run, cases, "C05", nontrivial, grouped_fn=grouped_fn, vs_eager=False, full=True)
    reindex_cases(run, rng)
    if not proofs_ok and not run.violations:
        run.violation({"property": "C05", "kind": "proof obligation no longer checks", "failed": P.failed_obligations(run)},
                      nofail=True, tag="obligation")
    run.cov["rule"] = (
        "groupby_reduce with expected_groups a superset / subset / disjoint / exact w.r.t. the labels present (given sorted or "
        "shuffled), fill_value in {NaN,0,-5,2**40,False,None}, min_count in {None,0,1,2,50}, 19 reductions, engines "
        "numpy/flox/numbagg/auto, eager and dask (map-reduce with early and late reindex, cohorts, auto); compared per slot with "
        "the NumPy oracle (absent label or fewer than min_count valid members -> fill verbatim) and with the Coq model that "
        "factorises the raw labels itself (Factorize.v) ; non-trivial: a requested label absent, a present label unrequested, or "
        "a min_count that can bite")


def replay(run: C.Run, path):
    rp = C.json.load(open(path))
    if "case" in rp:
        R.check_reduce_cases(run, [rp["case"]], run.pid, nontrivial, grouped_fn=grouped_fn, full=True)
    else:
        P.front(run)
        if any(not o[1] for o in run.obligations):
            run.violation(rp, nofail=True, tag="replayed")
