"""C09 — cohort planner sound: labels partitioned, blocks covered, members counted once."""
from __future__ import annotations

import itertools
import math
import random
import warnings

from tools.lib import common as C
from tools.lib import findings as F
from tools.lib import gen as G
from tools.lib import graphs as GR
from tools.lib import proofs as P

LEVEL = "proof"
MCODE = {"blockwise": 0, "cohorts": 1, "map-reduce": 2}


def blocks_of(labels, chunks):
    """labels: nested list (1-D or 2-D) of codes; chunks: tuple of tuples -> list of label lists, row-major"""
    import numpy as np

    lab = np.asarray(labels)
    out = []
    starts = [list(itertools.accumulate((0,) + tuple(c)[:-1])) for c in chunks]
    for idx in itertools.product(*[range(len(c)) for c in chunks]):
        sl = tuple(slice(starts[ax][i], starts[ax][i] + chunks[ax][i]) for ax, i in enumerate(idx))
        out.append(sorted(set(int(x) for x in lab[sl].reshape(-1))))
    return out


def call_planner(labels, chunks, nlabels, merge):
    import numpy as np
    import pandas as pd

    import flox.core as fc

    lab = np.asarray(labels)
    try:
        method, cohorts = fc.find_group_cohorts(lab, chunks, expected_groups=pd.RangeIndex(nlabels), merge=merge)
    except AssertionError:
        return None
    except Exception as e:  # noqa: BLE001  -- an internal error of the planner is reported with its input, not as a crash of the check
        return ("raised", f"{type(e).__name__}: {str(e)[:120]}")
    return method, [(sorted(int(x) for x in k), [int(x) for x in v]) for k, v in cohorts.items()]


def soundness(labels, chunks, nlabels, res):
    """the property's own predicates on the planner's answer"""
    blocks = blocks_of(labels, chunks)
    present = sorted({x for b in blocks for x in b if x >= 0 and x < nlabels})
    method, cohorts = res
    bad = []
    if not cohorts:
        if method != "map-reduce":
            bad.append("no cohorts returned with a method other than map-reduce")
        return bad
    flat = [x for _, v in cohorts for x in v]
    if len(blocks) > 1:
        if sorted(flat) != present:
            bad.append(f"labels not partitioned: cohorts hold {sorted(flat)}, present {present}")
    else:
        if not set(present) <= set(flat) or len(flat) != len(set(flat)):
            bad.append("single-block answer does not list every present label once")
    for key, labs in cohorts:
        for x in labs:
            need = {i for i, b in enumerate(blocks) if x in b}
            if not need <= set(key):
                bad.append(f"cohort {labs} with blocks {key} misses blocks {sorted(need - set(key))} of label {x}")
    if method == "blockwise":
        multi = [x for x in present if sum(x in b for b in blocks) > 1]
        if multi:
            bad.append(f"'blockwise' proposed although labels {multi} span several blocks")
    return bad


def coq_planner_case(labels, chunks, nlabels, merge, res):
    blocks = blocks_of(labels, chunks)
    one = all(all(a == 1 for a in c) for c in chunks)
    bl = C.list_lit([C.list_lit([C.zlit(x) for x in b]) for b in blocks])
    if res is None:
        impl = "None"
    else:
        coh = C.list_lit([f"({C.list_lit([str(k) for k in key])}, {C.list_lit([str(x) for x in v])})" for key, v in res[1]])
        impl = f"(Some ({MCODE[res[0]]}, {coh}))"
    return f"({bl}, {nlabels}%nat, {'true' if one else 'false'}, {'true' if merge else 'false'}, {impl})"


def planner_cases(run, cases):
    coq = []
    for labels, chunks, nlabels, merge in cases:
        res = call_planner(labels, chunks, nlabels, merge)
        nb = math.prod(len(c) for c in chunks)
        run.count(f"pl|{labels}|{chunks}|{nlabels}|{merge}", nb > 1 and res is not None and len(res[1]) > 1)
        if res is not None and res[0] == "raised":
            run.violation({"property": "C09", "kind": "find_group_cohorts raised an internal error: " + res[1], "labels": labels,
                           "chunks": [list(c) for c in chunks], "nlabels": nlabels, "merge": merge,
                           "how_to_run": "flox.core.find_group_cohorts(np.asarray(labels), chunks, expected_groups=pd.RangeIndex(nlabels), merge=merge)"}, tag="raised")
            continue
        if res is None:
            if F.active("KF-C09-merged-cohort-key-collision"):
                run.known("KF-C09-merged-cohort-key-collision", F.describe("KF-C09-merged-cohort-key-collision"))
            else:
                run.violation({"property": "C09", "kind": "find_group_cohorts raised AssertionError", "labels": labels,
                               "chunks": [list(c) for c in chunks], "nlabels": nlabels, "merge": merge}, tag="assert")
        else:
            bad = soundness(labels, chunks, nlabels, res)
            if bad:
                run.violation({"property": "C09", "kind": "planner answer is unsound", "problems": bad[:4], "labels": labels,
                               "chunks": [list(c) for c in chunks], "nlabels": nlabels, "merge": merge,
                               "answer": [res[0], res[1]],
                               "how_to_run": "flox.core.find_group_cohorts(np.asarray(labels), chunks, pd.RangeIndex(nlabels), merge)"}, tag="plan")
        coq.append(coq_planner_case(labels, chunks, nlabels, merge, res))
    if cases:
        run.sample({"planner_case": {"labels": cases[-1][0], "chunks": [list(c) for c in cases[-1][1]], "nlabels": cases[-1][2], "merge": cases[-1][3]}})
    return coq


def eval_planner(run, coq):
    hdr = "From Coq Require Import ZArith List Bool.\nFrom Flox Require Import Cases.\nImport ListNotations.\nOpen Scope Z_scope.\n"
    texts = {}
    for i in range(0, len(coq), 1000):
        texts[f"pl_{i // 1000}"] = hdr + "Definition cases := [\n " + ";\n ".join(coq[i:i + 1000]) + "\n].\nEval vm_compute in (failing planner_case_ok cases).\n"
    res = C.coq_eval_many(texts, "C09")
    nbad, logs = 0, []
    for name, (ok, out) in sorted(res.items()):
        lists = C.parse_nat_list(out)
        if not ok or len(lists) != 1:
            nbad += 1
            logs.append(f"{name}: {out[-300:]}")
        elif lists[0]:
            nbad += len(lists[0])
            base = int(name.split("_")[1]) * 1000
            logs.append(f"{name}: model differs on {[coq[base + j] for j in lists[0][:2]]}")
    run.extra["planner_cases_evaluated_in_coq"] = len(coq)
    run.oblige("correspondence:K2 Cohorts.find_group_cohorts == flox.core.find_group_cohorts", nbad == 0, " | ".join(logs)[:1500])


def exhaustive_1d(maxlen, alphabet):
    for n in range(1, maxlen + 1):
        for labels in itertools.product(alphabet, repeat=n):
            for chunks in G.compositions(n):
                for merge in (False, True):
                    # (all labels missing: one label is requested and none occurs)
                    yield list(labels), (tuple(chunks),), max(max(labels) + 1 + (1 if labels[0] == 0 else 0), 1), merge


def random_2d(rng, n):
    out = []
    for _ in range(n):
        r, c = rng.randint(2, 5), rng.randint(2, 6)
        ng = rng.randint(2, 5)
        style = rng.choice(["random", "rows", "cols", "blocks"])
        if style == "random":
            lab = [[rng.randrange(-1, ng) for _ in range(c)] for _ in range(r)]
        elif style == "rows":
            lab = [[i % ng] * c for i in range(r)]
        elif style == "cols":
            lab = [[j % ng for j in range(c)] for _ in range(r)]
        else:
            lab = [[(i // 2 + j // 2) % ng for j in range(c)] for i in range(r)]
        out.append((lab, (G.random_composition(rng, r, 3), G.random_composition(rng, c, 3)), ng, rng.random() < 0.5))
    return out


def random_dense(rng, n):
    """1-D layouts with many labels over many blocks: exercises the containment-merging branch"""
    out = []
    for _ in range(n):
        nb = rng.randint(3, 8)
        ng = rng.randint(3, 9)
        size = rng.randint(2, 4)
        p = rng.choice([0.2, 0.35, 0.5])
        labels = []
        for _b in range(nb):
            pool = [g for g in range(ng) if rng.random() < p] or [rng.randrange(ng)]
            labels += [rng.choice(pool) for _ in range(size)]
        out.append((labels, ((size,) * nb,), ng, rng.random() < 0.6))
    return out


def provenance(run, rng, n):
    """element i carries 2**i: the group sums name the contributing elements and their multiplicity (every strategy);
    and the dependency closure of each output chunk holds every input block of its labels, none of another batch slice"""
    import dask
    import dask.array as da
    import numpy as np

    import flox

    for _ in range(n):
        two_d = rng.random() < 0.4
        if two_d:
            r, c = rng.randint(2, 4), rng.randint(2, 5)
            ng = rng.randint(2, 4)
            lab = np.array([[rng.randrange(-1, ng) for _ in range(c)] for _ in range(r)])
            chunks = (G.random_composition(rng, r, 3), G.random_composition(rng, c, 3))
        elif rng.random() < 0.45:
            # many blocks, each holding a random subset of 2-3 labels: cohorts whose block lists are long, non-contiguous
            # and unevenly spaced (e.g. [0, 2, 3, 6])
            nb = rng.randint(6, 10)
            ng = rng.randint(2, 3)
            per_block = [[g for g in range(ng) if rng.random() < 0.5] or [rng.randrange(ng)] for _ in range(nb)]
            lab = np.array([g for b in per_block for g in b])
            chunks = (tuple(len(b) for b in per_block),)
        else:
            m = rng.randint(3, 14)
            ng = rng.randint(2, 5)
            lab = np.array(G.rand_labels(rng, m, ng, style=rng.choice(["periodic", "random", "runs"])))
            lab = np.where(np.array([rng.random() < 0.1 for _ in range(m)]), -1, lab)
            chunks = (G.random_composition(rng, m, 5),)
        batch = 2
        size = lab.size
        vals = np.stack([2.0 ** np.arange(size).reshape(lab.shape), 2.0 ** (np.arange(size).reshape(lab.shape) + 20)])
        arr = da.from_array(vals, chunks=((1, 1),) + tuple(chunks))
        want = np.array([[vals[b][lab == g].sum() for g in range(ng)] for b in range(batch)])
        for method in (None, "map-reduce", "cohorts"):
            with warnings.catch_warnings(), dask.config.set(scheduler="sync", split_every=rng.choice([2, 4])):
                warnings.simplefilter("ignore")
                try:
                    res, _ = flox.groupby_reduce(arr, lab, func="sum", expected_groups=np.arange(ng), fill_value=0,
                                                 method=method, engine="numpy")
                except (ValueError, NotImplementedError):
                    continue
                except AssertionError:
                    if F.active("KF-C09-merged-cohort-key-collision"):
                        run.known("KF-C09-merged-cohort-key-collision", F.describe("KF-C09-merged-cohort-key-collision"))
                        continue
                    raise
                got = np.asarray(res.compute())
                run.count(f"prov|{lab.tolist()}|{chunks}|{method}", True)
                if not np.array_equal(got, want):
                    run.violation({"property": "C09", "kind": "provenance sums: members dropped or double counted",
                                   "labels": lab.tolist(), "chunks": [list(c) for c in chunks], "method": method,
                                   "got": got.tolist(), "want": want.tolist(),
                                   "how_to_run": "groupby_reduce(2**arange provenance data, labels, func='sum', method=...)"}, tag="prov")
                    continue
                # dependency closure of every output chunk
                d = GR.materialize(res)
                deps = GR.deps_of(d)
                in_name = arr.name
                for key in itertools.product(*[range(len(c)) for c in res.chunks]):
                    okey = (res.name,) + key
                    clo = GR.closure(d, okey, deps)
                    inputs = {k[1:] for k in clo if isinstance(k, tuple) and k[0] == in_name}
                    b = key[0]
                    off = sum(res.chunks[-1][:key[-1]])
                    glabels = set(range(off, off + res.chunks[-1][key[-1]]))
                    blocks = blocks_of(lab, chunks)
                    grid = list(itertools.product(*[range(len(c)) for c in chunks]))
                    need = {(b,) + grid[i] for i, bl in enumerate(blocks) if glabels & set(bl)}
                    if not need <= inputs or any(k[0] != b for k in inputs):
                        run.violation({"property": "C09", "kind": "dependency closure of an output chunk is wrong",
                                       "labels": lab.tolist(), "chunks": [list(c) for c in chunks], "method": method,
                                       "output_chunk": list(key), "missing_inputs": sorted(need - inputs),
                                       "foreign_batch_inputs": sorted(k for k in inputs if k[0] != b)}, tag="closure")
                        break
    run.sample({"provenance_case": {"labels": lab.tolist(), "chunks": [list(c) for c in chunks]}})


def subset_position_cases(run, rng, n):
    """subset_to_blocks: the layer it builds must place, at output position (i, j, k, ...), the input block whose index on every
    axis is the i-th / j-th / k-th SELECTED block of that axis, and announce the chunk sizes of exactly those blocks -
    including leading (batch) axes that are kept whole and selections that are not contiguous on two axes separated by a full one"""
    import dask.array as da
    import numpy as np

    import flox.core as fc

    coq = []
    for _ in range(n):
        nlab = rng.randint(1, 3)
        nbatch = rng.choice([0, 0, 1])
        blk = tuple(rng.randint(1, 3) for _ in range(nlab))
        bblk = tuple(rng.randint(1, 2) for _ in range(nbatch))
        chunks = tuple(tuple(rng.randint(1, 3) for _ in range(b)) for b in bblk + blk)
        arr = da.zeros(tuple(sum(c) for c in chunks), chunks=chunks)
        per_axis = [sorted(rng.sample(range(b), k=rng.randint(1, b))) for b in blk]
        if nlab == 3 and rng.random() < 0.5:
            # non-contiguous selections on the outer axes, the middle axis selected whole
            blk = (3, blk[1], 3)
            chunks = chunks[:nbatch] + tuple(tuple(rng.randint(1, 3) for _ in range(b)) for b in blk)
            arr = da.zeros(tuple(sum(c) for c in chunks), chunks=chunks)
            per_axis = [[0, 2], list(range(blk[1])), [0, 2]]
        flat = [int(np.ravel_multi_index(t, blk)) for t in __import__("itertools").product(*per_axis)]
        rng.shuffle(flat)
        desc = {"array_chunks": [list(c) for c in chunks], "label_block_grid": list(blk), "batch_axes": nbatch, "flatblocks": flat, "selected_per_axis": per_axis}
        run.count("subpos|" + str(desc), nlab >= 2 and any(len(p) > 1 for p in per_axis))
        try:
            lay = fc.subset_to_blocks(arr, flat, blk)
        except Exception as e:  # noqa: BLE001
            run.violation(dict(desc, property="C09", kind=f"subset_to_blocks raised {type(e).__name__}: {str(e)[:100]}"), tag="subpos")
            continue
        full_sel = [list(range(b)) for b in bblk] + per_axis
        want_chunks = tuple(tuple(chunks[ax][i] for i in sel) for ax, sel in enumerate(full_sel))
        problem = None
        if tuple(tuple(c) for c in lay.chunks) != want_chunks:
            problem = {"announced_chunks": [list(c) for c in lay.chunks], "expected_chunks": [list(c) for c in want_chunks]}
        else:
            for pos in __import__("itertools").product(*[range(len(s)) for s in full_sel]):
                task = lay.layer.get((lay.name,) + pos)
                src = tuple(task[1][1:]) if task is not None else None
                want_src = tuple(full_sel[ax][i] for ax, i in enumerate(pos))
                if src != want_src:
                    problem = {"output_position": list(pos), "reads_input_block": None if src is None else list(src), "should_read_input_block": list(want_src)}
                    break
        # the same layer against the Coq model (NdTake.subset_sources): flat source block of every output position, C order
        try:
            grid = tuple(len(c) for c in chunks)
            srcs = [int(np.ravel_multi_index(tuple(lay.layer[(lay.name,) + pos][1][1:]), grid)) for pos in __import__("itertools").product(*[range(len(c)) for c in lay.chunks])]
            nat = lambda xs: C.list_lit([f"{int(x)}%nat" for x in xs])  # noqa: E731
            coq.append(f"({nat(grid)}, {C.list_lit([nat(sel) for sel in full_sel])}, {nat(srcs)}, {nat([len(c) for c in lay.chunks])})")
        except Exception:  # noqa: BLE001  -- malformed layers are reported by the positional check above
            pass
        if problem:
            run.violation(dict(desc, property="C09", kind="subset_to_blocks wires a cohort's output block to the wrong input block", **problem,
                               how_to_run="flox.core.subset_to_blocks(dask.array.zeros(shape, chunks=array_chunks), flatblocks, label_block_grid)"), tag="subpos")
    from tools.props.c07 import eval_simple
    eval_simple(run, "subset", "subset_case_ok", coq, "correspondence:K2 NdTake.subset_sources == the layer built by flox.core.subset_to_blocks (source block of every output position)")


def normalize_index_cases(run, rng, nmax, nrandom):
    """_normalize_indexes (which blocks feed a cohort): the index it returns must select, on every axis, exactly the
    blocks of the request - ALL non-empty subsets of up to nmax blocks in 1-D, random subsets of 2-D / 3-D block grids"""
    import numpy as np

    import flox.core as fc

    def check(flat, blkshape, ndim):
        keys = np.arange(int(np.prod(blkshape))).reshape(blkshape)
        keys = keys.reshape((1,) * (ndim - len(blkshape)) + tuple(blkshape))
        try:
            index = fc._normalize_indexes(ndim, list(flat), tuple(blkshape))
            index = tuple(slice(k, k + 1) if isinstance(k, (int, np.integer)) else k for k in index)
            got = set(np.asarray(keys[index]).reshape(-1).tolist())
        except Exception as e:  # noqa: BLE001
            got = f"raised {type(e).__name__}: {e}"
        per_axis = [sorted(set(a.tolist())) for a in np.unravel_index(list(flat), blkshape)]
        want = set(np.ravel_multi_index(np.ix_(*per_axis), blkshape).reshape(-1).tolist())
        run.count(f"ni|{list(flat)}|{blkshape}|{ndim}", len(flat) > 2)
        if got != want:
            run.violation({"property": "C09", "kind": "_normalize_indexes selects the wrong blocks for a cohort",
                           "flatblocks": [int(x) for x in flat], "blkshape": list(blkshape), "ndim": ndim,
                           "selected": sorted(got) if isinstance(got, set) else got, "wanted": sorted(want),
                           "how_to_run": "flox.core._normalize_indexes(ndim, flatblocks, blkshape) applied to the block-key array"}, tag="nidx")
            return False
        return True

    coq = []

    def code(ix):
        if isinstance(ix, slice):
            return [1, -1 if ix.start is None else int(ix.start), -1 if ix.stop is None else int(ix.stop)] if ix.step in (None, 1) else [9]
        if isinstance(ix, (int, np.integer)):
            return [0, int(ix)]
        return [2] + [int(x) for x in np.asarray(ix).reshape(-1)]

    for n in range(1, nmax + 1):
        for mask in range(1, 2 ** n):
            flat = [i for i in range(n) if mask >> i & 1]
            if not check(flat, (n,), rng.choice([1, 2])):
                return
            if mask % 3 == 0 or n <= 6:
                # the same request, unsorted and with repetitions, against the Coq model of the per-axis step
                req = flat + [rng.choice(flat) for _ in range(rng.randint(0, 2))]
                rng.shuffle(req)
                try:
                    ix = fc._normalize_indexes(1, req, (n,))[-1]
                    coq.append(f"({C.list_lit([C.zlit(x) for x in req])}, {n}, {C.list_lit([C.zlit(x) for x in code(ix)])})")
                except Exception:  # noqa: BLE001
                    coq.append(f"({C.list_lit([C.zlit(x) for x in req])}, {n}, [9])")
    hdr = "From Coq Require Import ZArith List Bool.\nFrom Flox Require Import Cases.\nImport ListNotations.\nOpen Scope Z_scope.\n"
    text = hdr + "Definition cases := [\n " + ";\n ".join(coq) + "\n].\nEval vm_compute in (failing normidx_case_ok cases).\n"
    ok, o = C.coq_eval_many({"normidx": text}, "C09")["normidx"]
    lists = C.parse_nat_list(o)
    good = ok and len(lists) == 1 and not lists[0]
    run.extra["normalize_indexes_model_cases_in_coq"] = len(coq)
    run.oblige("correspondence:K2 NormIdx.normalize_axis == flox.core._normalize_indexes (1-D, unsorted / repeated requests)", good,
               "" if good else (f"model differs on {[coq[j] for j in lists[0][:3]]}" if ok and len(lists) == 1 else o[-400:])[:1200])
    for _ in range(nrandom):
        shape = tuple(rng.randint(1, 5) for _ in range(rng.choice([2, 2, 3])))
        total = int(np.prod(shape))
        flat = sorted(rng.sample(range(total), rng.randint(1, total)))
        if not check(flat, shape, len(shape) + rng.choice([0, 1])):
            return
    run.sample({"normalize_indexes_case": {"flatblocks": flat, "blkshape": list(shape)}})


def run(run: C.Run):
    rng = random.Random(run.seed)
    P.front(run, translators=())
    thorough = run.tier == "thorough"
    cases = list(exhaustive_1d(6 if thorough else 5, [-1, 0, 1, 2]))
    if not thorough and len(cases) > 9000:
        cases = cases[::2]
    else:
        run.cov["exhaustive"] = True
    # regression corpus: dense layouts on which two merged cohorts occupy the same blocks (fixed by 9d28530)
    cases += [([0, 3, 4, 5, 7, 0, 1, 2, 4, 6, 0, 2, 3, 5, 2, 3, 4, 5, 7, 0, 1, 2, 5, 6, 1, 2, 4, 7, 1, 5, 6, 7], ((5, 5, 4, 5, 5, 4, 4),), 8, True)]
    cases += random_2d(rng, 3000 if thorough else 600)
    cases += random_dense(rng, 12000 if thorough else 2500)
    coq = planner_cases(run, cases)
    eval_planner(run, coq)
    provenance(run, rng, 1500 if thorough else 150)
    normalize_index_cases(run, rng, 11 if thorough else 9, 3000 if thorough else 400)
    subset_position_cases(run, rng, 6000 if thorough else 1200)
    if any(not o[1] for o in run.obligations) and not run.violations:
        run.violation({"property": "C09", "kind": "proof obligation / correspondence no longer checks",
                       "failed": P.failed_obligations(run)}, nofail=True, tag="obligation")
    run.cov["rule"] = (
        "K2: find_group_cohorts on ALL 1-D label arrays over {-1,0,1,2} of length <=5 (quick, every second) / <=6 (thorough) x ALL "
        "chunkings x merge, random 2-D layouts (<=5x6, <=3x3 blocks) and dense random 1-D incidence patterns (3-8 blocks, 3-9 "
        "labels); each real answer is checked against the soundness predicates (partition of present labels, block cover, "
        "blockwise only if every label in one block) AND compared with the Coq model (method, cohorts, order); "
        "K3/K4: provenance sums (element i carries 2**i, two batch slices) under method None/map-reduce/cohorts and the "
        "dependency closure of every output chunk of the real graph; non-trivial = >1 block and >1 cohort")


def replay(run: C.Run, path):
    rp = C.json.load(open(path))
    P.front(run, translators=())
    if "nlabels" in rp:
        coq = planner_cases(run, [(rp["labels"], tuple(tuple(c) for c in rp["chunks"]), rp["nlabels"], rp["merge"])])
        eval_planner(run, coq)
    else:
        provenance(run, random.Random(run.seed), 50)
