"""C16 — group order follows the sort contract; the label-to-value mapping never changes."""
from __future__ import annotations

import random

from tools.lib import common as C
from tools.lib import findings as F
from tools.lib import gen as G
from tools.lib import impl as I
from tools.lib import proofs as P
from tools.lib import reduce_suite as R

LEVEL = "proof"
FUNCS = ["sum", "nansum", "max", "nanmin", "count", "mean", "nanfirst", "nanlast", "first", "last", "prod",
         "argmax", "argmin", "nanargmax", "argmax"]


def gen_cases(rng, n):
    out = []
    while len(out) < n:
        func = rng.choice(FUNCS)
        m = rng.randint(1, 10)
        pool = rng.sample(range(-3, 9), k=rng.randint(1, 5))
        labels = [rng.choice(pool) if rng.random() > 0.12 else "nan" for _ in range(m)]
        present = list(dict.fromkeys(x for x in labels if x != "nan"))
        if not present:
            continue
        c = {"func": func, "vals": G.rand_vals(rng, m, alphabet=G.ALPHA_FINITE + ["nan"], p_special=0.1 if func.startswith("nan") or func == "count" else 0.0),
             "labels": labels, "sort": rng.random() < 0.5, "engine": rng.choice(["numpy", "flox", None])}
        ek = rng.choice(["absent", "sorted", "unsorted", "unsorted-superset"])
        if ek == "sorted":
            c["expected"] = sorted(present)
        elif ek == "unsorted":
            e = list(present)
            rng.shuffle(e)
            c["expected"] = e
        elif ek == "unsorted-superset":
            e = list(set(present) | {11, -7})
            rng.shuffle(e)
            c["expected"] = e
            c["fill_value"] = -99
        if "expected" in c and rng.random() < 0.4:
            c["expected_as"] = rng.choice(["pd.Index", "list"])
        if "arg" in func:
            c["engine"] = "numpy"
        plan = rng.choice(["eager", "eager", "map-reduce", "cohorts", "blockwise", "blockwise", "auto"])
        if "arg" in func and plan == "blockwise":
            plan = "cohorts"
        if plan != "eager":
            if func in ("first", "last") and plan != "blockwise":
                continue
            c["method"] = None if plan == "auto" else plan
            if plan == "blockwise":
                # every group inside one block: keep the members of a group adjacent (any order of groups)
                order = list(present)
                rng.shuffle(order)
                idx = sorted((i for i in range(m) if labels[i] != "nan"), key=lambda i: order.index(labels[i]))
                for i in (i for i in range(m) if labels[i] == "nan"):
                    idx.insert(rng.randint(0, len(idx)), i)      # elements with a missing label may sit in any block
                c["labels"] = [labels[i] for i in idx]
                c["vals"] = [c["vals"][i] for i in idx]
                c["chunks"] = [[m]] if rng.random() < 0.3 else None
                if c["chunks"] is None:
                    # cut only where no group continues across the cut
                    cl = c["labels"]
                    cuts = [i for i in range(1, m) if not ({x for x in cl[:i] if x != "nan"} & {x for x in cl[i:] if x != "nan"})]
                    pts = [0] + sorted(rng.sample(cuts, k=rng.randint(0, len(cuts)))) + [m]
                    c["chunks"] = [[b - a for a, b in zip(pts, pts[1:])]]
                    if len(pts) > 2 and rng.random() < 0.5:
                        # a missing label inside EVERY block (at a random position of the block), often with sort=False:
                        # the -1 slots of several blocks must all disappear and take no real label with them
                        labs, vals, sizes, off = [], [], [], 0
                        for a, b in zip(pts, pts[1:]):
                            bl, bv = c["labels"][a:b], c["vals"][a:b]
                            k = rng.randint(0, len(bl))
                            bl.insert(k, "nan")
                            bv.insert(k, rng.choice([-2, 0, 3]))
                            labs += bl
                            vals += bv
                            sizes.append(len(bl))
                        c["labels"], c["vals"], c["chunks"] = labs, vals, [sizes]
                        if rng.random() < 0.7:
                            c["sort"] = False
            else:
                c["chunks"] = [list(G.random_composition(rng, m, 4))]
            if c["sort"] is False and "expected" not in c:
                c["unordered"] = True    # order unspecified for chunked input without expected_groups
            if "expected" in c and plan in ("map-reduce", "auto") and rng.random() < 0.4:
                c["by_dask"] = True      # labels held in a dask array: the requested labels are all that is known up front
        out.append(c)
    return out


def compare_map(case, impl_res, orc):
    """label -> value pairing as a map (order ignored)"""
    got = {str(I.unf(g)): v for g, v in zip(impl_res["groups"][0], impl_res["result"])}
    want = {str(I.unf(g)): v for g, v in zip(orc["groups"], orc["result"])}
    bad = []
    if len(impl_res["groups"][0]) != len(set(map(str, impl_res["groups"][0]))):
        bad.append(("<labels>", impl_res["groups"][0], "duplicate labels"))
    if set(got) != set(want):
        bad.append(("<labels>", sorted(got), sorted(want)))
    for k in want:
        if k in got and want[k] not in ("FILL", "UNSPEC") and not I.same(got[k], want[k]):
            bad.append((k, got[k], want[k]))
    return bad


LABEL_DTYPES = ["uint8", "uint16", "uint32", "uint64", "int8", "int32", "int64", "float32", "float64", "U3"]


def typed_label_cases(rng, n):
    """labels of every dtype the property names (unsigned / signed integers of all widths, floats with NaN, strings), in memory and
    held in a dask array (discovered at compute time), with and without expected_groups; cyclic / descending / random patterns so
    that per-block label lists are ascending, descending or interleaved"""
    out = []
    while len(out) < n:
        dt = rng.choice(LABEL_DTYPES)
        m = rng.randint(2, 14)
        k = rng.randint(1, 5)
        if dt == "U3":
            pool = rng.sample(["a", "b", "ab", "ba", "c", "B", "zz", "0"], k=k)
        elif dt.startswith("uint"):
            pool = rng.sample([0, 1, 2, 3, 4, 7, 200, 255], k=k)
        elif dt.startswith("int"):
            pool = rng.sample([-3, -2, -1, 0, 1, 2, 5, 100], k=k)
        else:
            pool = rng.sample([-1.5, -1.0, 0.0, 0.5, 1.0, 2.0, 2.5, 10.0], k=k)
        pat = rng.choice(["random", "cyclic", "cyclic-desc", "runs"])
        srt = sorted(pool)
        if pat == "random":
            labels = [rng.choice(pool) for _ in range(m)]
        elif pat == "cyclic":
            labels = [srt[i % k] for i in range(m)]
        elif pat == "cyclic-desc":
            labels = [srt[::-1][i % k] for i in range(m)]
        else:
            labels = []
            while len(labels) < m:
                labels += [rng.choice(pool)] * rng.randint(1, 3)
            labels = labels[:m]
        if dt.startswith("float") and rng.random() < 0.4:
            labels[rng.randrange(m)] = "nan"
        if dt.startswith("float") and rng.random() < 0.3:
            # runs of DESCENDING labels separated by missing ones: every drop in value sits next to a NaN
            labels = []
            for v in srt[::-1]:
                labels += [v] * rng.randint(1, 3) + ["nan"] * rng.randint(1, 2)
            labels = labels[:max(3, m)]
            m = len(labels)
        present = list(dict.fromkeys(x for x in labels if x != "nan"))
        if not present:
            continue
        func = rng.choice(["sum", "nansum", "max", "count", "mean", "nanfirst", "nanlast", "prod", "nanmin"])
        c = {"func": func, "vals": [rng.randint(-3, 3) for _ in range(m)], "labels": labels, "label_dtype": dt, "sort": rng.random() < 0.6,
             "engine": rng.choice(["numpy", "flox", None])}
        ek = rng.choice(["absent", "absent", "sorted", "unsorted"])
        if ek != "absent":
            e = sorted(present)
            if ek == "unsorted":
                rng.shuffle(e)
            c["expected"] = e
        plan = rng.choice(["eager", "map-reduce", "map-reduce", "cohorts", "auto"])
        if plan != "eager":
            c["method"] = None if plan == "auto" else plan
            c["chunks"] = [list(G.random_composition(rng, m, 5))] if rng.random() < 0.7 else [[k] * (m // k) + ([m % k] if m % k else [])]
            if plan in ("map-reduce", "auto") and rng.random() < 0.6:
                c["by_dask"] = True
                c.pop("method", None) if rng.random() < 0.5 else None
        out.append(c)
    return out


def check_typed(run, cases):
    """labels ascending and duplicate-free for sort=True; given / first-appearance order for sort=False where specified;
    the label -> value pairing always that of the sorted per-group NumPy result"""
    for case, (impl_res, rec, orc) in zip(cases, R.run_cases(cases)):
        run.count(R.case_key(case), case["labels"] != sorted(case["labels"], key=str) or bool(case.get("by_dask")))
        hist = run.extra.setdefault("typed_label_dtype_histogram", {})
        hist[case["label_dtype"]] = hist.get(case["label_dtype"], 0) + 1
        if not impl_res["ok"]:
            if impl_res["exc"] not in R.REFUSALS:
                run.violation({"property": "C16", "kind": "internal error", "case": case, "flox": impl_res}, tag="typed")
            continue
        got_labels = impl_res["groups"][0]
        bad = compare_map(case, impl_res, I.oracle(dict(case, sort=True)))
        order_specified = case["sort"] or case.get("expected") is not None or case.get("chunks") is None
        if not bad and order_specified:
            want_labels = I.oracle(case)["groups"]
            if [str(I.unf(x)) for x in got_labels] != [str(I.unf(x)) for x in want_labels]:
                bad = [("<order of labels>", got_labels, want_labels)]
        if bad:
            run.violation({"property": "C16", "kind": "labels out of order / repeated, or label->value mapping differs from the per-group NumPy result",
                           "case": case, "flox": impl_res, "mismatches": [list(map(str, b)) for b in bad[:5]],
                           "how_to_run": "./check C16 --replay <this file>"}, tag="typed")
    if cases:
        run.sample({"typed_label_case": cases[-1]})


def nontrivial(case):
    labs = [x for x in case["labels"] if x != "nan"]
    return labs != sorted(labs) or (case.get("expected") is not None and case["expected"] != sorted(case["expected"]))


def run(run: C.Run):
    rng = random.Random(run.seed)
    proofs_ok = P.front(run, translators=("registry",))
    cases = F.corpus("C16") + gen_cases(rng, 6000 if run.tier == "thorough" else 1500)
    ordered = [c for c in cases if not c.get("unordered")]
    unordered = [{k: v for k, v in c.items() if k != "unordered"} for c in cases if c.get("unordered")]
    R.check_reduce_cases(run, ordered, "C16", nontrivial, full=True,
                         grouped_fn=lambda case, rec: rec.get("reindex_blockwise") is False or rec.get("method") in ("cohorts", "blockwise"))
    check_typed(run, typed_label_cases(rng, 3000 if run.tier == "thorough" else 700))
    # order unspecified: the pairing must still be the sorted result's, nothing lost or repeated
    for case, (impl_res, rec, orc) in zip(unordered, R.run_cases(unordered)):
        run.count(R.case_key(case), nontrivial(case))
        if not impl_res["ok"]:
            if impl_res["exc"] not in R.REFUSALS:
                run.violation({"property": "C16", "kind": "internal error", "case": case, "flox": impl_res}, tag="oracle")
            continue
        srt = dict(case, sort=True)
        bad = compare_map(case, impl_res, I.oracle(srt))
        if bad:
            fid = F.classify("C16", case, impl_res, bad)
            if fid:
                run.known(fid, F.describe(fid))
            else:
                run.violation({"property": "C16", "kind": "label->value mapping differs from the sorted result", "case": case,
                               "flox": impl_res, "mismatches": bad[:5], "how_to_run": "./check C16 --replay <this file>"}, tag="oracle")
    from tools.lib import fuzz as Z
    Z.run_stream(run, rng, 1500 if run.tier == "thorough" else 150, "C16", funcs=["sum", "nanmax", "count", "nanfirst", "mean", "min"])
    if not proofs_ok and not run.violations:
        run.violation({"property": "C16", "kind": "proof obligation no longer checks", "failed": P.failed_obligations(run)},
                      nofail=True, tag="obligation")
    run.cov["rule"] = (
        "groupby_reduce with sort in {True,False} x expected_groups absent/sorted/unsorted/unsorted-superset x eager/map-reduce/"
        "cohorts/blockwise/auto; integer labels with missing entries; a typed-label stream (uint8..uint64, int8..int64, float32/64 with NaN, "
        "strings; in memory and in dask arrays discovered at compute time; cyclic / descending / run patterns); compared as SEQUENCES (labels and values in order) with the "
        "NumPy oracle (ascending for sort=True; given order or first appearance for sort=False) and with the Coq model "
        "(Factorize.v + pipeline); chunked + sort=False + no expected_groups is compared as a MAP against the sorted result; "
        "non-trivial = labels or the request not already ascending")


def replay(run: C.Run, path):
    rp = C.json.load(open(path))
    if "case" in rp and "label_dtype" in rp["case"]:
        P.front(run)
        check_typed(run, [rp["case"]])
    elif "case" in rp:
        R.check_reduce_cases(run, [rp["case"]], run.pid, nontrivial, full=True)
    else:
        P.front(run)
