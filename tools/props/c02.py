"""C02 — chunked = eager for every strategy, reindex mode, chunking, label kind."""
from __future__ import annotations

import random

from tools.lib import common as C
from tools.lib import findings as F
from tools.lib import gen as G
from tools.lib import proofs as P
from tools.lib import reduce_suite as R

LEVEL = "proof"
FUNCS = G.REDUCE_FUNCS + G.ARG_FUNCS + G.FIRSTLAST
METHODS = [None, "map-reduce", "cohorts", "blockwise"]


def grouped_fn(case, rec):
    f = case["func"]
    if f in G.ARG_FUNCS:
        return True
    if case.get("by_dask") and case.get("expected") is None:
        return True
    return False


def mk(rng, func, n, ngroups, chunks, method, reindex, by_dask, engine, vals=None, labels=None, expected="exact",
       fill=None, missing=0.0, split_every=None):
    labels = labels if labels is not None else G.rand_labels(rng, n, ngroups, p_missing=missing)
    if method == "blockwise":
        # precondition: every group inside one block (after the automatic rechunk for sequential labels)
        labels = sorted(labels, key=lambda x: (x == "nan", x if x != "nan" else 0))
    vals = vals if vals is not None else G.rand_vals(rng, n, p_special=0.2)
    if func in G.ARG_FUNCS and not func.startswith("nan"):
        vals = [v if v != "nan" else 0 for v in vals]
    present = sorted({x for x in labels if x != "nan"})
    c = {"func": func, "vals": vals, "labels": labels, "chunks": [list(chunks)], "method": method,
         "reindex": reindex, "engine": engine, "split_every": split_every}
    if by_dask:
        c["by_dask"] = True
    if expected == "exact":
        c["expected"] = present
    elif expected == "superset":
        c["expected"] = sorted(set(present) | {ngroups + 1, -3})
        c["fill_value"] = fill if fill is not None else -7
    elif expected == "subset" and len(present) > 1:
        c["expected"] = present[:-1]
    elif by_dask and method in ("cohorts",):
        c["expected"] = present
    if fill is not None and "expected" in c:
        c["fill_value"] = fill
    if func in ("var", "nanvar", "std", "nanstd"):
        c["ddof"] = rng.choice([0, 1])
    if not c.get("expected") and "expected" in c:
        c.pop("expected")
    return c


def gen_cases(rng, n):
    out = []
    while len(out) < n:
        func = rng.choice(FUNCS)
        m = rng.randint(2, 12)
        ng = rng.randint(1, 4)
        chunks = G.random_composition(rng, m, None if rng.random() < 0.5 else 4)
        method = rng.choice(METHODS)
        by_dask = rng.random() < 0.25 and method in (None, "map-reduce")
        reindex = rng.choice([None, None, True, False])
        engine = rng.choice(["numpy", "numpy", "flox", None])
        if func in G.ARG_FUNCS and engine == "flox":
            engine = "numpy"
        expected = rng.choice(["exact", "exact", "superset", "subset", None])
        if by_dask and expected is None and method != "map-reduce" and method is not None:
            expected = "exact"
        out.append(mk(rng, func, m, ng, chunks, method, reindex, by_dask, engine, expected=expected,
                      missing=rng.choice([0.0, 0.0, 0.2]), split_every=rng.choice([None, 2, 3])))
    return out


def exhaustive_chunkings(rng, maxn, per):
    """all chunkings (compositions) of every length <= maxn x method x reindex, data random per cell"""
    out = []
    for m in range(2, maxn + 1):
        for chunks in G.compositions(m):
            for method in METHODS:
                for reindex in (None, True, False):
                    for _ in range(per):
                        func = rng.choice(FUNCS)
                        out.append(mk(rng, func, m, rng.randint(1, 3), chunks, method, reindex,
                                      rng.random() < 0.2 and method in (None, "map-reduce"), rng.choice(["numpy", "flox"]) if func not in G.ARG_FUNCS else "numpy",
                                      expected=rng.choice(["exact", "superset"]), split_every=rng.choice([2, 4])))
    return out


def dense_cases(rng, n):
    """label layouts that drive find_group_cohorts into its containment-merging branch (sliding windows,
    partially overlapping block sets): a cohort whose block list misses a block silently drops data"""
    from tools.props.c09 import random_dense

    out = []
    for labels, chunks, ng, _merge in random_dense(rng, n):
        m = len(labels)
        func = rng.choice(["sum", "count", "nanmax", "mean", "min", "nanfirst"])
        if rng.random() < 0.5:   # sliding windows: label g occupies blocks g..g+w
            nb = len(chunks[0])
            size = chunks[0][0]
            w = rng.randint(2, 4)
            labels = []
            for b in range(nb):
                pool = [g for g in range(ng) if g <= b <= g + w] or [rng.randrange(ng)]
                labels += [rng.choice(pool) for _ in range(size)]
        vals = [rng.choice(G.ALPHA_FINITE) for _ in range(m)]
        out.append({"func": func, "vals": vals, "labels": labels, "chunks": [list(chunks[0])], "method": rng.choice(["cohorts", None]),
                    "engine": "numpy", "expected": list(range(ng)), "fill_value": -7, "reindex": None, "split_every": rng.choice([None, 2])})
    return out


def big_cases(rng, n):
    """beyond the small scope: 600-2500 elements, 280-800 groups (codes past 255), 12-40 blocks (deep trees)"""
    out = []
    for _ in range(n):
        m = rng.randint(600, 2500)
        ng = rng.randint(280, 800)
        labels = [rng.randrange(ng) for _ in range(m)]
        if rng.random() < 0.3:
            labels = [l if rng.random() > 0.02 else "nan" for l in labels]
        func = rng.choice(["sum", "nanmax", "mean", "count", "nanfirst", "argmax", "min", "nansum", "nanlast"])
        vals = [rng.choice([-3, -2, -1, 0, 1, 2, 3, 5]) for _ in range(m)]
        if func.startswith("nan") or func == "count":
            vals = [v if rng.random() > 0.05 else "nan" for v in vals]
        chunks = G.random_composition(rng, m, rng.randint(12, 40))
        c = {"func": func, "vals": vals, "labels": labels, "chunks": [list(chunks)], "method": rng.choice([None, "map-reduce", "cohorts"]),
             "reindex": rng.choice([None, True, False]), "engine": rng.choice(["numpy", "flox", None]), "split_every": rng.choice([None, 2, 3]),
             "expected": list(range(ng)), "fill_value": -7}
        out.append(c)
    return out


def same_extremes_cases(rng, n):
    """blocks that all hold the smallest and the largest label and EQUALLY MANY labels, but different ones in between
    (e.g. {0,1,3} and {0,2,3}): the union of labels at combine time is not any single block's set"""
    out = []
    for _ in range(n):
        ng = rng.randint(4, 7)
        nb = rng.randint(2, 5)
        k = rng.randint(1, ng - 3)
        labels, chunks = [], []
        for _b in range(nb):
            mids = rng.sample(range(1, ng - 1), k)
            blk = [0] + mids + [ng - 1]
            if rng.random() < 0.3:
                blk.append("nan")
            rng.shuffle(blk)
            blk += [rng.choice([x for x in blk]) for _ in range(rng.randint(0, 2))]
            labels += blk
            chunks.append(len(blk))
        m = len(labels)
        func = rng.choice(["sum", "nanmax", "count", "mean", "nanfirst", "min", "argmax", "nansum"])
        vals = G.rand_vals(rng, m, p_special=0.1 if func.startswith("nan") or func == "count" else 0.0)
        c = {"func": func, "vals": vals, "labels": labels, "chunks": [chunks], "method": rng.choice(["map-reduce", None, "cohorts"]),
             "reindex": rng.choice([False, False, None]), "engine": rng.choice(["numpy", "flox"]), "split_every": rng.choice([None, 2]),
             "expected": list(range(ng)), "fill_value": -7}
        if rng.random() < 0.3:
            c["by_dask"] = True
        out.append(c)
    return out


def nd_batch_cases(run, rng, n):
    """chunked = eager for value arrays with a leading (kept) batch axis and labels of 1-3 dims over MANY blocks: cohorts that span more
    blocks than split_every along the grouped axis while the batch axis has one block; 3-D block grids whose cohorts select
    non-contiguous blocks on two axes; every method; compared with the in-memory call and the per-group NumPy result"""
    import warnings

    import dask
    import dask.array as da
    import numpy as np

    import flox

    desc = None
    for _ in range(n):
        nlab = rng.choice([1, 1, 2, 3, 3])
        batch = rng.choice([0, 1, 1])
        if nlab == 1:
            nblocks = rng.choice([5, 6, 8, 12, 17, 18, 19, 20])
            csz = rng.randint(1, 3)
            lshape = (nblocks * csz,)
            lchunks = ((csz,) * nblocks,)
        else:
            grid = tuple(rng.randint(1, 3) for _ in range(nlab))
            lchunks = tuple(tuple(rng.randint(1, 2) for _ in range(g)) for g in grid)
            lshape = tuple(sum(c) for c in lchunks)
        pat = rng.choice(["block-alternating", "random", "product"])
        if pat == "product" and nlab == 3:
            # 3 blocks on the outer label axes: group 0 keeps blocks {0, 2} x all x {0, 2}
            lchunks = (tuple(rng.randint(1, 2) for _ in range(3)), tuple(rng.randint(1, 2) for _ in range(rng.randint(1, 2))), tuple(rng.randint(1, 2) for _ in range(3)))
            lshape = tuple(sum(c) for c in lchunks)
        labels = np.zeros(lshape, dtype=int)
        if pat == "random":
            labels = np.array([rng.randrange(3) for _ in range(int(np.prod(lshape)))]).reshape(lshape)
        elif pat == "block-alternating":
            bounds = [np.cumsum((0,) + c) for c in lchunks]
            for bi, idx in enumerate(np.ndindex(*[len(c) for c in lchunks])):
                sl = tuple(slice(bounds[d][i], bounds[d][i + 1]) for d, i in enumerate(idx))
                labels[sl] = sum(idx) % 2
        else:
            # group 1 fills whole slabs of blocks on the first and last label axes: group 0 is left with a non-contiguous product of blocks
            for ax in {0, nlab - 1}:
                bounds = np.cumsum((0,) + lchunks[ax])
                for i in range(len(lchunks[ax])):
                    if i % 2 == 1:
                        sl = [slice(None)] * nlab
                        sl[ax] = slice(bounds[i], bounds[i + 1])
                        labels[tuple(sl)] = 1
        bshape = (rng.randint(2, 3),) if batch else ()
        vals = np.array([rng.randint(-4, 4) for _ in range(int(np.prod(bshape + lshape)))], dtype=float).reshape(bshape + lshape)
        bchunks = ((bshape[0],) if rng.random() < 0.6 else (1,) * bshape[0],) if batch else ()
        func = rng.choice(["sum", "nanmax", "count", "mean", "min"])
        split_every = rng.choice([None, 2, 3])
        desc = {"func": func, "vals_shape": list(vals.shape), "chunks": [list(c) for c in bchunks + lchunks], "labels": labels.tolist(), "vals": vals.tolist(),
                "pattern": pat, "split_every": split_every}
        with warnings.catch_warnings():
            warnings.simplefilter("ignore")
            eager = np.asarray(flox.groupby_reduce(vals, labels, func=func)[0], dtype=float)
            ids = np.unique(labels)
            fl = labels.reshape(-1)
            ref1 = lambda v2: np.array([{"sum": np.sum, "nanmax": np.max, "count": len, "mean": np.mean, "min": np.min}[func](v2.reshape(-1)[fl == g]) for g in ids], dtype=float)  # noqa: E731
            ref = np.stack([ref1(v2) for v2 in vals]) if batch else ref1(vals)
            for method in (None, "map-reduce", "cohorts"):
                cfg = {"scheduler": "sync"}
                if split_every:
                    cfg["split_every"] = split_every
                try:
                    with dask.config.set(**cfg):
                        r, _ = flox.groupby_reduce(da.from_array(vals, chunks=bchunks + lchunks), labels, func=func, method=method)
                        got = np.asarray(r.compute(), dtype=float)
                except (ValueError, NotImplementedError):
                    run.extra["refused_cases"] = run.extra.get("refused_cases", 0) + 1
                    continue
                except Exception as e:  # noqa: BLE001
                    run.violation(dict(desc, property="C02", kind=f"chunked evaluation raised an internal error {type(e).__name__}: {str(e)[:120]}", method=method), tag="ndb")
                    break
                run.count("ndb|" + str(method) + "|" + str(desc), True)
                if got.shape != eager.shape or not np.allclose(got, eager, equal_nan=True) or not np.allclose(got, ref, equal_nan=True):
                    run.violation(dict(desc, property="C02", kind="chunked result differs from the in-memory result / the per-group NumPy result", method=method,
                                       chunked=got.tolist(), in_memory=eager.tolist(), numpy=ref.tolist()), tag="ndb")
                    break
    if desc:
        run.sample({"nd_batch_case": {k: v for k, v in desc.items() if k not in ("labels", "vals")}})


def nontrivial(case):
    sizes = case["chunks"][0]
    if len(sizes) < 2:
        return False
    off, seen = 0, []
    for s in sizes:
        seen.append({l for l in case["labels"][off:off + s] if l != "nan"})
        off += s
    allg = set().union(*seen)
    in_two = any(sum(g in b for b in seen) >= 2 for g in allg)
    lacking = any(g not in b for b in seen for g in allg)
    return in_two and lacking


def run(run: C.Run):
    rng = random.Random(run.seed)
    proofs_ok = P.front(run, translators=("registry",))
    thorough = run.tier == "thorough"
    cases = F.corpus("C02")
    if thorough:
        cases += exhaustive_chunkings(rng, 7, 2)
        cases += gen_cases(rng, 6000)
        cases += dense_cases(rng, 3000)
    else:
        cases += exhaustive_chunkings(rng, 5, 1)
        cases += gen_cases(rng, 1300)
        cases += dense_cases(rng, 400)
    R.check_reduce_cases(run, cases, "C02", nontrivial, grouped_fn=grouped_fn, vs_eager=True)
    R.check_reduce_cases(run, same_extremes_cases(rng, 1500 if thorough else 300), "C02", nontrivial, grouped_fn=grouped_fn, vs_eager=True)
    # large inputs: eager / NumPy oracle only (not sent to the Coq model)
    R.check_reduce_cases(run, big_cases(rng, 250 if thorough else 40), "C02", nontrivial, grouped_fn=grouped_fn, vs_eager=True, model=False)
    from tools.lib import fuzz as Z
    Z.run_stream(run, rng, 2500 if thorough else 260, "C02")
    # labels discovered at compute time under order-sensitive reductions (disjoint / descending / all-missing blocks): chunked = in memory
    from tools.props.c06 import unknown_label_cases
    unknown_label_cases(run, rng, 1000 if thorough else 120, pid="C02")
    nd_batch_cases(run, rng, 1500 if thorough else 250)
    if not proofs_ok and not run.violations:
        run.violation({"property": "C02", "kind": "proof obligation no longer checks",
                       "failed": P.failed_obligations(run), "searched": run.cov["evaluations"]},
                      nofail=True, tag="obligation")
    run.cov["rule"] = (
        "groupby_reduce on dask input vs the SAME call on in-memory input (values and labels), and vs the NumPy oracle and "
        "the Coq pipeline model; all compositions of the axis for n<=5 (quick) / 7 (thorough) x method {None,map-reduce,cohorts,"
        "blockwise} x reindex {None,True,False}, plus random cases n<=12, <=4 groups, missing labels, numpy/dask labels, "
        "engines numpy/flox/auto, expected exact/superset/subset/absent, split_every 2/3/default; refusals (ValueError/"
        "NotImplementedError) are counted, not compared; plus value arrays with a leading batch axis and 1-3-D labels over many blocks / 3-D block grids (block-alternating, product and random label patterns, split_every 2/3/default) under every method vs in-memory and NumPy; plus large cases (600-2500 elements, 280-800 groups, 12-40 blocks) vs eager and NumPy only; non-trivial: >=2 blocks, a group in >=2 blocks and a block lacking a group")


def replay(run: C.Run, path):
    import json

    rp = json.load(open(path))
    if "case" in rp:
        R.check_reduce_cases(run, [rp["case"]], run.pid, nontrivial, grouped_fn=grouped_fn, vs_eager=True)
    else:
        P.front(run)
        if any(not o[1] for o in run.obligations):
            run.violation(rp, nofail=True, tag="replayed")
