"""C04 — chunk/combine/finalize decomposition exact; fills neutral; user Aggregations."""
from __future__ import annotations

import itertools
import random

from tools.lib import common as C
from tools.lib import findings as F
from tools.lib import gen as G
from tools.lib import proofs as P
from tools.lib import reduce_suite as R

LEVEL = "proof"
FUNCS = G.REDUCE_FUNCS + G.BOOL_FUNCS


def make_case(func, vals, labels, chunks, reindex, split_every, fill=None, method="map-reduce", min_count=None):
    c = {
        "func": func, "vals": vals, "labels": labels, "expected": [0, 1] if 1 in labels or fill is not None else [0],
        "chunks": [list(chunks)], "method": method, "reindex": reindex, "engine": "numpy",
        "split_every": split_every,
    }
    if func in G.BOOL_FUNCS:
        c["dtype"] = "bool"
        c["vals"] = [bool(v) if not isinstance(v, str) else True for v in vals]
    if fill is not None:
        c["fill_value"] = fill
    if min_count is not None:
        c["min_count"] = min_count
        c.setdefault("fill_value", -7)
    if func in ("var", "nanvar", "std", "nanstd"):
        c["ddof"] = 0
    return c


def nontrivial(case):
    """>=2 blocks and some block lacks a group (or holds it only as NaN) while another block has it"""
    sizes = case["chunks"][0]
    if len(sizes) < 2:
        return False
    off, seen = 0, []
    for s in sizes:
        labs = case["labels"][off:off + s]
        vals = case["vals"][off:off + s]
        seen.append({l for l, v in zip(labs, vals) if v != "nan"})
        off += s
    allg = set().union(*seen)
    return any(g not in blk for blk in seen for g in allg)


def gen_cases(rng, n, funcs=FUNCS):
    cases = []
    while len(cases) < n:
        func = rng.choice(funcs)
        m = rng.randint(2, 6)
        vals = G.rand_vals(rng, m, p_special=0.3)
        two = rng.random() < 0.8
        labels = [rng.randrange(2) for _ in range(m)] if two else [0] * m
        chunks = G.random_composition(rng, m, 3)
        fill = rng.choice([None, None, -7]) if set(labels) == {0, 1} or not two else -7
        if not two:
            fill = rng.choice([None, -7])
        cases.append(make_case(func, vals, labels, chunks, rng.choice([True, False]), rng.choice([2, 4]), fill,
                               method=rng.choice(["map-reduce", "map-reduce", "cohorts"]),
                               min_count=rng.choice([None, None, None, 1, 2, 3])))
    return cases


def exhaustive_cases(alphabet, maxlen, funcs):
    """the C04 quantifier literally: all value sequences over the alphabet up to maxlen, all splits into
    <=3 ordered parts; empty parts are realised by a second group occupying the block"""
    for func in funcs:
        for m in range(1, maxlen + 1):
            for vals in itertools.product(alphabet, repeat=m):
                for chunks in G.compositions(m, 3):
                    yield make_case(func, list(vals), [0] * m, chunks, True, 2, None)
                    if m >= 2:
                        yield make_case(func, list(vals), [0] * m, chunks, False, 2, None, min_count=2)
                # group 0's members interleaved with a block owned by group 1 (= empty part for group 0)
                for pos in range(m + 1):
                    v2 = list(vals[:pos]) + [1] + list(vals[pos:])
                    l2 = [0] * pos + [1] + [0] * (m - pos)
                    ch = tuple(x for x in (pos, 1, m - pos) if x > 0)
                    yield make_case(func, v2, l2, ch, False, 2, None)


USER_AGGS = """
import numpy as np, flox
from flox.aggregations import Aggregation
from flox import xrdtypes as dt
def _range_fin(mx, mn): return mx - mn
def _rms_fin(ss, n):
    with np.errstate(all='ignore'): return ss / n
USER = {
 'range': Aggregation('range', numpy=None, chunk=('max','min'), combine=('max','min'), finalize=_range_fin,
                      fill_value=(dt.NINF, dt.INF), final_fill_value=dt.NA, final_dtype=np.floating),
 'meansq': Aggregation('meansq', numpy=None, chunk=('sum_of_squares','nanlen'), combine=('sum','sum'), finalize=_rms_fin,
                      fill_value=(0, 0), dtypes=(None, np.intp), final_dtype=np.floating),
 # DIFFERENT user aggregations that share a name (a definition reworked during a session), and one named like a built-in:
 # each must be combined with ITS OWN combine functions
 'mine_max': Aggregation('mine', numpy='max', chunk='max', combine='max', fill_value=dt.NINF, final_fill_value=dt.NA),
 'mine_sum': Aggregation('mine', numpy='sum', chunk='sum', combine='sum', fill_value=0, final_fill_value=dt.NA),
 'mine_min': Aggregation('mine', numpy='min', chunk='min', combine='min', fill_value=dt.INF, final_fill_value=dt.NA),
 'sum_named_max': Aggregation('sum', numpy='max', chunk='max', combine='max', fill_value=dt.NINF, final_fill_value=dt.NA),
}
"""


def user_agg_cases(rng, n):
    """user-defined Aggregation objects run through the same machinery on 2-3 block arrays"""
    import warnings

    import dask
    import dask.array as da
    import numpy as np

    ns = {}
    exec(USER_AGGS, ns)  # noqa: S102
    import flox

    bad, done = [], 0
    for _ in range(n):
        name = rng.choice(list(ns["USER"]))
        m = rng.randint(2, 7)
        vals = np.array([float(rng.choice(G.ALPHA_FINITE)) for _ in range(m)])
        labels = np.array([rng.randrange(2) for _ in range(m)])
        if set(labels.tolist()) != {0, 1}:
            continue
        chunks = G.random_composition(rng, m, 3)
        want = []
        for g in (0, 1):
            x = vals[labels == g]
            want.append({"range": x.max() - x.min(), "meansq": (x ** 2).sum() / len(x), "mine_max": x.max(), "mine_sum": x.sum(), "mine_min": x.min(),
                         "sum_named_max": x.max()}[name])
        with warnings.catch_warnings(), dask.config.set(scheduler="sync", split_every=2):
            warnings.simplefilter("ignore")
            for reindex in (True, False):
                try:
                    res, _ = flox.groupby_reduce(da.from_array(vals, chunks=(chunks,)), labels, func=ns["USER"][name],
                                                 expected_groups=np.array([0, 1]), method="map-reduce",
                                                 reindex=reindex, engine="numpy", fill_value=np.nan)
                    got = np.asarray(res.compute()).tolist()
                except Exception as e:  # noqa: BLE001
                    got = repr(e)
                done += 1
                if not (isinstance(got, list) and np.allclose(got, want, equal_nan=True)):
                    bad.append({"user_aggregation": name, "vals": vals.tolist(), "labels": labels.tolist(),
                                "chunks": list(chunks), "reindex": reindex, "got": got, "want": want})
    return done, bad


def lawful_report():
    """which registry entries fail lawful_dec (needs only Agg.vo + Registry.vo)"""
    text = (
        "From Coq Require Import ZArith String List Bool.\nFrom Flox Require Import Val Agg Registry.\nImport ListNotations.\n"
        "Eval vm_compute in (map a_name (filter (fun a => negb (lawful_dec a)) aggregations)).\n"
    )
    ok, out = C.coq_eval(text, "lawful_report", "C04", timeout=120)
    import re

    return re.findall(r'"([^"]+)"', out) if ok else None


def run(run: C.Run):
    rng = random.Random(run.seed)
    proofs_ok = P.front(run, translators=("registry",))
    thorough = run.tier == "thorough"
    suspects = []
    if not proofs_ok:
        suspects = lawful_report() or []
        run.extra["unlawful_registry_entries"] = suspects

    # replay corpus first, then generated cases
    cases = F.corpus("C04")
    if thorough:
        alpha = [-1, 0, 2, "nan", "inf", "-inf"]
        cases += list(exhaustive_cases(alpha, 3, G.REDUCE_FUNCS))
        cases += gen_cases(rng, 4000)
        run.cov["exhaustive"] = True
    else:
        cases += gen_cases(rng, 1400)
    if suspects:
        # targeted search: the C04 quantifier on the entries whose obligation broke
        sus = [f for f in suspects if f in FUNCS]
        if sus:
            cases += list(exhaustive_cases([-2, -1, 0, 1, 2, "nan", "inf", "-inf"], 3 if not thorough else 4, sus))
    R.check_reduce_cases(run, cases, "C04", nontrivial)

    n_user, bad_user = user_agg_cases(rng, 60 if not thorough else 600)
    run.extra["user_aggregation_runs"] = n_user
    for b in bad_user[:3]:
        run.violation({"property": "C04", "kind": "user Aggregation object disagrees with NumPy", **b,
                       "how_to_run": "see tools/props/c04.py:user_agg_cases"}, tag="user")

    if not proofs_ok and not run.violations:
        run.violation({"property": "C04", "kind": "proof obligation no longer checks",
                       "failed": P.failed_obligations(run), "unlawful_registry_entries": suspects,
                       "searched": run.cov["evaluations"]}, nofail=True, tag="obligation")
    run.cov["rule"] = (
        "flox.groupby_reduce on a dask array (engine=numpy, map-reduce, reindex True/False, split_every 2/4) vs the NumPy "
        "oracle per group AND vs the Coq model (Cases.model_ok/spec_ok evaluated by vm_compute); values over "
        "{-2..2, NaN, +-inf}, 1-2 groups, <=3 ordered parts; a case is non-trivial when >=2 blocks and some block "
        "lacks a group (or has it only as NaN) that another block has; distinct = distinct JSON of the case")


def replay(run: C.Run, path):
    import json

    rp = json.load(open(path))
    if "case" in rp:
        R.check_reduce_cases(run, [rp["case"]], run.pid, nontrivial)
    else:
        P.front(run)
        if any(not o[1] for o in run.obligations):
            run.violation(rp, nofail=True, tag="replayed")
