"""C06 — position-sensitive reductions respect global positions across chunk boundaries."""
from __future__ import annotations

import random

from tools.lib import common as C
from tools.lib import findings as F
from tools.lib import gen as G
from tools.lib import proofs as P
from tools.lib import reduce_suite as R

LEVEL = "proof"
FUNCS = G.ARG_FUNCS + ["first", "last", "nanfirst", "nanlast"]


def grouped_fn(case, rec):
    return True


def place_extremes(rng, vals, labels, chunks, func):
    """put ties of the extreme and NaNs at positions b-1, b of chunk boundaries"""
    off, bounds = 0, []
    for c in chunks[:-1]:
        off += c
        bounds.append(off)
    if not bounds:
        return vals
    ext = 9 if "max" in func else -9
    for b in rng.sample(bounds, k=min(len(bounds), rng.randint(1, 2))):
        g = labels[b]
        for p in (b - 1, b):
            if rng.random() < 0.7:
                labels[p] = g
                vals[p] = ext if rng.random() < 0.7 else ("nan" if func.startswith("nan") else ext)
    return vals


def gen_cases(rng, n, exhaustive_upto=0):
    out = []
    if exhaustive_upto:
        for m in range(2, exhaustive_upto + 1):
            for chunks in G.compositions(m):
                for func in FUNCS:
                    labels = [rng.randrange(2) for _ in range(m)]
                    vals = [rng.choice([-1, 0, 3, 3]) for _ in range(m)]
                    out.append(mk(rng, func, vals, labels, chunks))
    while len(out) < n:
        func = rng.choice(FUNCS)
        m = rng.randint(2, 12)
        ng = rng.randint(1, 3)
        labels = G.rand_labels(rng, m, ng)
        if rng.random() < 0.2:
            labels = [l if rng.random() > 0.15 else "nan" for l in labels]
        vals = [rng.choice([-2, -1, 0, 1, 1, 2, 2]) for _ in range(m)]
        if func.startswith("nan"):
            vals = [v if rng.random() > 0.2 else "nan" for v in vals]
        if rng.random() < 0.15 and func in ("nanargmax", "nanargmin", "nanfirst", "nanlast"):
            vals = [v if rng.random() > 0.15 else rng.choice(["inf", "-inf"]) for v in vals]
        chunks = list(G.random_composition(rng, m))
        if rng.random() < 0.15:
            chunks = [1] * m
        if rng.random() < 0.1:
            chunks = [m]
        vals = place_extremes(rng, vals, labels, chunks, func)
        out.append(mk(rng, func, vals, labels, chunks))
    return out


def mk(rng, func, vals, labels, chunks):
    present = sorted({x for x in labels if x != "nan"})
    c = {"func": func, "vals": vals, "labels": labels, "chunks": [list(chunks)], "engine": "numpy",
         "method": rng.choice([None, "map-reduce", "cohorts"]), "split_every": rng.choice([2, 2, 3, None]),
         "expected": present}
    if func in ("first", "last"):
        c["method"] = "blockwise"
        order = sorted(range(len(labels)), key=lambda i: (labels[i] == "nan", labels[i] if labels[i] != "nan" else 0))
        c["labels"] = [labels[i] for i in order]
        c["vals"] = [vals[i] for i in order]
    if rng.random() < 0.2:
        c["expected"] = sorted(set(present) | {7})
        c["fill_value"] = -1
    if not c["expected"]:
        c.pop("expected")
    return c


def nontrivial(case):
    """the group's extreme (or a tie of it) occurs in >= 2 blocks, or NaNs sit next to a boundary"""
    sizes = case["chunks"][0]
    if len(sizes) < 2:
        return False
    import math

    from tools.lib import impl as I

    off, per_block = 0, []
    for s in sizes:
        per_block.append(list(zip(case["labels"][off:off + s], case["vals"][off:off + s])))
        off += s
    for g in {l for l in case["labels"] if l != "nan"}:
        vs = [I.unf(v) for l, v in zip(case["labels"], case["vals"]) if l == g and v != "nan"]
        if not vs:
            continue
        ext = max(vs) if "max" in case["func"] or "last" in case["func"] else min(vs)
        if sum(any(l == g and v != "nan" and I.unf(v) == ext for l, v in blk) for blk in per_block) >= 2:
            return True
    return False


def unknown_label_cases(run, rng, n, pid="C06"):
    """order-sensitive reductions with labels held in a DASK array and no expected_groups (discovered at compute time): blocks whose label
    sets are disjoint and not in ascending order, blocks whose labels are all missing, labels shared between blocks; chunked vs in-memory
    (values, returned labels in ascending order, dtype)"""
    from tools.lib import fuzz as Z

    c = None
    for _ in range(n):
        nb = rng.randint(2, 5)
        pool = rng.sample([0.0, 1.0, 2.0, 3.0, 5.0, 8.0], k=rng.randint(2, 5))
        style = rng.choice(["disjoint-descending", "disjoint-random", "shared", "with-missing-block"])
        labels, chunks = [], []
        order = sorted(pool, reverse=True) if style == "disjoint-descending" else rng.sample(pool, len(pool))
        for b in range(nb):
            size = rng.randint(1, 4)
            if style in ("disjoint-descending", "disjoint-random"):
                lab = [order[b % len(order)]] * size if b < len(order) else ["nan"] * size
            elif style == "with-missing-block" and b == rng.randrange(nb):
                lab = ["nan"] * size
            else:
                lab = [rng.choice(pool) for _ in range(size)]
            labels += lab
            chunks.append(size)
        if all(x == "nan" for x in labels):
            continue
        func = rng.choice(["argmax", "argmin", "nanargmax", "nanargmin", "nanfirst", "nanlast", "first", "last"])
        vals = [float(rng.choice([-2, -1, 0, 1, 2, 2, 3])) for _ in labels]
        if func.startswith("nan"):
            vals = [v if rng.random() > 0.2 else "nan" for v in vals]
            # the property speaks of nanarg* / nanfirst only for groups that are not entirely NaN: keep one valid member per group
            for g in {x for x in labels if x != "nan"}:
                idx = [i for i, x in enumerate(labels) if x == g]
                if all(vals[i] == "nan" for i in idx):
                    vals[rng.choice(idx)] = float(rng.randint(-2, 3))
        c = {"func": func, "dtype": "float64", "bshape": [], "lshape": [len(labels)], "vals": vals,
             "groupers": [{"shape": [len(labels)], "labels": labels, "dtype": "float64", "expected": None}],
             "engine": "numpy", "sort": True, "chunks": [chunks], "method": rng.choice([None, "map-reduce"]), "reindex": None,
             "split_every": rng.choice([None, 2]), "by_dask": True}
        eager = Z.evaluate(c, False)
        if eager[0] != "Ok":
            continue
        chunked = Z.evaluate(c, True)
        run.count("unk|" + str(c), len(chunks) > 1)
        d = Z.compare(c, eager, chunked)
        if d == "REFUSED":
            run.extra["refused_cases"] = run.extra.get("refused_cases", 0) + 1
        elif d:
            run.violation({"property": pid, "kind": "labels discovered at compute time: the chunked evaluation differs from the in-memory evaluation: " + d, "request": c,
                           "in_memory": [eager[1].tolist(), [g.tolist() for g in eager[2]], eager[3]],
                           "chunked": [chunked[1].tolist(), [g.tolist() for g in chunked[2]], chunked[3]] if chunked[0] == "Ok" else list(chunked)}, tag="unk")
    if c:
        run.sample({"unknown_label_case": {k: v for k, v in c.items() if k != "vals"}})


def aligned_run_cases(run, rng, n):
    """order-sensitive reductions on values with leading (kept) axes, labels in sorted runs and chunk boundaries EXACTLY on run boundaries
    (every group inside one block, one block along the leading axes): whatever plan the automatic choice takes, the reported position is
    the position in the WHOLE array"""
    from tools.lib import fuzz as Z

    c = None
    for _ in range(n):
        ngroups = rng.randint(2, 5)
        runs = [rng.randint(1, 4) for _ in range(ngroups)]
        labels = [g for g, r in enumerate(runs) for _ in range(r)]
        m = len(labels)
        cuts = [sum(runs[:i]) for i in range(1, ngroups)]
        pts = [0] + sorted(rng.sample(cuts, k=rng.randint(1, len(cuts)))) + [m]
        bshape = [rng.randint(1, 3) for _ in range(rng.choice([0, 1, 1, 2]))]
        func = rng.choice(["argmax", "argmin", "nanargmax", "nanargmin", "nanfirst", "nanlast"])
        nvals = m
        for b in bshape:
            nvals *= b
        vals = [float(rng.choice([-2, -1, 0, 1, 2, 2, 3])) for _ in range(nvals)]
        c = {"func": func, "dtype": "float64", "bshape": bshape, "lshape": [m], "vals": vals,
             "groupers": [{"shape": [m], "labels": labels, "dtype": "int64", "expected": rng.choice([None, list(range(ngroups))])}],
             "engine": "numpy", "sort": True, "chunks": [[b] if rng.random() < 0.7 else [1] * b for b in bshape] + [[b - a for a, b in zip(pts, pts[1:])]],
             "method": rng.choice([None, None, None, "cohorts", "map-reduce"]), "reindex": None, "split_every": None, "by_dask": False}
        if c["groupers"][0]["expected"] is not None:
            c["fill_value"] = -1
        eager = Z.evaluate(c, False)
        if eager[0] != "Ok":
            continue
        chunked = Z.evaluate(c, True)
        run.count("aligned|" + str(c), True)
        d = Z.compare(c, eager, chunked)
        if d == "REFUSED":
            run.extra["refused_cases"] = run.extra.get("refused_cases", 0) + 1
        elif d:
            run.violation({"property": "C06", "kind": "groups confined to blocks, leading axes: the chunked evaluation differs from the in-memory evaluation: " + d, "request": c,
                           "in_memory": [eager[1].tolist(), [g.tolist() for g in eager[2]], eager[3]],
                           "chunked": [chunked[1].tolist(), [g.tolist() for g in chunked[2]], chunked[3]] if chunked[0] == "Ok" else list(chunked)}, tag="aligned")
    if c:
        run.sample({"aligned_run_case": {k: v for k, v in c.items() if k != "vals"}})


def large_first_last_cases(run, rng, n):
    """first / last / nanfirst / nanlast on LARGE unsorted inputs (300-900 elements, well beyond any small-array code path), every engine
    given explicitly, in memory and chunked: the positionally first / last (valid) member of every group, computed by a plain loop"""
    import warnings

    import dask
    import dask.array as da
    import numpy as np

    import flox

    for _ in range(n):
        m = rng.randint(300, 900)
        ng = rng.randint(2, 7)
        labels = np.array([rng.randrange(ng) for _ in range(m)])
        isfloat = rng.random() < 0.6
        vals = np.arange(m, dtype=float) * 3 + 1 if isfloat else np.arange(m, dtype="int64") * 3 + 1      # all different: the member is identifiable
        if isfloat:
            vals[np.array([rng.random() < 0.3 for _ in range(m)])] = np.nan
        func = rng.choice(["nanfirst", "nanlast"] if isfloat else ["first", "last", "nanfirst", "nanlast"])
        engine = rng.choice(["flox", "flox", "numpy", "numbagg"])
        chunks = rng.choice([None, None, tuple(G.random_composition(rng, m, 4))])
        if chunks is not None and func in ("first", "last"):
            func = "nan" + func
        want = []
        for g in range(ng):
            mem = vals[labels == g]
            ok = mem[~np.isnan(mem)] if isfloat else mem
            want.append((ok[0] if func.endswith("first") else ok[-1]) if len(ok) else np.nan)
        try:
            with warnings.catch_warnings(), dask.config.set(scheduler="sync"):
                warnings.simplefilter("ignore")
                arr = vals if chunks is None else da.from_array(vals, chunks=(chunks,))
                r, _ = flox.groupby_reduce(arr, labels, func=func, engine=engine, expected_groups=np.arange(ng), fill_value=np.nan if isfloat else -1,
                                           method=None if chunks is None else rng.choice([None, "map-reduce", "cohorts"]))
                got = np.asarray(r.compute() if hasattr(r, "compute") else r, dtype=float)
        except (ValueError, NotImplementedError):
            run.extra["refused_cases"] = run.extra.get("refused_cases", 0) + 1
            continue
        run.count(f"largefl|{m}|{ng}|{func}|{engine}|{chunks}|{int(vals[~np.isnan(vals)].sum()) if isfloat else int(vals.sum())}", True)
        w = np.array([(-1 if (not isfloat and x != x) else x) for x in want], dtype=float)
        if not np.allclose(got, w, equal_nan=True):
            run.violation({"property": "C06", "kind": "first/last of a large unsorted input is not the positionally first/last (valid) member of the group",
                           "func": func, "engine": engine, "n": m, "ngroups": ng, "chunks": None if chunks is None else list(chunks), "dtype": str(vals.dtype),
                           "labels": labels.tolist(), "nan_positions": np.nonzero(np.isnan(vals))[0].tolist() if isfloat else [],
                           "values": "arange(n)*3+1 (NaN at nan_positions)", "got": got.tolist(), "want": w.tolist()}, tag="largefl")


def run(run: C.Run):
    rng = random.Random(run.seed)
    proofs_ok = P.front(run, translators=("registry",))
    thorough = run.tier == "thorough"
    cases = F.corpus("C06") + gen_cases(rng, 7000 if thorough else 1600, exhaustive_upto=7 if thorough else 5)
    R.check_reduce_cases(run, cases, "C06", nontrivial, grouped_fn=grouped_fn, vs_eager=True)
    # many groups, many ties, many blocks (not sent to the Coq model)
    R.check_reduce_cases(run, G.tie_heavy_cases(rng, 300 if thorough else 50), "C06", nontrivial, grouped_fn=grouped_fn, vs_eager=True, model=False)
    if not proofs_ok and not run.violations:
        run.violation({"property": "C06", "kind": "proof obligation no longer checks", "failed": P.failed_obligations(run)},
                      nofail=True, tag="obligation")
    unknown_label_cases(run, rng, 1500 if run.tier == "thorough" else 200)
    aligned_run_cases(run, rng, 1500 if run.tier == "thorough" else 200)
    large_first_last_cases(run, rng, 600 if run.tier == "thorough" else 80)
    from tools.lib import fuzz as Z
    Z.run_stream(run, rng, 1500 if run.tier == "thorough" else 160, "C06",
                 funcs=["argmax", "argmin", "nanargmax", "nanargmin", "first", "last", "nanfirst", "nanlast"])
    run.cov["rule"] = (
        "arg*/nanarg*/first/last/nanfirst/nanlast on dask input: all chunkings of axes of length <=5 (quick) / 7 (thorough) plus "
        "random cases <=12 elements with ties of the extreme and NaNs placed at positions b-1, b of chunk boundaries, size-1 "
        "chunks and single chunks, methods map-reduce/cohorts/auto (blockwise for first/last), split_every 2/3/default; compared "
        "with the eager result, the NumPy oracle (global index of the first occurrence) and the Coq arg-reduction model; "
        "non-trivial = the extreme of some group occurs in >=2 blocks")


def replay(run: C.Run, path):
    rp = C.json.load(open(path))
    if "case" in rp:
        R.check_reduce_cases(run, [rp["case"]], run.pid, nontrivial, grouped_fn=grouped_fn, vs_eager=True)
    else:
        P.front(run)
