"""C03 — independence of reduction-tree shape, task order, scheduler."""
from __future__ import annotations

import math
import random
import warnings

from tools.lib import common as C
from tools.lib import gen as G
from tools.lib import graphs as GR
from tools.lib import impl as I
from tools.lib import proofs as P
from tools.lib import reduce_suite as R

LEVEL = "proof"


def real_tree(n, k, method, batch=False):
    """run a real reduction over n single-element blocks (one group, value 2**i in block i) with
    split_every=k and record, by wrapping flox's combine function, the tree that was evaluated"""
    import dask
    import dask.array as da
    import numpy as np

    import flox
    import flox.core as fc

    nodes, keep, roots = {}, [], []
    orig = fc._simple_combine

    def spy(x_chunk, agg, axis, keepdims, **kw):
        res = orig(x_chunk, agg, axis, keepdims, **kw)
        from dask.core import flatten

        kids = []
        items = x_chunk if isinstance(x_chunk, list) else [x_chunk]
        for c in flatten(items):
            if id(c) in nodes:
                kids.append(nodes[id(c)])
            else:
                v = float(np.asarray(c["intermediates"][0]).reshape(-1)[0])
                kids.append(("L", int(round(math.log2(v)))))
        node = ("N", kids)
        nodes[id(res)] = node
        keep.append(res)
        if kw.get("is_aggregate"):
            roots.append(node)
        return res

    fc._simple_combine = spy
    try:
        vals = np.array([2.0 ** i for i in range(n)])
        labels = np.zeros(n, dtype=int)
        with warnings.catch_warnings(), dask.config.set(scheduler="sync", split_every=k):
            warnings.simplefilter("ignore")
            if batch:
                # a leading axis that is kept (one block): the tree must still be built from the n blocks of the REDUCED axis
                arr = da.from_array(np.stack([vals, vals]), chunks=((2,), (1,) * n))
            else:
                arr = da.from_array(vals, chunks=1)
            r, _ = flox.groupby_reduce(arr, labels, func="sum", method=method, engine="numpy", expected_groups=np.array([0]))
            val = float(np.asarray(r.compute()).reshape(-1)[0])
    finally:
        fc._simple_combine = orig
    assert len(roots) == 1, roots
    return roots[0], val


def ser(t):
    if t[0] == "L":
        return [0, t[1]]
    out = [1, len(t[1])]
    for c in t[1]:
        out += ser(c)
    return out


def leaves(t):
    return [t[1]] if t[0] == "L" else [x for c in t[1] for x in leaves(c)]


def max_arity(t):
    return 0 if t[0] == "L" else max([len(t[1])] + [max_arity(c) for c in t[1]])


def k4_trees(run, nmax):
    cases, shapes = [], []
    for method, batch in (("map-reduce", False), ("cohorts", False), ("map-reduce", True), ("cohorts", True)):
        for n in range(1, nmax + 1):
            ks = sorted(set(range(2, min(n, 9) + 1)) | {n, max(2, n // 2)}) if n >= 2 else [2]
            if batch:
                ks = [k for k in ks if k in (2, 3, 4, n)]
            for k in ks:
                tree, val = real_tree(n, k, method, batch)
                lv = leaves(tree)
                run.count(f"tree|{method}|{n}|{k}|{batch}", n > k)
                ok = lv == list(range(n)) and max_arity(tree) <= max(k, 1) and val == float(2 ** n - 1)
                if not ok:
                    run.violation({"property": "C03", "kind": "reduction tree does not cover the blocks exactly once in order",
                                   "n_blocks": n, "split_every": k, "method": method, "leading_kept_axis": batch, "leaves": lv, "value": val,
                                   "how_to_run": "tools/props/c03.py:real_tree(n, k, method)"}, tag="tree")
                cases.append((n, k, ser(tree), method))
    run.sample({"tree_case": {"n": cases[-1][0], "split_every": cases[-1][1], "method": cases[-1][3], "serialised": cases[-1][2]}})
    lits = ";\n ".join(f"({n}%nat, {k}%nat, {C.list_lit([str(x) + '%nat' for x in s])})" for n, k, s, _ in cases)
    text = ("From Coq Require Import List Arith.\nFrom Flox Require Import ListX Cases C03Proofs.\nImport ListNotations.\n"
            f"Definition cases : list (nat * nat * list nat) := [\n {lits}\n].\n"
            "Eval vm_compute in (failing tree_case_ok cases).\n")
    ok, out = C.coq_eval(text, "trees", "C03", timeout=600)
    lists = C.parse_nat_list(out)
    good = ok and len(lists) == 1 and not lists[0]
    run.extra["tree_shapes_compared_with_model"] = len(cases)
    run.oblige("correspondence:K4 real reduction trees == Coq build_tree (all n, split_every)", good,
               "" if good else (out[-300:] + str([cases[i][:2] + (cases[i][3],) for i in (lists[0] if lists else [])][:5])))
    return good


def flox_tree_cases(run, rng, nmax, extra):
    """K2: flox.dask_array_ops._tree_reduce called directly on a fake ArrayLayer (n blocks along the reduced axis, optionally a
    leading kept axis with several blocks, every split_every): the tree it wires for the cohort's single output key is rebuilt
    from the graph dictionary and compared with FloxTree.flox_tree; the number of levels it used must satisfy n <= k^depth"""
    import flox.dask_array_ops as ops
    from flox.lib import ArrayLayer

    def rebuild(dsk, key, leafname, red_pos):
        if key[0] == leafname:
            return ("L", int(key[red_pos]))
        task = dsk[key]
        from dask.core import flatten
        return ("N", [rebuild(dsk, kk, leafname, red_pos) for kk in flatten([task[1]])])

    todo = [(n, k, 0) for n in range(1, nmax + 1) for k in sorted({2, 3, 4, 5, 8, n, max(2, n // 2)}) if k >= 2]
    todo += [(n, k, lead) for n in (5, 16, 17, 19, 20, 27, 28) for k in (2, 3, 4) for lead in (1, 3)]
    for _ in range(extra):
        k = rng.choice([2, 3, 4, 4, 6, 8, 16])
        j = rng.randint(1, 4)
        n = max(1, min(700, k ** j + rng.choice([-1, 0, 1, 2])))
        todo.append((n, k, rng.choice([0, 0, 2])))
    coq = []
    for n, k, lead in todo:
        chunks = (((1,) * lead,) if lead else ()) + ((1,) * n,)
        axis = (len(chunks) - 1,)
        dsk = {}
        try:
            ops._tree_reduce(ArrayLayer(layer={}, chunks=chunks, name="leaf"), name="out", out_dsk=dsk, aggregate=lambda *a, **kw: None,
                             combine=lambda *a, **kw: None, axis=axis, block_index=0, split_every=k)
        except Exception as e:  # noqa: BLE001
            run.violation({"property": "C03", "kind": f"_tree_reduce raised {type(e).__name__}: {str(e)[:100]}", "n_blocks": n, "split_every": k, "leading_blocks": lead}, tag="ftree")
            continue
        depth = len({key[0] for key in dsk if "-partial-" in str(key[0])}) + 1
        run.count(f"ftree|{n}|{k}|{lead}", n > k)
        for li in (range(lead) if lead else [None]):
            out_key = ("out",) + ((li,) if li is not None else ()) + (0,)
            try:
                tree = rebuild(dsk, out_key, "leaf", len(chunks))
                lv = leaves(tree)
            except Exception as e:  # noqa: BLE001
                tree, lv = None, f"cannot rebuild: {type(e).__name__} {e}"
            if lv != list(range(n)):
                run.violation({"property": "C03", "kind": "the tree wired by _tree_reduce does not reduce every block of the cohort exactly once, in order",
                               "n_blocks": n, "split_every": k, "leading_kept_blocks": lead, "leading_index": li, "levels_used": depth, "blocks_reduced": lv,
                               "how_to_run": "tools/props/c03.py:flox_tree_cases (flox.dask_array_ops._tree_reduce on a fake ArrayLayer)"}, tag="ftree")
                break
            coq.append(f"({n}%nat, {k}%nat, {depth}%nat, {C.list_lit([str(x) + '%nat' for x in ser(tree)])})")
    texts = {f"ftree_{i // 400}": ("From Coq Require Import List Arith.\nFrom Flox Require Import ListX Cases C03Proofs.\nImport ListNotations.\n"
                                   "Definition cases : list (nat * nat * nat * list nat) := [\n " + ";\n ".join(coq[i:i + 400]) + "\n].\n"
                                   "Eval vm_compute in (failing floxtree_case_ok cases).\n") for i in range(0, len(coq), 400)}
    res = C.coq_eval_many(texts, "C03", timeout=900)
    bad = []
    for nm, (ok, out) in sorted(res.items()):
        lists = C.parse_nat_list(out)
        if not ok or len(lists) != 1:
            bad.append(out[-300:])
        elif lists[0]:
            base = int(nm.split("_")[1]) * 400
            bad.append(str([coq[base + j][:60] for j in lists[0][:3]]))
    run.extra["flox_tree_cases_compared_with_model"] = len(coq)
    run.oblige("correspondence:K2 flox.dask_array_ops._tree_reduce == FloxTree.flox_tree, and n <= k^depth for the depth it really uses", not bad, " | ".join(bad)[:800])


def k5_schedules(run, rng, ncases, norders):
    """same lazy result under split_every 2..n, sync / threaded / random topological orders (with re-execution)"""
    import dask
    import dask.array as da
    import numpy as np

    import flox

    funcs = ["sum", "nanmax", "min", "nanmean", "var", "count", "nanfirst", "nanlast", "argmax", "nanargmin", "prod"]
    for _ in range(ncases):
        func = rng.choice(funcs)
        n = rng.randint(3, 14)
        ng = rng.randint(1, 3)
        vals = G.rand_vals(rng, n, alphabet=G.ALPHA_FINITE + ["nan"], p_special=0.15 if "nan" in func or func == "count" else 0.0)
        labels = G.rand_labels(rng, n, ng)
        chunks = G.random_composition(rng, n)
        method = rng.choice(["map-reduce", "cohorts", None])
        case = {"func": func, "vals": vals, "labels": labels, "chunks": [list(chunks)], "method": method,
                "engine": "numpy", "expected": sorted(set(labels))}
        v = np.array([I.unf(x) for x in vals], dtype=float)
        lab = np.array(labels)
        results = {}
        with warnings.catch_warnings():
            warnings.simplefilter("ignore")
            eager = np.asarray(flox.groupby_reduce(v, lab, func=func, engine="numpy", expected_groups=np.array(case["expected"]))[0])
            for k in sorted({2, 3, max(2, len(chunks))} | {rng.randint(2, max(2, len(chunks)))}):
                with dask.config.set(split_every=k):
                    try:
                        r, _ = flox.groupby_reduce(da.from_array(v, chunks=(chunks,)), lab, func=func, method=method,
                                                   engine="numpy", expected_groups=np.array(case["expected"]))
                    except (ValueError, NotImplementedError):
                        continue
                    results[("sync", k)] = np.asarray(r.compute(scheduler="sync"))
                    results[("threads", k)] = np.asarray(r.compute(scheduler="threads"))
                    for j in range(norders):
                        rec = []
                        results[(f"random{j}", k)] = np.asarray(
                            r.compute(scheduler=GR.make_random_get(rng.randrange(10 ** 9), rec, reexec=0.2)))
                        for ev in rec:
                            if isinstance(ev, tuple) and ev and ev[0] == "again":
                                run.extra["tasks_reexecuted"] = run.extra.get("tasks_reexecuted", 0) + 1
        nblocks = len(chunks)
        run.count(C.json.dumps(case, sort_keys=True), nblocks >= 3)
        # outside the stated domain (C01/C06): nanarg* of a group that is entirely NaN, arg* of a group containing NaN
        keep = np.ones(len(case["expected"]), dtype=bool)
        if "arg" in func:
            for gi, g in enumerate(case["expected"]):
                mem = v[lab == g]
                if (func.startswith("nan") and (len(mem) == 0 or np.isnan(mem).all())) or (not func.startswith("nan") and np.isnan(mem).any()):
                    keep[gi] = False
        bad = [(k, a.tolist()) for k, a in results.items()
               if a.shape != eager.shape or not np.allclose(a[..., keep], eager[..., keep], equal_nan=True, rtol=1e-12, atol=0)]
        if bad:
            run.violation({"property": "C03", "kind": "result depends on split_every / scheduler / task order",
                           "case": case, "eager": eager.tolist(), "differing": [(str(k), a) for k, a in bad[:4]],
                           "how_to_run": "./check C03 --replay <this file>"}, tag="sched")
    run.sample({"schedule_case": case, "variants": [str(k) for k in results]})


def threaded_large(run, rng, n):
    """many groups (block intermediates large enough for NumPy to release the GIL), many blocks, a deep tree: several threaded
    computes (8 workers) must equal the synchronous compute and the per-group NumPy result"""
    import dask
    import dask.array as da
    import numpy as np

    import flox

    for _ in range(n):
        ng = rng.choice([1500, 3000, 4000])
        nb = rng.choice([24, 48])
        per = ng                                  # every block holds every group once, in a rotated order
        labels = np.concatenate([np.roll(np.arange(ng), rng.randrange(ng)) for _ in range(nb)])
        vals = np.arange(labels.size, dtype=float) % 97 - 40
        func = rng.choice(["sum", "nanmax", "mean", "count"])
        k = rng.choice([2, 3, 4])
        method = rng.choice(["map-reduce", "cohorts"])
        arr = da.from_array(vals, chunks=per)
        with warnings.catch_warnings(), dask.config.set(split_every=k):
            warnings.simplefilter("ignore")
            r, _ = flox.groupby_reduce(arr, labels, func=func, method=method, expected_groups=np.arange(ng), engine="numpy")
            ref = np.asarray(r.compute(scheduler="sync"))
            want = {"sum": lambda: np.bincount(labels, weights=vals, minlength=ng), "count": lambda: np.bincount(labels, minlength=ng).astype(float),
                    "mean": lambda: np.bincount(labels, weights=vals, minlength=ng) / np.bincount(labels, minlength=ng),
                    "nanmax": lambda: np.array([vals[g::ng].max() for g in range(0)] or [0])}[func]() if func != "nanmax" else None
            bad = None
            if want is not None and not np.allclose(ref, want):
                bad = "the synchronous result differs from the per-group NumPy result"
            for rep in range(3):
                got = np.asarray(r.compute(scheduler="threads", num_workers=8))
                if not np.array_equal(got, ref, equal_nan=True):
                    bad = f"threaded compute #{rep + 1} (8 workers) differs from the synchronous compute in {int((got != ref).sum())} of {ng} groups"
                    break
        run.count(f"thrlarge|{ng}|{nb}|{func}|{k}|{method}", True)
        if bad:
            run.violation({"property": "C03", "kind": "scheduler dependence: " + bad, "ngroups": ng, "nblocks": nb, "func": func, "split_every": k, "method": method,
                           "how_to_run": "labels = concatenate of nblocks rotations of arange(ngroups); vals = arange(size) % 97 - 40; chunks = ngroups; "
                                         "groupby_reduce(dask, labels, expected_groups=arange(ngroups), engine='numpy').compute(scheduler='threads', num_workers=8) vs scheduler='sync'"},
                          tag="thr")


def k5_scans(run, rng, ncases, norders):
    """grouped scans: sync / threaded / random topological orders (with re-execution) vs the eager scan"""
    import dask.array as da
    import numpy as np

    import flox

    for _ in range(ncases):
        func = rng.choice(["nancumsum", "nancumsum", "ffill", "bfill"])
        n = rng.randint(3, 14)
        vals = G.rand_vals(rng, n, alphabet=G.ALPHA_FINITE + ["nan"], p_special=0.2)
        labels = G.rand_labels(rng, n, rng.randint(1, 3))
        chunks = G.random_composition(rng, n)
        case = {"scan": func, "vals": vals, "labels": labels, "chunks": [list(chunks)]}
        v = np.array([I.unf(x) for x in vals], dtype=float)
        lab = np.array(labels)
        results = {}
        with warnings.catch_warnings():
            warnings.simplefilter("ignore")
            try:
                eager = np.asarray(flox.groupby_scan(v, lab, func=func))
                r = flox.groupby_scan(da.from_array(v, chunks=(chunks,)), lab, func=func)
            except (ValueError, NotImplementedError):
                continue
            results["sync"] = np.asarray(r.compute(scheduler="sync"))
            results["threads"] = np.asarray(r.compute(scheduler="threads"))
            for j in range(norders):
                rec = []
                results[f"random{j}"] = np.asarray(r.compute(scheduler=GR.make_random_get(rng.randrange(10 ** 9), rec, reexec=0.2)))
        run.count(C.json.dumps(case, sort_keys=True), len(chunks) >= 3)
        bad = [(k, a.tolist()) for k, a in results.items() if not np.allclose(a, eager, equal_nan=True, rtol=1e-12, atol=0)]
        if bad:
            run.violation({"property": "C03", "kind": "grouped scan depends on scheduler / task order / re-execution",
                           "case": case, "eager": eager.tolist(), "differing": [(str(k), a) for k, a in bad[:4]]}, tag="scan")
    run.sample({"scan_schedule_case": case})


def run(run: C.Run):
    rng = random.Random(run.seed)
    proofs_ok = P.front(run, translators=("registry",), extra_targets=("Proofs/C03Proofs.vo",))
    thorough = run.tier == "thorough"
    k4_trees(run, 40 if thorough else 18)
    flox_tree_cases(run, rng, 80 if thorough else 40, 600 if thorough else 120)
    k5_schedules(run, rng, 300 if thorough else 50, 6 if thorough else 2)
    k5_scans(run, rng, 300 if thorough else 60, 6 if thorough else 3)
    threaded_large(run, rng, 12 if thorough else 3)
    # deep / wide trees with ties: every split_every must give the eager answer (not sent to the Coq model)
    big = []
    for c in G.tie_heavy_cases(rng, 80 if thorough else 14):
        nb = len(c["chunks"][0])
        big += [dict(c, split_every=k) for k in sorted({2, 4, max(2, nb)})]
    R.check_reduce_cases(run, big, "C03", lambda case: True, vs_eager=True, model=False)
    if (not proofs_ok or any(not o[1] for o in run.obligations)) and not run.violations:
        run.violation({"property": "C03", "kind": "proof obligation / correspondence no longer checks",
                       "failed": P.failed_obligations(run)}, nofail=True, tag="obligation")
    run.assumptions += [
        "real thread interleavings and the dask schedulers are outside Coq: the theorem is about an abstract executor whose only "
        "assumptions are task atomicity and purity (purity is C13); K5 runs sync/threaded/random-order schedulers",
        "float non-associativity is outside the model: K5 uses exactly representable data"]
    run.cov["rule"] = (
        "K4: for n blocks (1..18 quick / 40 thorough) and every split_every in 2..min(n,9) plus n and n//2, for dask's tree "
        "(map-reduce) and flox's own _tree_reduce (cohorts), the tree actually evaluated (recorded by wrapping _simple_combine; "
        "block i carries 2**i) must have leaves 0..n-1 in order, arity <= split_every, and equal the Coq build_tree shape; "
        "K2: flox's _tree_reduce called directly on fake layers (n up to 700 around powers of the fan-in, leading kept axes) vs FloxTree.flox_tree incl. n <= k^depth; "
        "K5: random lazy reductions computed under several split_every, sync, threaded and random topological orders with "
        "re-execution of finished tasks, all compared with the eager result; the same for grouped scans (nancumsum/ffill/bfill); non-trivial = tree deeper than one level / >=3 blocks")


def replay(run: C.Run, path):
    rp = C.json.load(open(path))
    P.front(run, translators=("registry",), extra_targets=("Proofs/C03Proofs.vo",))
    if "n_blocks" in rp:
        tree, val = real_tree(rp["n_blocks"], rp["split_every"], rp["method"])
        if leaves(tree) != list(range(rp["n_blocks"])):
            run.violation(rp, tag="tree")
    elif "case" in rp:
        k5_schedules(run, random.Random(run.seed), 20, 2)
