"""C18 — grouped order statistics match NumPy's linear-interpolation quantiles."""
from __future__ import annotations

import fractions
import itertools
import random
import warnings

from tools.lib import common as C
from tools.lib import findings as F
from tools.lib import gen as G
from tools.lib import impl as I
from tools.lib import proofs as P
from tools.props.c07 import eval_simple

LEVEL = "proof"
QS = [fractions.Fraction(i, 8) for i in range(9)]


def one_case(run, rng, sizes, nan_counts, q, skipna, engine, batch, coq):
    import numpy as np

    import flox

    ng = len(sizes)
    vals, labels = [], []
    groups = []
    for g, (n, nn) in enumerate(zip(sizes, nan_counts)):
        vs = [float(rng.randint(-6, 6)) for _ in range(n)]
        groups.append(vs)
        vals += vs + [float("nan")] * nn
        labels += [g] * (n + nn)
    order = list(range(len(vals)))
    rng.shuffle(order)                       # unsorted labels
    vals = np.array([vals[i] for i in order])
    labels = np.array([labels[i] for i in order])
    arr = vals if not batch else np.stack([vals, vals[::-1] * 1.0])
    lab = labels
    scalar = not isinstance(q, list)
    qf = float(q) if scalar else [float(x) for x in q]
    func = ("nan" if skipna else "") + ("median" if (scalar and q == fractions.Fraction(1, 2) and rng.random() < 0.3) else "quantile")
    kw = {} if func.endswith("median") else {"finalize_kwargs": {"q": qf}}
    with warnings.catch_warnings():
        warnings.simplefilter("ignore")
        try:
            res, _ = flox.groupby_reduce(arr, lab, func=func, engine=engine, expected_groups=np.arange(ng), fill_value=np.nan, **kw)
        except (ValueError, NotImplementedError):
            run.extra["refused_cases"] = run.extra.get("refused_cases", 0) + 1
            return
        res = np.asarray(res, dtype=float)
        npf = np.nanquantile if skipna else np.quantile
        rows = [vals, vals[::-1]] if batch else [vals]
        labs = [labels, labels] if not batch else [labels, labels]
        want = []
        for row in rows:
            per_g = []
            for g in range(ng):
                mem = row[lab == g] if not batch else row[labels == g]
                per_g.append(npf(mem, qf) if len(mem) else np.full(np.shape(qf), np.nan))
            want.append(np.stack(per_g, axis=-1))
        want = np.stack(want, axis=-2) if batch else want[0]
    key = f"q|{sizes}|{nan_counts}|{q}|{skipna}|{engine}|{batch}|{vals.tolist()}"
    run.count(key, ng > 1 and any(nan_counts))
    exp_shape = (() if scalar else (len(q),)) + ((2,) if batch else ()) + (ng,)
    if res.shape != exp_shape or not np.allclose(res, want, equal_nan=True, rtol=1e-12, atol=1e-12):
        case = {"sizes": sizes, "nan_counts": nan_counts, "q": str(q), "skipna": skipna, "engine": engine, "batch": batch,
                "vals": [I.fnum(x) for x in vals], "labels": labels.tolist(), "func": func}
        run.violation({"property": "C18", "kind": "grouped quantile differs from numpy.quantile/nanquantile of the group's members",
                       "case": case, "got": [I.fnum(x) for x in res.reshape(-1)], "got_shape": list(res.shape),
                       "want": [I.fnum(x) for x in np.asarray(want).reshape(-1)], "want_shape": list(exp_shape)}, tag="q")
        return
    if engine == "flox" and scalar and not batch:
        impl = [C.xq_lit(x) for x in res.reshape(-1)]
        coq.append(f"({'true' if skipna else 'false'}, {q.numerator}, {q.denominator}, "
                   f"{C.list_lit([C.list_lit([C.zlit(int(v)) for v in gvs]) for gvs in groups])}, "
                   f"{C.list_lit([str(n) for n in nan_counts])}, {C.list_lit(impl)})")


def refusal_cases(run, rng, n):
    """on chunked input order statistics are computed only when every group lies in one block"""
    import dask.array as da
    import numpy as np

    import flox

    for _ in range(n):
        m = rng.randint(4, 10)
        labels = np.array(sorted(rng.randrange(3) for _ in range(m)))
        vals = np.array([float(rng.randint(-5, 5)) for _ in range(m)])
        func = rng.choice(["median", "nanmedian", "quantile", "nanquantile"])
        kw = {} if "median" in func else {"finalize_kwargs": {"q": 0.25}}
        cuts = [i for i in range(1, m) if labels[i] != labels[i - 1]]
        aligned = rng.random() < 0.5
        if aligned:
            pts = [0] + sorted(rng.sample(cuts, k=rng.randint(0, len(cuts)))) + [m]
        else:
            inner = [i for i in range(1, m) if i not in cuts]
            if not inner:
                continue
            pts = sorted({0, m, rng.choice(inner)})
        chunks = tuple(b - a for a, b in zip(pts, pts[1:]))
        if rng.random() < 0.35:
            # every block holds ONE group and every group spans several blocks (the planner prefers cohorts here)
            per, ng = rng.randint(2, 3), rng.randint(2, 3)
            csz = rng.randint(1, 2)
            labels = np.repeat(np.arange(ng), per * csz)
            m = len(labels)
            vals = np.array([float(rng.randint(-5, 5)) for _ in range(m)])
            chunks = (csz,) * (per * ng)
        blocks_of = {}
        off = 0
        for bi, c in enumerate(chunks):
            for g in set(labels[off:off + c].tolist()):
                blocks_of.setdefault(g, set()).add(bi)
            off += c
        straddles = any(len(b) > 1 for b in blocks_of.values())
        arr = da.from_array(vals, chunks=(chunks,))
        for method in (None, "map-reduce", "cohorts", "blockwise"):
            run.count(f"ref|{labels.tolist()}|{chunks}|{func}|{method}", True)
            try:
                with warnings.catch_warnings():
                    warnings.simplefilter("ignore")
                    res, _ = flox.groupby_reduce(arr, labels, func=func, method=method, engine="flox", **kw)
                    got = np.asarray(res.compute(), dtype=float)
            except (ValueError, NotImplementedError):
                continue
            except Exception as e:  # noqa: BLE001
                run.violation({"property": "C18", "kind": "internal error instead of a refusal", "labels": labels.tolist(),
                               "chunks": list(chunks), "func": func, "method": method, "exc": repr(e)[:200]}, tag="ref")
                continue
            npf = {"median": np.median, "nanmedian": np.nanmedian}.get(func) or (lambda a: getattr(np, func)(a, 0.25))
            want = np.array([npf(vals[labels == g]) for g in np.unique(labels)])
            # computed: allowed only when every group lies within one block (an explicit method='blockwise' rechunks 1-D labels first)
            if method in ("map-reduce", "cohorts") or (method is None and straddles) or got.shape != want.shape or not np.allclose(got, want, equal_nan=True):
                run.violation({"property": "C18", "kind": "order statistic computed on chunked input although groups straddle blocks, or wrong",
                               "labels": labels.tolist(), "chunks": list(chunks), "func": func, "method": method,
                               "got": got.tolist(), "want": want.tolist()}, tag="ref")


def several_q_chunked(run, rng, n):
    """'for each requested q': several lazy order statistics of ONE chunked array, differing only in q / in median vs quantile,
    evaluated together (one graph), each compared with NumPy on its group's members"""
    import dask
    import dask.array as da
    import numpy as np

    import flox

    for _ in range(n):
        m = rng.randint(4, 12)
        labels = np.array(sorted(rng.randrange(3) for _ in range(m)))
        vals = np.array([float(rng.randint(-5, 5)) for _ in range(m)])
        if rng.random() < 0.5:
            vals[rng.randrange(m)] = np.nan
        cuts = [i for i in range(1, m) if labels[i] != labels[i - 1]]
        pts = [0] + sorted(rng.sample(cuts, k=rng.randint(0, len(cuts)))) + [m]
        chunks = tuple(b - a for a, b in zip(pts, pts[1:]))
        func = rng.choice(["quantile", "nanquantile"])
        qs = rng.sample([0.0, 0.125, 0.25, 0.5, 0.75, 1.0], k=rng.randint(2, 3))
        if rng.random() < 0.3:
            qs = [[qs[0], qs[1]], [qs[1], qs[0]]]           # vectors of the same length
        arr = da.from_array(vals, chunks=(chunks,))
        try:
            with warnings.catch_warnings():
                warnings.simplefilter("ignore")
                lazies = [flox.groupby_reduce(arr, labels, func=func, method=rng.choice([None, "blockwise"]), engine="flox",
                                              finalize_kwargs={"q": q})[0] for q in qs]
                got = [np.asarray(x, dtype=float) for x in dask.compute(*lazies, scheduler="sync")]
        except (ValueError, NotImplementedError):
            continue
        npf = np.quantile if func == "quantile" else np.nanquantile
        run.count(f"multiq|{vals.tolist()}|{labels.tolist()}|{chunks}|{func}|{qs}", True)
        for q, g in zip(qs, got):
            with warnings.catch_warnings():
                warnings.simplefilter("ignore")
                want = np.stack([npf(vals[labels == k], q) for k in np.unique(labels)], axis=-1)
            if g.shape != want.shape or not np.allclose(g, want, equal_nan=True):
                run.violation({"property": "C18", "kind": "order statistics for several q of one chunked array, evaluated together, are not NumPy's for each q",
                               "vals": [I.fnum(x) for x in vals], "labels": labels.tolist(), "chunks": list(chunks), "func": func, "qs": qs, "q": q,
                               "got": [I.fnum(x) for x in g.reshape(-1)], "want": [I.fnum(x) for x in want.reshape(-1)]}, tag="multiq")
                break


def run(run: C.Run):
    rng = random.Random(run.seed)
    P.front(run, translators=())
    thorough = run.tier == "thorough"
    coq = []
    maxsize = 7 if thorough else 5
    # every (size, NaN count, q) for a middle group flanked by two others
    for n in range(0, maxsize + 1):
        for nn in range(0, 3):
            if n + nn == 0:
                continue
            for q in QS:
                for skipna in (False, True):
                    one_case(run, rng, [rng.randint(1, 3), n, rng.randint(1, 3)], [rng.randint(0, 1), nn, 0], q, skipna, "flox", False, coq)
    run.cov["exhaustive"] = True
    for _ in range(4000 if thorough else 700):
        ng = rng.randint(1, 4)
        sizes = [rng.randint(0, 6) for _ in range(ng)]
        nans = [rng.randint(0, 2) if s else rng.randint(1, 2) for s in sizes]
        q = rng.choice(QS) if rng.random() < 0.6 else sorted(rng.sample(QS, k=rng.randint(1, 3)), reverse=rng.random() < 0.5)
        eng = rng.choice(["flox", "flox", "numpy", None])
        one_case(run, rng, sizes, nans, q, rng.random() < 0.5, eng, rng.random() < 0.3, coq)
    run.sample({"quantile_case": coq[-1] if coq else None})
    eval_simple(run, "quant", "quantile_case_ok", coq, "correspondence:K2 Quantile.flox_quantile == flox (engine='flox') == Quantile.spec_quantile")
    refusal_cases(run, rng, 300 if thorough else 60)
    several_q_chunked(run, rng, 400 if thorough else 80)
    if any(not o[1] for o in run.obligations) and not run.violations:
        run.violation({"property": "C18", "kind": "proof obligation / correspondence no longer checks",
                       "failed": P.failed_obligations(run)}, nofail=True, tag="obligation")
    run.assumptions.append("np.partition on the complex (label + i*value) encoding is modelled as: labels ascending, valid values ascending within a label, all NaNs last")
    run.cov["rule"] = (
        f"every (group size 0..{maxsize}, NaN count 0..2, q in {{0,1/8,..,1}}, skipna) for a group flanked by two others (exhaustive), plus "
        "random cases with 1-4 groups, unsorted labels, scalar and vector q (any order), engines flox/numpy/auto, a leading batch "
        "dimension; compared with numpy.quantile / nanquantile of each group's members (values, shape incl. the leading q axis) and, for "
        "the flox engine, with the Coq model; chunked input: computed only for method blockwise/auto when groups do not straddle "
        "blocks, refused otherwise; non-trivial = several groups and NaNs present")


def replay(run: C.Run, path):
    P.front(run, translators=())
    rp = C.json.load(open(path))
    c = rp.get("case")
    if c:
        coq = []
        q = fractions.Fraction(c["q"]) if "[" not in c["q"] else [fractions.Fraction(x) for x in c["q"].strip("[]").replace("Fraction(", "").replace(")", "").split(", ") if x]
        one_case(run, random.Random(run.seed), c["sizes"], c["nan_counts"], q, c["skipna"], c["engine"], c["batch"], coq)
