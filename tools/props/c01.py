"""C01 — eager result = per-group NumPy reduction, on every engine."""
from __future__ import annotations

import random
import warnings

from tools.lib import common as C
from tools.lib import findings as F
from tools.lib import gen as G
from tools.lib import impl as I
from tools.lib import proofs as P
from tools.lib import reduce_suite as R

LEVEL = "proof"
FUNCS = G.REDUCE_FUNCS + G.ARG_FUNCS + G.FIRSTLAST + G.BOOL_FUNCS
ENGINES = ["numpy", "numba", "flox", "numbagg", None]
DTYPES = ["float64", "float64", "float32", "int64", "int32", "int16", "int8", "uint8", "uint16", "uint32", "uint64", "bool"]
OPS = {"sum": "OSum", "prod": "OProd", "max": "OMax", "min": "OMin", "nansum": "ONansum", "nanprod": "ONanprod",
       "nanlen": "ONanlen", "nanmax": "ONanmax", "nanmin": "ONanmin"}


def gen_cases(rng, n):
    out = []
    while len(out) < n:
        func = rng.choice(FUNCS)
        eng = rng.choice(ENGINES)
        dtype = rng.choice(DTYPES)
        m = rng.randint(1, 12)
        ng = rng.randint(1, 5)
        labels = G.rand_labels(rng, m, ng, p_missing=rng.choice([0, 0, 0.2]))
        if all(x == "nan" for x in labels):
            continue   # every label missing and no expected_groups: C19's cell
        if dtype.startswith("float"):
            vals = G.rand_vals(rng, m, alphabet=[-3, -2, -1, 0, 1, 2, 3, "nan", "inf", "-inf"], p_special=0.25)
        elif dtype == "bool":
            vals = [rng.random() < 0.5 for _ in range(m)]
        elif dtype.startswith("uint"):
            vals = [rng.randint(0, 5) for _ in range(m)]
        else:
            vals = [rng.randint(-3, 3) for _ in range(m)]
        if func in G.BOOL_FUNCS:
            dtype, vals = "bool", [rng.random() < 0.6 for _ in range(m)]
        if func in ("argmax", "argmin"):
            vals = [v if v != "nan" else 0 for v in vals]
        if func in ("max", "min") and eng == "numba" and rng.random() < 0.9:
            vals = [v if v != "nan" else 1 for v in vals]     # KF05: mostly avoided, still sampled
        if func in ("prod", "nanprod") and dtype in ("int8", "int16", "uint8", "uint16", "int32"):
            vals = [max(-2, min(2, v)) if not isinstance(v, (str, bool)) else v for v in vals]
        if func in ("var", "nanvar", "std", "nanstd", "mean", "nanmean") and dtype == "float32":
            dtype = "float64"
        c = {"func": func, "vals": vals, "labels": labels, "engine": eng, "dtype": dtype}
        if rng.random() < 0.4:
            present = sorted({x for x in labels if x != "nan"})
            c["expected"] = sorted(set(present) | ({ng + 2} if rng.random() < 0.5 else set()))
            if any(e not in present for e in c["expected"]) or rng.random() < 0.3:
                c["fill_value"] = rng.choice(["nan", -5, 0])
        if func in ("var", "nanvar", "std", "nanstd"):
            c["ddof"] = rng.choice([0, 1])
        if not c.get("expected") and "expected" in c:
            c.pop("expected")
        out.append(c)
    return out


def wide_code_cases(rng, n):
    """few elements, MANY requested labels: integer codes far beyond the element count (codes congruent mod 256 / 65536
    collide in any narrowed representation), unsorted, every engine"""
    out = []
    for _ in range(n):
        func = rng.choice(["sum", "nansum", "max", "nanmin", "count", "mean", "nanfirst", "last", "median", "nanmedian", "prod", "argmax"])
        eng = rng.choice(ENGINES)
        ncodes = rng.choice([300, 520, 700])
        base = rng.randint(0, 40)
        pool = [base, base + 256, base + 1, base + 257, rng.randrange(ncodes), base + 512 if base + 512 < ncodes else base + 2]
        pool = [p for p in pool if p < ncodes]
        m = rng.randint(3, 14)
        labels = [rng.choice(pool) for _ in range(m)]
        if func in ("median", "nanmedian"):
            vals = [rng.choice([-3, -1, 0, 2, 5, 7]) for _ in range(m)]
        else:
            vals = G.rand_vals(rng, m, alphabet=[-3, -2, -1, 0, 1, 2, 3, "nan"], p_special=0.1 if func.startswith("nan") or func == "count" else 0.0)
        if func == "argmax":
            vals = [v if v != "nan" else 0 for v in vals]
        out.append({"func": func, "vals": vals, "labels": labels, "engine": eng, "dtype": "float64",
                    "expected": list(range(ncodes)), "fill_value": -99})
    return out


def kernel_cases(run, rng, n):
    """K2: generic_aggregate (the engine dispatch + wrappers) called directly"""
    import numpy as np

    from flox.aggregations import generic_aggregate

    coq, bad = [], 0
    for _ in range(n):
        func = rng.choice(list(OPS))
        eng = rng.choice(["flox", "numpy", "numba"])
        m = rng.randint(1, 10)
        size = rng.randint(1, 4)
        codes = [rng.randrange(size) for _ in range(m)]
        vals = G.rand_vals(rng, m, alphabet=[-2, -1, 0, 1, 2, "nan", "inf", "-inf"], p_special=0.3)
        if func in ("max", "min") and eng == "numba":
            vals = [v if v != "nan" else 1 for v in vals]    # third-party kernel: KF03 (checked end to end)
        fill = rng.choice([-99, 0, "nan"]) if func != "nanlen" else 0
        if func in ("nanmax", "nanmin", "max", "min"):
            fill = rng.choice([-99, "nan", "-inf" if "max" in func else "inf"])
        arr = np.array([I.unf(v) for v in vals], dtype=float)
        idx = np.array(codes)
        if eng == "flox":   # chunk_reduce sorts once for the flox engine before dispatching
            from flox.aggregate_flox import _prepare_for_flox
            idx, arr, _ = _prepare_for_flox(idx, arr)
        with warnings.catch_warnings():
            warnings.simplefilter("ignore")
            try:
                res = generic_aggregate(idx, arr, engine=eng, func=func, size=size, fill_value=I.unf(fill),
                                        dtype=np.dtype("float64") if func != "nanlen" else np.dtype("int64"))
            except Exception as e:  # noqa: BLE001
                run.violation({"property": "C01", "kind": "generic_aggregate raised", "func": func, "engine": eng,
                               "codes": codes, "vals": vals, "exc": repr(e)[:200]}, tag="kern")
                continue
        run.count(f"kern|{func}|{eng}|{codes}|{vals}|{fill}", len(set(codes)) > 1)
        coq.append(f"({0 if eng == 'flox' else 1}, {OPS[func]}, {C.xval_lit(I.unf(fill))}, {size}%nat, "
                   f"{C.list_lit([C.zlit(c) for c in codes])}, {C.list_lit([C.xval_lit(I.unf(v)) for v in vals])}, "
                   f"{C.list_lit([C.xval_lit(x) for x in np.asarray(res, dtype=float)])})")
    run.sample({"kernel_case": {"func": func, "engine": eng, "codes": codes, "vals": vals, "fill": fill}})
    hdr = "From Coq Require Import ZArith List Bool.\nFrom Flox Require Import Val Agg Cases.\nImport ListNotations.\nOpen Scope Z_scope.\n"
    texts = {f"k_{i // 800}": hdr + "Definition cases := [\n " + ";\n ".join(coq[i:i + 800]) + "\n].\nEval vm_compute in (failing kernel_case_ok cases).\n"
             for i in range(0, len(coq), 800)}
    res = C.coq_eval_many(texts, "C01")
    nb, logs = 0, []
    for name, (ok, out) in sorted(res.items()):
        lists = C.parse_nat_list(out)
        if not ok or len(lists) != 1:
            nb += 1
            logs.append(out[-300:])
        elif lists[0]:
            nb += len(lists[0])
            base = int(name.split("_")[1]) * 800
            logs.append(str([coq[base + j] for j in lists[0][:2]]))
    run.extra["kernel_cases_evaluated_in_coq"] = len(coq)
    run.oblige("correspondence:K2 Engines.flox_kernel / npg_kernel == flox.aggregations.generic_aggregate", nb == 0, " | ".join(logs)[:1200])


def nontrivial(case):
    labs = [x for x in case["labels"] if x != "nan"]
    return len(set(labs)) > 1 and (labs != sorted(labs) or G.has_special(case["vals"]))


def run(run: C.Run):
    rng = random.Random(run.seed)
    proofs_ok = P.front(run, translators=("registry",))
    thorough = run.tier == "thorough"
    kernel_cases(run, rng, 8000 if thorough else 1600)
    cases = F.corpus("C01") + gen_cases(rng, 12000 if thorough else 2500)
    R.check_reduce_cases(run, cases, "C01", nontrivial, full=True)
    # many requested labels on a float grid / sparse ids with repeated UNREQUESTED labels in the data (C05's stream, every engine)
    from tools.props.c05 import wide_cases as _wide
    wc = [dict(c, engine=rng.choice(ENGINES)) for c in _wide(rng, 600 if thorough else 150) if "chunks" not in c]
    R.check_reduce_cases(run, wc, "C01", nontrivial, full=True, model=False)
    # wide label spaces: compared with the NumPy oracle only (400-700 slots per case are not sent to Coq)
    R.check_reduce_cases(run, wide_code_cases(rng, 1500 if thorough else 300), "C01", nontrivial, full=True, model=False)
    # narrow integer data whose group totals / member counts leave the input width (C20's stream, in memory, every engine): the per-group
    # NumPy reduction accumulates in the platform integer / float64
    from tools.props.c20 import int_cases as _ints
    ic = [c for c in _ints(rng, 3000 if thorough else 500) if "chunks" not in c]
    R.check_reduce_cases(run, ic, "C01", nontrivial, full=False, model=False)
    F.probe_kf05(run)
    if any(not o[1] for o in run.obligations) and not run.violations:
        run.violation({"property": "C01", "kind": "proof obligation / correspondence no longer checks",
                       "failed": P.failed_obligations(run)}, nofail=True, tag="obligation")
    run.cov["rule"] = (
        "K2: generic_aggregate called directly for engines flox/numpy/numba x 9 kernels on values over {-2..2,NaN,+-inf}, compared "
        "exactly with the Coq engine models; K3: eager groupby_reduce for 27 reductions x engines {numpy,numba,flox,numbagg,auto} x "
        "10 dtypes, 1-12 elements, 1-5 groups, unsorted labels with missing entries, optional expected_groups/fill, compared with "
        "the per-group NumPy reduction (restrictions of the property: arg* on NaN-free groups, nanarg* on not-all-NaN groups, "
        "any/all on bool) and with the Coq model (Factorize + Spec); non-trivial = >1 group and (unsorted labels or NaN/inf data)")


def replay(run: C.Run, path):
    rp = C.json.load(open(path))
    if "case" in rp:
        R.check_reduce_cases(run, [rp["case"]], run.pid, nontrivial, full=True)
    else:
        P.front(run)
