"""C08 — partial-axis reductions and leading (batch) dimensions are independent slices."""
from __future__ import annotations

import itertools
import random
import warnings

from tools.lib import common as C
from tools.lib import gen as G
from tools.lib import impl as I
from tools.lib import proofs as P
from tools.props.c07 import eval_simple

LEVEL = "proof"
NPF = {"sum": "sum", "nansum": "nansum", "max": "max", "nanmin": "nanmin", "count": None, "mean": "mean", "nanmean": "nanmean",
       "min": "min", "prod": "prod"}


def offset_cases(run, rng, n):
    import numpy as np

    import flox.core as fc

    coq = []
    for _ in range(n):
        rows, m, ng = rng.randint(1, 4), rng.randint(1, 5), rng.randint(1, 4)
        lab = np.array([[rng.randrange(-1, ng) for _ in range(m)] for _ in range(rows)])
        off, size = fc.offset_labels(lab.copy(), ng)
        run.count(f"off|{lab.tolist()}|{ng}", rows > 1)
        if size != rows * ng:
            run.violation({"property": "C08", "kind": "offset_labels size", "labels": lab.tolist(), "ngroups": ng, "size": int(size)}, tag="off")
        coq.append(f"({ng}, {C.list_lit([C.list_lit([C.zlit(int(x)) for x in r]) for r in lab])}, "
                   f"{C.list_lit([C.zlit(int(x)) for x in off.reshape(-1)])})")
    eval_simple(run, "offset", "offset_case_ok", coq, "correspondence:K2 Binning.offset_code == flox.core.offset_labels")


def plumbing_cases(run, rng, max_dim, max_size, extra_random):
    """K2, exhaustive: _collapse_axis(_move_reduce_dims_to_end(arr, axis), len(axis)) for EVERY shape of <= max_dim dims with sizes
    1..max_size and EVERY non-empty ordered subset of its axes, on arr = arange(N).reshape(shape), vs NdShape.plumb"""
    import itertools

    import numpy as np

    import flox.core as fc

    coq = []
    todo = []
    for nd in range(1, max_dim + 1):
        for shp in itertools.product(range(1, max_size + 1), repeat=nd):
            for k in range(1, nd + 1):
                for axis in itertools.permutations(range(nd), k):
                    todo.append((shp, axis))
    for _ in range(extra_random):      # larger / higher-dimensional random cases
        nd = rng.randint(2, 5)
        shp = tuple(rng.randint(1, 5) for _ in range(nd))
        axis = tuple(rng.sample(range(nd), k=rng.randint(1, nd)))
        todo.append((shp, axis))
    for shp, axis in todo:
        arr = np.arange(int(np.prod(shp))).reshape(shp)
        out = fc._collapse_axis(fc._move_reduce_dims_to_end(arr, axis), len(axis))
        run.count(f"plumb|{shp}|{axis}", len(axis) < len(shp))
        nat = lambda xs: C.list_lit([f"{int(x)}%nat" for x in xs])  # noqa: E731
        coq.append(f"({nat(shp)}, {nat(axis)}, {nat(out.shape)}, {C.list_lit([C.zlit(int(x)) for x in out.reshape(-1)])})")
    run.extra["plumbing_cases (exhaustive shapes x ordered axis subsets + random)"] = len(todo)
    eval_simple(run, "plumb", "plumb_case_ok", coq,
                "correspondence:K2 NdShape.plumb == flox.core._collapse_axis(_move_reduce_dims_to_end(arr, axis), len(axis))")


def oracle_nd(func, vals, labels, axis, ngroups):
    """slice-by-slice evaluation: for every index of the kept dims, NumPy reduction per group of the 1-D slice"""
    import numpy as np

    nd, ld = vals.ndim, labels.ndim
    ax = sorted(a % nd for a in axis)
    lab_b = np.broadcast_to(labels, vals.shape[nd - ld:])
    keep = [d for d in range(nd) if d not in ax]
    out = np.full([vals.shape[d] for d in keep] + [ngroups], np.nan)
    for idx in itertools.product(*[range(vals.shape[d]) for d in keep]):
        sl = [slice(None)] * nd
        for d, i in zip(keep, idx):
            sl[d] = i
        v = vals[tuple(sl)].reshape(-1)
        lsl = [slice(None)] * ld
        for d, i in zip(keep, idx):
            if d >= nd - ld:
                lsl[d - (nd - ld)] = i
        l = lab_b[tuple(lsl)].reshape(-1)
        for g in range(ngroups):
            mem = v[l == g]
            if len(mem) == 0 or np.isnan(mem).all():
                continue
            with warnings.catch_warnings():
                warnings.simplefilter("ignore")
                out[idx + (g,)] = np.sum(~np.isnan(mem)) if func == "count" else getattr(np, NPF[func])(mem)
    return out


def nd_cases(run, rng, n, max_dim):
    import dask
    import dask.array as da
    import numpy as np

    import flox

    for _ in range(n):
        nd = rng.randint(1, 4)
        ld = rng.randint(1, min(3, nd))
        shape = [rng.randint(1, max_dim) for _ in range(nd)]
        ng = rng.randint(1, 3)
        func = rng.choice(list(NPF))
        vals = np.array([float(rng.choice(G.ALPHA_FINITE)) for _ in range(int(np.prod(shape)))]).reshape(shape)
        if func in ("nansum", "nanmin", "count", "nanmean"):
            vals[np.array([rng.random() < 0.15 for _ in range(vals.size)]).reshape(shape)] = np.nan
        lshape = shape[nd - ld:]
        if rng.random() < 0.2:   # size-1 label axes broadcast against the array
            lshape = [1 if (rng.random() < 0.4 and i < len(lshape) - 1) else s for i, s in enumerate(lshape)]
        labels = np.array([rng.choice(list(range(ng)) + [np.nan]) for _ in range(int(np.prod(lshape)))], dtype=float).reshape(lshape)
        k = rng.randint(1, ld)
        axes = rng.sample(range(nd - ld, nd), k)
        if rng.random() < 0.5:
            axes = [a - nd for a in axes]    # negative
        rng.shuffle(axes)
        axis = tuple(axes) if (len(axes) > 1 or rng.random() < 0.5) else axes[0]
        want = oracle_nd(func, vals, labels, axes, ng)
        eager_ok = False
        for mode in ("eager", "dask", "dask-oneblock"):
            arr = vals
            method = None
            if mode == "dask":
                arr = da.from_array(vals, chunks=tuple(G.random_composition(rng, s, 3) for s in shape))
                method = rng.choice([None, None, "map-reduce", "cohorts"])
            elif mode == "dask-oneblock":
                # one block along every label axis (blockwise applies, and is what the automatic choice takes)
                arr = da.from_array(vals, chunks=tuple(G.random_composition(rng, s, 3) if i < nd - ld else (s,) for i, s in enumerate(shape)))
                method = rng.choice([None, "blockwise", "map-reduce"])
            try:
                with warnings.catch_warnings(), dask.config.set(scheduler="sync"):
                    warnings.simplefilter("ignore")
                    res, _ = flox.groupby_reduce(arr, labels, func=func, axis=axis, expected_groups=np.arange(ng, dtype=float),
                                                 fill_value=np.nan, engine=rng.choice(["numpy", "flox"]), method=method)
                    res = np.asarray(res.compute() if hasattr(res, "compute") else res, dtype=float)
                if mode == "eager":
                    eager_ok = True
            except (ValueError, NotImplementedError) as e:
                if mode != "eager" and eager_ok and not (method in ("blockwise", "cohorts") and k < ld):
                    # the same request succeeds in memory: a chunked refusal is a difference (C02), not a refusal class
                    run.violation({"property": "C08", "kind": "chunked run raises where the in-memory run succeeds",
                                   "func": func, "mode": mode, "method": method, "shape": shape, "label_shape": list(lshape), "axis": list(axes),
                                   "vals": [I.fnum(x) for x in vals.reshape(-1)], "labels": [I.fnum(x) for x in labels.reshape(-1)],
                                   "chunks": [list(c) for c in arr.chunks], "exc": repr(e)[:300]}, tag="nd")
                    continue
                run.extra["refused_cases"] = run.extra.get("refused_cases", 0) + 1
                continue
            except Exception as e:  # noqa: BLE001
                from tools.lib import findings as F
                info = {"property": "C08", "kind": "internal error in a partial-axis / batch reduction",
                        "func": func, "mode": mode, "shape": shape, "label_shape": list(lshape), "axis": list(axes),
                        "vals": [I.fnum(x) for x in vals.reshape(-1)], "labels": [I.fnum(x) for x in labels.reshape(-1)],
                        "chunks": [list(c) for c in arr.chunks] if mode == "dask" else None, "exc": repr(e)[:300]}
                fid = F.classify_nd("C08", info)
                if fid:
                    run.known(fid, F.describe(fid))
                else:
                    run.violation(info, tag="nd")
                continue
            run.count(f"nd|{shape}|{lshape}|{axes}|{mode}|{func}|{vals.tolist()}|{labels.tolist()}", nd > 1 and k < ld or nd > ld)
            ok = res.shape == want.shape and np.allclose(res, want, equal_nan=True)
            if not ok:
                run.violation({"property": "C08", "kind": "partial-axis / batch result differs from slice-by-slice evaluation",
                               "func": func, "mode": mode, "shape": shape, "label_shape": list(lshape), "axis": list(axes),
                               "vals": [I.fnum(x) for x in vals.reshape(-1)], "labels": [I.fnum(x) for x in labels.reshape(-1)],
                               "chunks": [list(c) for c in arr.chunks] if mode == "dask" else None,
                               "got_shape": list(res.shape), "want_shape": list(want.shape),
                               "got": [I.fnum(x) for x in res.reshape(-1)][:40], "want": [I.fnum(x) for x in want.reshape(-1)][:40]}, tag="nd")
    run.sample({"nd_case": {"func": func, "shape": shape, "label_shape": list(lshape), "axis": list(axes)}})


def xr_nd_cases(run, rng, n):
    """xarray_reduce with 2-D / 3-D label variables and dim a subset of their dimensions, listed in any order: every kept index
    must hold the 1-D grouped reduction of its slice (native xarray refuses these requests, NumPy slice-by-slice is the oracle)"""
    import numpy as np
    import xarray as xr

    import flox.xarray as fx

    for _ in range(n):
        nd = rng.randint(2, 4)
        ld = rng.randint(2, min(3, nd))
        side = rng.choice([2, 3])
        # equal lengths (a cube) most of the time: a mis-aligned label array is then silently accepted
        shape = [rng.choice([2, 3]) if (i < nd - ld or rng.random() < 0.25) else side for i in range(nd)]
        names = ["a", "b", "c", "d"][:nd]
        ng = rng.randint(2, 3)
        func = rng.choice(["sum", "count", "max", "nanmean", "nansum"])
        vals = np.array([float(rng.choice(G.ALPHA_FINITE)) for _ in range(int(np.prod(shape)))]).reshape(shape)
        if func in ("count", "nanmean", "nansum"):
            vals[np.array([rng.random() < 0.15 for _ in range(vals.size)]).reshape(shape)] = np.nan
        labels = np.array([rng.randrange(ng) for _ in range(int(np.prod(shape[nd - ld:])))]).reshape(shape[nd - ld:])
        k = rng.randint(1, ld)
        red = rng.sample(names[nd - ld:], k)          # any order
        axes = [names.index(d) for d in red]
        want = oracle_nd(func, vals, labels.astype(float), axes, ng)
        kept = [d for d in names if d not in red]
        obj = xr.DataArray(vals, dims=names, name="v")
        by = xr.DataArray(labels, dims=names[nd - ld:], name="lab")
        perm = names[:]
        rng.shuffle(perm)
        variants = [("eager", obj), ("eager-transposed", obj.transpose(*perm)),
                    ("chunked", obj.chunk({d: rng.randint(1, shape[i]) for i, d in enumerate(names)}))]
        for mode, o in variants:
            try:
                with warnings.catch_warnings():
                    warnings.simplefilter("ignore")
                    res = fx.xarray_reduce(o, by, func=func, dim=red if len(red) > 1 or rng.random() < 0.5 else red[0],
                                           expected_groups=np.arange(ng), fill_value=np.nan)
                    got = np.asarray(res.transpose(*kept, "lab").compute().values, dtype=float)
            except (ValueError, NotImplementedError):
                run.extra["refused_cases"] = run.extra.get("refused_cases", 0) + 1
                continue
            run.count(f"xrnd|{shape}|{labels.tolist()}|{red}|{mode}|{func}|{vals.tolist()}", k < ld)
            if got.shape != want.shape or not np.allclose(got, want, equal_nan=True):
                run.violation({"property": "C08", "kind": "xarray_reduce over a subset of the label dims differs from slice-by-slice evaluation",
                               "func": func, "mode": mode, "dims": names, "shape": shape, "label_dims": names[nd - ld:], "dim": red,
                               "vals": [I.fnum(x) for x in vals.reshape(-1)], "labels": labels.reshape(-1).tolist(),
                               "got": [I.fnum(x) for x in got.reshape(-1)][:40], "want": [I.fnum(x) for x in want.reshape(-1)][:40]}, tag="xrnd")
                break
    run.sample({"xarray_nd_case": {"dims": names, "label_dims": names[nd - ld:], "dim": red, "func": func}})


def run(run: C.Run):
    rng = random.Random(run.seed)
    P.front(run, translators=())
    thorough = run.tier == "thorough"
    offset_cases(run, rng, 4000 if thorough else 800)
    plumbing_cases(run, rng, 4, 3 if thorough else 2, 1500 if thorough else 300)
    nd_cases(run, rng, 5000 if thorough else 700, 3)
    xr_nd_cases(run, rng, 1500 if thorough else 250)
    # slices are independent for POSITION-valued reductions too: >= 3-D values (batch axes), small chunks on the kept axes, several blocks
    # along the reduced axis; chunked vs in memory (wide stream restricted to these shapes)
    from tools.lib import fuzz as Z
    Z.run_stream(run, rng, 1500 if thorough else 220, "C08", funcs=["argmax", "argmin", "nanargmax", "nanargmin", "sum", "nanmax", "nanfirst"], force={"nbatch": 2})
    if any(not o[1] for o in run.obligations) and not run.violations:
        run.violation({"property": "C08", "kind": "proof obligation / correspondence no longer checks",
                       "failed": P.failed_obligations(run)}, nofail=True, tag="obligation")
    run.assumptions.append("numpy's transpose / C-order reshape are modelled by NdShape.v (index arithmetic), validated by the exhaustive K2 plumbing suite; "
                           "the squeeze of dummy axes, the broadcasting of size-1 label axes and the batch (leading) dimensions handled inside the kernels are validated by K3, not proved")
    run.cov["rule"] = (
        "K2: offset_labels on random (rows x n) code arrays vs the Coq offset model; K2 plumbing: every shape of <= 4 dims (sizes <= 2 quick / 3 "
        "thorough) x every ordered non-empty subset of axes + random shapes up to 5 dims vs NdShape.plumb (exact); K3: value arrays of 1-4 dims (sizes 1-3), label "
        "arrays of 1-3 dims (incl. size-1 broadcasting axes), every kind of axis argument (single int, tuples, negative, any order, "
        "proper subsets of the label dims), eager and dask chunked along every axis, engines numpy/flox, 9 reductions, missing labels "
        "spread unevenly; compared (shape and every entry) with the slice-by-slice NumPy evaluation; non-trivial = a kept label "
        "dimension or a batch dimension exists")


def replay(run: C.Run, path):
    P.front(run, translators=())
    nd_cases(run, random.Random(run.seed), 200, 3)
