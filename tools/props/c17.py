"""C17 — rechunk helpers keep the data and establish their alignment postconditions."""
from __future__ import annotations

import itertools
import random
import warnings

from tools.lib import common as C
from tools.lib import gen as G
from tools.lib import proofs as P

LEVEL = "proof"


def run_lengths(total):
    """all sequences of positive run lengths summing to total"""
    return G.compositions(total)


def labels_of_runs(runs):
    out = []
    for i, r in enumerate(runs):
        out += [i] * r
    return out


def call_blockwise(chunks, labels):
    import numpy as np

    import flox.core as fc

    # as rechunk_for_blockwise does: factorise, missing labels (NaN) keep the code -1
    lab, *_, props = fc.factorize_((np.array(labels, dtype=float),), axes=())
    if props.nanmask is not None and np.any(props.nanmask):
        lab = np.where(props.nanmask, -1, lab)
    return [int(x) for x in fc._get_optimal_chunks_for_groups(tuple(chunks), lab)], [int(x) for x in lab]


def straddles(labels, chunks):
    """groups that occur on both sides of some chunk boundary (elements with a missing label belong to no group)"""
    bad, off = [], 0
    real = lambda xs: {x for x in xs if x == x and x is not None}   # noqa: E731  (drops NaN)
    for c in chunks[:-1]:
        off += c
        if real(labels[:off]) & real(labels[off:]):
            bad.append(off)
    return bad


def check_blockwise(run, cases):
    coq = []
    for chunks, labels, sequential in cases:
        try:
            new, codes = call_blockwise(chunks, labels)
        except Exception as e:  # noqa: BLE001
            run.violation({"property": "C17", "kind": "rechunk_for_blockwise raised", "chunks": chunks, "labels": labels,
                           "exc": repr(e)[:200]}, tag="bw")
            continue
        run.count(f"bw|{chunks}|{labels}", len(chunks) > 1 and new != list(chunks))
        bad = []
        if any(c <= 0 for c in new) or sum(new) != len(labels):
            bad.append("chunks not positive or not summing to the axis length")
        if sequential and straddles(labels, new):
            bad.append(f"group straddles new boundaries at {straddles(labels, new)}")
        if bad:
            run.violation({"property": "C17", "kind": "rechunk_for_blockwise postcondition fails", "problems": bad,
                           "old_chunks": list(chunks), "labels": labels, "new_chunks": new,
                           "how_to_run": "flox.core._get_optimal_chunks_for_groups(chunks, factorized labels)"}, tag="bw")
        coq.append(f"({C.list_lit([str(c) for c in chunks])}, {C.list_lit([C.zlit(x) for x in codes])}, {C.list_lit([str(c) for c in new])})")
    run.sample({"blockwise": {"old_chunks": list(cases[-1][0]), "labels": cases[-1][1]}})
    return coq


def call_cohorts(labels, oldchunks, force, chunksize, ignore):
    import dask.array as da
    import numpy as np

    import flox.core as fc

    arr = da.zeros((len(labels),), chunks=(tuple(oldchunks),))
    out = fc.rechunk_for_cohorts(arr, axis=0, labels=np.array(labels), force_new_chunk_at=force,
                                 chunksize=chunksize, ignore_old_chunks=ignore)
    return [int(c) for c in out.chunks[0]]


def check_cohorts(run, cases):
    coq = []
    for labels, oldchunks, force, chunksize, ignore in cases:
        try:
            new = call_cohorts(labels, oldchunks, force, chunksize, ignore)
        except ValueError:
            continue   # documented refusal: forced label not present
        except Exception as e:  # noqa: BLE001
            run.violation({"property": "C17", "kind": "rechunk_for_cohorts raised", "labels": labels, "old": oldchunks,
                           "force": force, "exc": repr(e)[:200]}, tag="co")
            continue
        run.count(f"co|{labels}|{oldchunks}|{force}|{chunksize}|{ignore}", new != list(oldchunks))
        starts = set(itertools.accumulate([0] + new[:-1]))
        bad = []
        if any(c <= 0 for c in new) or sum(new) != len(labels):
            bad.append("chunks not positive or not summing to the axis length")
        miss = [i for i, lab in enumerate(labels) if lab in force and i not in starts]
        if miss:
            bad.append(f"forced label does not start a chunk at {miss}")
        if not ignore:
            old_starts = set(itertools.accumulate([0] + list(oldchunks[:-1])))
            if not old_starts <= starts:
                bad.append(f"old boundaries dropped: {sorted(old_starts - starts)}")
        if bad:
            run.violation({"property": "C17", "kind": "rechunk_for_cohorts postcondition fails", "problems": bad,
                           "labels": labels, "old_chunks": list(oldchunks), "force": force, "chunksize": chunksize,
                           "ignore_old_chunks": ignore, "new_chunks": new}, tag="co")
        coq.append(f"({C.list_lit([C.zlit(x) for x in force])}, {C.list_lit([str(c) for c in oldchunks])}, {chunksize}, "
                   f"{'true' if ignore else 'false'}, {C.list_lit([C.zlit(x) for x in labels])}, {C.list_lit([str(c) for c in new])})")
    if cases:
        run.sample({"cohorts": dict(zip(("labels", "old_chunks", "force", "chunksize", "ignore_old"), cases[-1]))})
    return coq


def k3_values(run, rng, n):
    """array / xarray flavours: same values, shape, dtype; other axes untouched; blockwise on the result is exact"""
    import dask.array as da
    import numpy as np
    import xarray as xr

    import flox
    import flox.xarray as fx

    for _ in range(n):
        runs = G.random_composition(rng, rng.randint(3, 12))
        labels = np.array(labels_of_runs(runs))
        m = len(labels)
        data = np.arange(2 * m, dtype=float).reshape(2, m) * (1 if rng.random() < 0.5 else -1)
        chunks = G.random_composition(rng, m, 4)
        ds_problem = None
        arr = da.from_array(data, chunks=((1, 1), chunks))
        with warnings.catch_warnings():
            warnings.simplefilter("ignore")
            out = flox.rechunk_for_blockwise(arr, axis=-1, labels=labels)
            ok = (out.shape == arr.shape and out.dtype == arr.dtype and out.chunks[0] == arr.chunks[0]
                  and np.array_equal(out.compute(), data) and arr.chunks[1] == tuple(chunks))
            # the PUBLIC helper with the same runs under other label VALUES (all-negative, mixed-sign, descending, float, large, string
            # labels): the postconditions do not depend on what the labels are called
            for kind, tl in (("all-negative", labels - int(labels.max()) - 3), ("mixed-sign", labels - int(labels.max()) // 2 - 1), ("descending", -labels),
                             ("float", labels * 0.5 - 1.25), ("large", labels * 1000 + 10 ** 6), ("string", np.array([f"g{int(x):02d}" for x in labels]))):
                try:
                    o2 = flox.rechunk_for_blockwise(arr, axis=-1, labels=tl)
                except Exception as e:  # noqa: BLE001
                    ok = False
                    ds_problem = {"label_values": kind, "labels": tl.tolist(), "raised": repr(e)[:200]}
                    break
                nc = list(o2.chunks[-1])
                if any(c <= 0 for c in nc) or sum(nc) != m or straddles(tl.tolist(), nc) or o2.chunks[0] != arr.chunks[0]:
                    ok = False
                    ds_problem = {"label_values": kind, "labels": tl.tolist(), "new_chunks": nc, "group_straddles_boundaries_at": straddles(tl.tolist(), nc)}
                    break
            # method='blockwise' called on the ORIGINAL chunking (the automatic rechunk happens inside groupby_reduce), with missing labels
            # placed next to chunk boundaries that cut a run: exact all the same
            ln = labels.astype(float)
            bnds = np.cumsum(chunks)[:-1]
            for b in bnds:
                if rng.random() < 0.5:
                    ln[b - 1 if rng.random() < 0.5 else b] = np.nan
            if rng.random() < 0.5:
                ln[rng.randrange(m)] = np.nan
            present = np.unique(ln[~np.isnan(ln)])
            if len(present):
                try:
                    rb, gb = flox.groupby_reduce(arr, ln, func="sum", method="blockwise")
                    rb, gb = np.asarray(rb.compute()), np.asarray(gb)
                    wb = np.stack([[row[ln == g].sum() for g in present] for row in data])
                    if not (np.array_equal(gb, present) and rb.shape == wb.shape and np.array_equal(rb, wb)):
                        ok = False
                        ds_problem = {"blockwise_with_missing_labels": ln.tolist(), "chunks": list(chunks), "got": rb.tolist(), "labels_returned": gb.tolist(), "want": wb.tolist()}
                except (ValueError, NotImplementedError):
                    pass
                except Exception as e:  # noqa: BLE001
                    ok = False
                    ds_problem = {"blockwise_with_missing_labels": ln.tolist(), "chunks": list(chunks), "raised": repr(e)[:200]}
            # a SEQUENCE of calls on the same array with different label vectors of the same length (the helper is memoised: every
            # answer must be the answer for ITS labels)
            for _k in range(6):
                rl = G.random_composition(rng, m)
                sl = np.array(labels_of_runs(rl))
                o3 = flox.rechunk_for_blockwise(arr, axis=-1, labels=sl)
                nc = list(o3.chunks[-1])
                if any(c <= 0 for c in nc) or sum(nc) != m or straddles(sl.tolist(), nc):
                    ok = False
                    ds_problem = {"call_in_a_sequence_on_the_same_array": _k, "labels": sl.tolist(), "new_chunks": nc, "group_straddles_boundaries_at": straddles(sl.tolist(), nc)}
                    break
                del sl
            res, _ = flox.groupby_reduce(out, labels, func="sum", method="blockwise")
            want = np.stack([np.bincount(labels, weights=row) for row in data])
            ok = ok and np.array_equal(np.asarray(res.compute()), want)
            ds = xr.DataArray(arr, dims=("y", "x"), coords={"lab": ("x", labels)})
            out2 = fx.rechunk_for_blockwise(ds, "x", ds.lab)
            ok = ok and out2.chunks[1] == out.chunks[1] and np.array_equal(out2.compute().values, data) and ds.chunks[1] == tuple(chunks)
            # cohorts flavours: array and xarray (DataArray and Dataset) give the same chunks and keep data / other axes / attrs
            period = rng.randint(1, 4)
            plabels = np.arange(m) % period
            force = [0]
            csize = rng.choice([2, 3, 4])
            ign = rng.random() < 0.5
            a3 = flox.rechunk_for_cohorts(arr, axis=-1, labels=plabels, force_new_chunk_at=force, chunksize=csize, ignore_old_chunks=ign)
            da3 = xr.DataArray(arr, dims=("y", "x"), coords={"lab": ("x", plabels)}, attrs={"k": 1})
            x3 = fx.rechunk_for_cohorts(da3, "x", da3.lab, force_new_chunk_at=force, chunksize=csize, ignore_old_chunks=ign)
            d3 = fx.rechunk_for_cohorts(da3.to_dataset(name="v"), "x", da3.lab, force_new_chunk_at=force, chunksize=csize, ignore_old_chunks=ign)
            ok = (ok and a3.shape == arr.shape and a3.dtype == arr.dtype and a3.chunks[0] == arr.chunks[0] and np.array_equal(a3.compute(), data)
                  and x3.chunks[1] == a3.chunks[1] and x3.chunks[0] == a3.chunks[0] and np.array_equal(x3.compute().values, data) and x3.attrs == {"k": 1}
                  and d3["v"].chunks[1] == a3.chunks[1] and np.array_equal(d3["v"].compute().values, data))
            # Datasets whose chunked variables carry `dim` at DIFFERENT positions (and an in-memory variable): every variable is
            # rechunked along `dim` exactly like the array flavour, its other dimension keeps its chunks, values are untouched
            ychunks = tuple(G.random_composition(rng, m, 3))
            dsm = xr.Dataset({"a": (("y", "x"), da.from_array(np.arange(m * m, dtype=float).reshape(m, m), chunks=(ychunks, chunks))),
                              "b": (("x", "y"), da.from_array(-np.arange(m * m, dtype=float).reshape(m, m), chunks=(chunks, ychunks))),
                              "c": (("x",), np.arange(m))}, coords={"lab": ("x", labels), "plab": ("x", plabels)})
            before = dsm.copy(deep=True).compute()
            for flavour, outds, ref in (("blockwise", fx.rechunk_for_blockwise(dsm, "x", dsm.lab), out.chunks[1]),
                                        ("cohorts", fx.rechunk_for_cohorts(dsm, "x", dsm.plab, force_new_chunk_at=force, chunksize=csize,
                                                                           ignore_old_chunks=ign), a3.chunks[1])):
                for vname in ("a", "b"):
                    v = outds[vname]
                    ax, oth = v.get_axis_num("x"), v.get_axis_num("y")
                    if not (v.dims == dsm[vname].dims and v.chunks[ax] == ref and v.chunks[oth] == ychunks
                            and np.array_equal(v.compute().values, before[vname].values)):
                        ok = False
                        ds_problem = {"flavour": flavour, "variable": vname, "dims": list(v.dims), "chunks": [list(c) for c in v.chunks],
                                      "expected_chunks_along_x": list(ref), "chunks_of_y_before": list(ychunks)}
                if outds["c"].chunks is not None or not np.array_equal(outds["c"].values, before["c"].values) or dsm["a"].chunks[1] != tuple(chunks):
                    ok = False
                    ds_problem = {"flavour": flavour, "variable": "c (in memory) or the input Dataset itself changed"}
        run.count(f"k3|{runs}|{chunks}", True)
        if not ok:
            run.violation({"property": "C17", "kind": "rechunk helper changed data / metadata or blockwise on its result is not exact",
                           "runs": list(runs), "chunks": list(chunks), "new_chunks": [list(c) for c in out.chunks],
                           "dataset_problem": ds_problem, "cohorts_call": {"period": period, "chunksize": csize, "ignore_old_chunks": ign}}, tag="k3")


def run(run: C.Run):
    rng = random.Random(run.seed)
    proofs_ok = P.front(run, translators=())
    thorough = run.tier == "thorough"
    total = 9 if thorough else 7
    bw = []
    for n in range(1, total + 1):
        for runs in run_lengths(n):
            labels = labels_of_runs(runs)
            # the same runs carrying label VALUES that are not increasing along the axis (still sequential)
            perm = list(range(len(runs)))
            rng.shuffle(perm)
            relabelled = [perm[x] for x in labels]
            # the same runs with elements whose label is missing dropped in at random places (inside runs too)
            holes = list(relabelled)
            for _ in range(rng.randint(1, 2)):
                holes[rng.randrange(n)] = float("nan")
            for chunks in G.compositions(n):
                bw.append((chunks, labels, True))
                if relabelled != labels:
                    bw.append((chunks, relabelled, True))
                if n >= 3 and rng.random() < 0.5:
                    bw.append((chunks, holes, True))
    for _ in range(3000 if thorough else 600):   # periodic / irregular (not sequential): well-formedness only
        n = rng.randint(2, 14)
        labels = G.rand_labels(rng, n, rng.randint(1, 4), style=rng.choice(["periodic", "random", "runs"]))
        bw.append((G.random_composition(rng, n), labels, False))
    run.cov["exhaustive"] = True
    coq_bw = check_blockwise(run, bw)
    co = []
    for _ in range(6000 if thorough else 1200):
        n = rng.randint(1, 14)
        period = rng.randint(1, 5)
        labels = [i % period for i in range(n)] if rng.random() < 0.6 else [rng.randrange(period) for _ in range(n)]
        force = rng.sample(range(period + 1), k=rng.randint(1, min(2, period + 1)))
        co.append((labels, G.random_composition(rng, n), force, rng.choice([1, 2, 3, 4, 7]), rng.random() < 0.5))
    coq_co = check_cohorts(run, co)
    k3_values(run, rng, 200 if thorough else 40)

    texts = {}
    hdr = "From Coq Require Import ZArith List Bool.\nFrom Flox Require Import Cases.\nImport ListNotations.\nOpen Scope Z_scope.\n"
    for i in range(0, len(coq_bw), 1500):
        texts[f"bw_{i // 1500}"] = hdr + "Definition cases := [\n " + ";\n ".join(coq_bw[i:i + 1500]) + "\n].\nEval vm_compute in (failing blockwise_case_ok cases).\n"
    for i in range(0, len(coq_co), 1500):
        texts[f"co_{i // 1500}"] = hdr + "Definition cases := [\n " + ";\n ".join(coq_co[i:i + 1500]) + "\n].\nEval vm_compute in (failing cohorts_case_ok cases).\n"
    res = C.coq_eval_many(texts, "C17")
    nbad, logs = 0, []
    for name, (ok, out) in res.items():
        lists = C.parse_nat_list(out)
        if not ok or len(lists) != 1:
            nbad += 1
            logs.append(f"{name}: {out[-300:]}")
        elif lists[0]:
            nbad += len(lists[0])
            src = coq_bw if name.startswith("bw") else coq_co
            base = int(name.split("_")[1]) * 1500
            logs.append(f"{name}: model differs on {[src[base + j] for j in lists[0][:3]]}")
    run.extra["model_cases_evaluated_in_coq"] = len(coq_bw) + len(coq_co)
    run.oblige("correspondence:K2 Rechunk.optimal_chunks / cohort_chunks == flox helpers", nbad == 0, " | ".join(logs)[:1200])
    if any(not o[1] for o in run.obligations) and not run.violations:
        run.violation({"property": "C17", "kind": "proof obligation / correspondence no longer checks",
                       "failed": P.failed_obligations(run)}, nofail=True, tag="obligation")
    run.cov["rule"] = (
        f"rechunk_for_blockwise: ALL sequential label sequences (run lengths = compositions) of total <= {total} x ALL chunkings "
        "(exhaustive) + random periodic/irregular labels; rechunk_for_cohorts: random periodic/irregular labels x chunkings x forced "
        "sets x chunksize x ignore_old_chunks; each real result is checked against the postconditions (positive, sum, no straddling "
        "for sequential labels, forced labels start chunks, old boundaries kept) AND compared with the Coq model (vm_compute); "
        "K3: array and xarray flavours keep values/shape/dtype/other axes and method='blockwise' on the result equals bincount; "
        "non-trivial = the helper actually changed the chunking")


def replay(run: C.Run, path):
    rp = C.json.load(open(path))
    P.front(run, translators=())
    if "old_chunks" in rp and "force" not in rp:
        check_blockwise(run, [(tuple(rp["old_chunks"]), rp["labels"], True)])
    elif "force" in rp:
        check_cohorts(run, [(rp["labels"], tuple(rp["old_chunks"]), rp["force"], rp["chunksize"], rp["ignore_old_chunks"])])
