"""C07 — multi-variable grouping = tuple keys; binning = pandas.cut."""
from __future__ import annotations

import itertools
import json
import random
import warnings

from tools.lib import common as C
from tools.lib import gen as G
from tools.lib import impl as I
from tools.lib import proofs as P

LEVEL = "proof"
HDR = "From Coq Require Import ZArith List Bool QArith.\nFrom Flox Require Import Val Cases.\nImport ListNotations.\nOpen Scope Z_scope.\n"


def eval_simple(run, name, fn, coq, label):
    texts = {f"{name}_{i // 1000}": HDR + "Definition cases := [\n " + ";\n ".join(coq[i:i + 1000]) + f"\n].\nEval vm_compute in (failing {fn} cases).\n"
             for i in range(0, len(coq), 1000)}
    res = C.coq_eval_many(texts, run.pid)
    nb, logs = 0, []
    for nm, (ok, out) in sorted(res.items()):
        lists = C.parse_nat_list(out)
        if not ok or len(lists) != 1:
            nb += 1
            logs.append(out[-300:])
        elif lists[0]:
            nb += len(lists[0])
            base = int(nm.rsplit("_", 1)[1]) * 1000
            logs.append(str([coq[base + j] for j in lists[0][:2]]))
    run.extra[f"{name}_cases_evaluated_in_coq"] = len(coq)
    run.oblige(label, nb == 0, " | ".join(logs)[:1200])


def binning_cases(run, rng, max_edges, extra_random):
    """exhaustive x in edges U midpoints U outside U {+-inf, NaN} for all edge lists (halves allowed)"""
    import numpy as np
    import pandas as pd

    import flox.core as fc

    coq = []
    edge_lists = []
    for k in range(2, max_edges + 1):
        for gaps in itertools.product([1, 2, 3], repeat=k - 1):       # in half units
            start = rng.choice([-3, 0, 1])
            e = [start]
            for g in gaps:
                e.append(e[-1] + g)
            edge_lists.append(e)
    for _ in range(extra_random):
        k = rng.randint(2, 7)
        e = sorted(rng.sample(range(-20, 20), k))
        edge_lists.append(e)
    for e2 in edge_lists:                      # e2 in half units
        edges = [x / 2 for x in e2]
        xs2 = sorted(set(e2) | {a + 1 for a in e2} | {a - 1 for a in e2} | {e2[0] - 4, e2[-1] + 4})
        xs = [x / 2 for x in xs2] + [float("inf"), float("-inf"), float("nan")]
        for closed in ("right", "left"):
            ii = pd.IntervalIndex.from_breaks(edges, closed=closed)
            arr = np.array(xs)
            _, idx = fc._factorize_single(arr, ii, sort=True, reindex=True)
            want = pd.cut(arr, ii).codes
            run.count(f"bin|{e2}|{closed}", True)
            if not np.array_equal(np.asarray(idx), want):
                bad = [(xs[i], int(idx[i]), int(want[i])) for i in range(len(xs)) if idx[i] != want[i]]
                run.violation({"property": "C07", "kind": "bin assignment differs from pandas.cut", "edges": edges,
                               "closed": closed, "mismatches(x, flox, pandas)": bad[:6],
                               "how_to_run": "flox.core._factorize_single(x, pd.IntervalIndex.from_breaks(edges, closed=closed), sort=True, reindex=True)"}, tag="bin")
            xl = [C.xval_lit(v * 2) if v == v and abs(v) != float("inf") else C.xval_lit(v) for v in xs]
            coq.append(f"({'true' if closed == 'right' else 'false'}, {C.list_lit([C.zlit(a) for a in e2])}, "
                       f"{C.list_lit(xl)}, {C.list_lit([C.zlit(int(i)) for i in idx])})")
    run.sample({"binning_case": {"edges": edges, "closed": closed, "xs": [I.fnum(x) for x in xs]}})
    eval_simple(run, "bin", "bin_case_ok", coq, "correspondence:K2 Binning.bin_code == _factorize_single (IntervalIndex) ; oracle pandas.cut")


def ravel_cases(run, rng, n):
    import numpy as np

    import flox.core as fc

    coq = []
    for _ in range(n):
        k = rng.randint(2, 3)
        sizes = [rng.randint(1, 4) for _ in range(k)]
        m = rng.randint(1, 8)
        cols = [[rng.randrange(-1, s) for _ in range(m)] for s in sizes]
        got = fc._ravel_factorized(*[np.array(c) for c in cols], grp_shape=tuple(sizes))
        rows = list(zip(*cols))
        run.count(f"ravel|{sizes}|{rows}", True)
        coq.append(f"({C.list_lit([str(s) for s in sizes])}, {C.list_lit([C.list_lit([C.zlit(c) for c in r]) for r in rows])}, "
                   f"{C.list_lit([C.zlit(int(x)) for x in got])})")
    eval_simple(run, "ravel", "ravel_case_ok", coq, "correspondence:K2 Binning.ravel_codes == _ravel_factorized")


def tuple_key_cases(run, rng, n):
    """K3: 1-3 groupers (categorical / binned), eager and chunked, numpy and dask labels vs per-tuple NumPy"""
    import dask
    import dask.array as da
    import numpy as np
    import pandas as pd

    import flox

    for _ in range(n):
        k = rng.randint(1, 3)
        m = rng.randint(2, 12)
        func = rng.choice(["sum", "nansum", "max", "count", "nanmean", "min"])
        vals = np.array([I.unf(v) for v in G.rand_vals(rng, m, alphabet=G.ALPHA_FINITE + ["nan"], p_special=0.1 if func in ("nansum", "count", "nanmean") else 0)], dtype=float)
        bys, expected, isbin, keyfns, shapes = [], [], [], [], []
        for _g in range(k):
            if rng.random() < 0.4:
                edges = sorted(rng.sample(range(-4, 8), rng.randint(2, 4)))
                closed = rng.choice(["right", "left"])
                by = np.array([rng.choice([e for e in edges] + [e + 0.5 for e in edges] + [edges[0] - 1, edges[-1] + 1, np.nan]) for _ in range(m)], dtype=float)
                ii = pd.IntervalIndex.from_breaks(edges, closed=closed)
                bys.append(by)
                expected.append(ii)
                isbin.append(False)     # an IntervalIndex is passed as such
                keyfns.append(lambda x, ii=ii: pd.cut(np.array([x]), ii).codes[0])
                shapes.append(len(ii))
            else:
                ng = rng.randint(1, 3)
                by = np.array([rng.choice(list(range(ng + 1)) + [np.nan]) for _ in range(m)], dtype=float)
                ex = np.arange(ng, dtype=float)
                if rng.random() < 0.4:
                    # INTEGER labels, the request is exactly 0..n-1, unrequested labels on both sides (-3, -2, -1, n, n+1): dropped, never wrapped
                    by = np.array([rng.choice(list(range(-3, ng + 2))) for _ in range(m)], dtype=rng.choice(["int64", "int8"]))
                    ex = np.arange(ng)
                form = rng.choice(["array", "array", "index-shuffled", "list-shuffled"])
                if form != "array":
                    # the same request in another container / order: with sort=True (default) the result is ascending all the same
                    perm = ex.tolist()
                    rng.shuffle(perm)
                    ex = pd.Index(perm) if form == "index-shuffled" else perm
                bys.append(by)
                expected.append(ex)
                isbin.append(False)
                keyfns.append(lambda x, ng=ng: int(x) if x == x and 0 <= x < ng else -1)
                shapes.append(ng)
        want = np.full(shapes, np.nan)
        codes = [[kf(x) for x in by] for kf, by in zip(keyfns, bys)]
        for key in itertools.product(*[range(s) for s in shapes]):
            mask = np.array([all(c[i] == kk for c, kk in zip(codes, key)) for i in range(m)])
            mem = vals[mask]
            if len(mem) == 0 or np.isnan(mem).all():
                continue    # fill_value + expected_groups => implicit min_count=1: no valid member -> fill (NaN)
            with warnings.catch_warnings():
                warnings.simplefilter("ignore")
                want[key] = {"sum": np.sum, "nansum": np.nansum, "max": np.max, "min": np.min, "nanmean": np.nanmean,
                             "count": lambda a: np.sum(~np.isnan(a))}[func](mem)
        chunks = G.random_composition(rng, m, 3)
        for mode in ("eager", "dask", "dask-by", "dask-by-mixed"):
            if mode == "dask-by-mixed" and k < 2:
                continue
            arr = vals if mode == "eager" else da.from_array(vals, chunks=(chunks,))
            bb = [da.from_array(b, chunks=(chunks,)) for b in bys] if mode == "dask-by" else bys
            if mode == "dask-by-mixed":
                # some groupers held in dask arrays, the others in memory
                lazy = set(rng.sample(range(k), rng.randint(1, k - 1)))
                bb = [da.from_array(b, chunks=(chunks,)) if i in lazy else b for i, b in enumerate(bys)]
            try:
                with warnings.catch_warnings(), dask.config.set(scheduler="sync"):
                    warnings.simplefilter("ignore")
                    res, *groups = flox.groupby_reduce(arr, *bb, func=func, expected_groups=tuple(expected) if k > 1 else expected[0],
                                                       isbin=tuple(isbin) if k > 1 else isbin[0], fill_value=np.nan, engine="numpy")
                    res = np.asarray(res.compute() if hasattr(res, "compute") else res, dtype=float)
            except (ValueError, NotImplementedError):
                continue
            run.count(f"tuple|{k}|{mode}|{func}|{vals.tolist()}|{[b.tolist() for b in bys]}", k > 1)
            ok = res.shape == tuple(shapes) and np.allclose(res, want, equal_nan=True)
            # the labels returned for a categorical grouper are the requested ones in ascending order
            for gi, ex in enumerate(expected):
                if not isinstance(ex, pd.IntervalIndex):
                    ok = ok and np.array_equal(np.asarray(groups[gi], dtype=float), np.sort(np.asarray(ex, dtype=float)))
            if func == "count":
                ok = res.shape == tuple(shapes) and np.allclose(np.nan_to_num(res), np.nan_to_num(want))
            if not ok:
                run.violation({"property": "C07", "kind": "multi-grouper result differs from grouping by the tuple of labels",
                               "func": func, "mode": mode, "vals": [I.fnum(v) for v in vals], "by": [[I.fnum(x) for x in b] for b in bys],
                               "expected": [str(e) for e in expected], "chunks": list(chunks),
                               "got": [I.fnum(x) for x in res.reshape(-1)], "want": [I.fnum(x) for x in want.reshape(-1)], "shape": list(res.shape)}, tag="tuple")
    run.sample({"tuple_case": {"func": func, "ngroupers": k, "vals": [I.fnum(v) for v in vals], "by": [[I.fnum(x) for x in b] for b in bys]}})


def broadcast_grouper_cases(run, rng, n):
    """2-4 groupers given as label arrays of DIFFERENT n-d shapes that broadcast against each other (e.g. (a,1,1), (1,b,1), (1,1,c), or
    full-shape next to size-1 axes), different numbers of groups per grouper: result axes and returned labels follow the ORDER OF THE
    GROUPERS AS GIVEN; values = grouping by the tuple of (broadcast) labels"""
    import dask
    import dask.array as da
    import numpy as np

    import flox

    desc = None
    for _ in range(n):
        k = rng.randint(2, 4)
        nd = rng.randint(2, 3)
        shape = tuple(rng.randint(2, 4) for _ in range(nd))
        func = rng.choice(["sum", "count", "max", "nanmean"])
        vals = np.array([rng.randint(-4, 4) for _ in range(int(np.prod(shape)))], dtype=float).reshape(shape)
        bys, ngs = [], []
        for gi in range(k):
            ng = rng.randint(1, 4)
            style = rng.choice(["one-axis", "one-axis", "full", "two-axes"])
            if style == "full" or nd == 1:
                bshape = shape
            elif style == "one-axis":
                ax = rng.randrange(nd)
                bshape = tuple(shape[i] if i == ax else 1 for i in range(nd))
            else:
                drop = rng.randrange(nd)
                bshape = tuple(1 if i == drop else shape[i] for i in range(nd))
            by = np.array([rng.randrange(ng) for _ in range(int(np.prod(bshape)))], dtype=float).reshape(bshape)
            if rng.random() < 0.2:
                by.reshape(-1)[rng.randrange(by.size)] = np.nan
            bys.append(by)
            ngs.append(ng)
        full = [np.broadcast_to(b, shape) for b in bys]
        want = np.full(ngs, np.nan)
        for key in itertools.product(*[range(g) for g in ngs]):
            mask = np.ones(shape, dtype=bool)
            for b, kk in zip(full, key):
                mask &= (b == kk)
            mem = vals[mask]
            if len(mem):
                want[key] = {"sum": np.sum, "count": len, "max": np.max, "nanmean": np.mean}[func](mem)
        desc = {"func": func, "shape": list(shape), "grouper_shapes": [list(b.shape) for b in bys], "ngroups": ngs,
                "vals": vals.tolist(), "by": [[I.fnum(x) for x in b.reshape(-1)] for b in bys]}
        for mode in ("eager", "dask"):
            arr = vals if mode == "eager" else da.from_array(vals, chunks=tuple(max(1, s // 2) for s in shape))
            try:
                with warnings.catch_warnings(), dask.config.set(scheduler="sync"):
                    warnings.simplefilter("ignore")
                    res, *groups = flox.groupby_reduce(arr, *bys, func=func, expected_groups=tuple(np.arange(g, dtype=float) for g in ngs), fill_value=np.nan)
                    res = np.asarray(res.compute() if hasattr(res, "compute") else res, dtype=float)
            except (ValueError, NotImplementedError):
                run.extra["refused_cases"] = run.extra.get("refused_cases", 0) + 1
                continue
            except Exception as e:  # noqa: BLE001
                run.violation(dict(desc, property="C07", kind=f"groupers of different (broadcasting) shapes: internal error {type(e).__name__}: {str(e)[:120]}", mode=mode,
                                   chunks=[list(c) for c in arr.chunks]), tag="bcast")
                break
            run.count("bcast|" + mode + "|" + json.dumps(desc, sort_keys=True), len({tuple(b.shape) for b in bys}) > 1)
            ok = res.shape == tuple(ngs) and np.allclose(np.nan_to_num(res) if func == "count" else res, np.nan_to_num(want) if func == "count" else want, equal_nan=True) \
                and all(np.array_equal(np.asarray(g, dtype=float), np.arange(ng, dtype=float)) for g, ng in zip(groups, ngs))
            if not ok:
                run.violation(dict(desc, property="C07", kind="groupers of different (broadcasting) shapes: result differs from grouping by the tuple of labels "
                                   "(axes / labels must follow the order of the groupers as given)", mode=mode, got_shape=list(res.shape),
                                   got=[I.fnum(x) for x in res.reshape(-1)], want=[I.fnum(x) for x in want.reshape(-1)],
                                   returned_labels=[[I.fnum(x) for x in np.asarray(g, dtype=float)] for g in groups]), tag="bcast")
                break
    if desc:
        run.sample({"broadcast_grouper_case": {k_: v for k_, v in desc.items() if k_ not in ("vals", "by")}})


def run(run: C.Run):
    rng = random.Random(run.seed)
    P.front(run, translators=())
    thorough = run.tier == "thorough"
    binning_cases(run, rng, 5 if thorough else 4, 600 if thorough else 120)
    run.cov["exhaustive"] = True
    ravel_cases(run, rng, 4000 if thorough else 800)
    tuple_key_cases(run, rng, 3000 if thorough else 350)
    broadcast_grouper_cases(run, rng, 2000 if thorough else 300)
    if any(not o[1] for o in run.obligations) and not run.violations:
        run.violation({"property": "C07", "kind": "proof obligation / correspondence no longer checks",
                       "failed": P.failed_obligations(run)}, nofail=True, tag="obligation")
    run.cov["rule"] = (
        "binning: ALL edge lists with 2..4 (5 thorough) edges and gaps of 1/2, 1, 3/2 plus random ones; x ranges over every edge, "
        "every edge +-1/2, outside values, +-inf, NaN; both closed sides; _factorize_single compared with pandas.cut (oracle) and "
        "with the Coq model; ravel: random code tuples of 2-3 groupers incl. -1 vs the Coq mixed-radix model; K3: 1-3 groupers "
        "mixing categorical and IntervalIndex kinds, eager / dask array / dask labels, result shape and every entry (i,j,..) "
        "compared with the NumPy reduction of the elements carrying that label tuple; 2-4 groupers given as n-d label arrays of different, "
        "mutually broadcasting shapes with different group counts (result axes and labels in the order of the groupers); non-trivial = >1 grouper")


def replay(run: C.Run, path):
    P.front(run, translators=())
    rng = random.Random(run.seed)
    binning_cases(run, rng, 4, 50)
    tuple_key_cases(run, rng, 100)
