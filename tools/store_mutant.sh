#!/bin/bash
# usage: store_mutant.sh <id> <name>  : confirm demo in /tmp/mut/<id> (FAIL with patch, PASS without) and copy to /verif/seeded/<name>
id="$1"; name="${2:-$1}"; root=${MUTROOT:-/tmp/mut}; wt=$root/$id
export OMP_NUM_THREADS=1 NUMBA_NUM_THREADS=1 OPENBLAS_NUM_THREADS=1 PYTHONHASHSEED=0
cd $wt || exit 2
git diff -- flox > $root/$id.current.diff
[ -s $root/$id.current.diff ] || git apply patch.diff
( cd $wt && PYTHONPATH=$wt timeout 1200 /venv/bin/python demo.py > $root/$id.after.log 2>&1 ); after=$?
git diff -- flox > $root/$id.applied.diff; git apply -R $root/$id.applied.diff
( cd $wt && PYTHONPATH=$wt timeout 1200 /venv/bin/python demo.py > $root/$id.before.log 2>&1 ); before=$?
git apply $root/$id.applied.diff
echo "$id: demo exit with patch=$after (want 1), without=$before (want 0)"
mkdir -p /verif/seeded/$name && cp patch.diff demo.py meta.json /verif/seeded/$name/ 2>/dev/null
tail -2 $root/$id.after.log | cut -c1-200
