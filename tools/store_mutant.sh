#!/bin/bash
# usage: store_mutant.sh <id> <name>  : confirm demo in /tmp/mut/<id> (FAIL with patch, PASS without) and copy to /verif/seeded/<name>
id="$1"; name="${2:-$1}"; wt=/tmp/mut/$id
export OMP_NUM_THREADS=1 NUMBA_NUM_THREADS=1 OPENBLAS_NUM_THREADS=1 PYTHONHASHSEED=0
cd $wt || exit 2
git diff -- flox > /tmp/mut/$id.current.diff
[ -s /tmp/mut/$id.current.diff ] || git apply patch.diff
( cd $wt && PYTHONPATH=$wt timeout 1200 /venv/bin/python demo.py > /tmp/mut/$id.after.log 2>&1 ); after=$?
git stash -q -- flox
( cd $wt && PYTHONPATH=$wt timeout 1200 /venv/bin/python demo.py > /tmp/mut/$id.before.log 2>&1 ); before=$?
git stash pop -q
echo "$id: demo exit with patch=$after (want 1), without=$before (want 0)"
mkdir -p /verif/seeded/$name && cp patch.diff demo.py meta.json /verif/seeded/$name/ 2>/dev/null
tail -2 /tmp/mut/$id.after.log | cut -c1-200
