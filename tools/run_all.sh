#!/bin/bash
# usage: tools/run_all.sh [quick|thorough] [ids...]  -- runs the checks one after another, prints id, exit code, seconds, violation/known counts
tier=${1:-quick}; shift
ids=${@:-C01 C02 C03 C04 C05 C06 C07 C08 C09 C10 C11 C12 C13 C14 C15 C16 C17 C18 C19 C20}
cd /verif
for c in $ids; do
  s=$(date +%s)
  out=$(./check $c --tier $tier 2>&1); rc=$?
  e=$(date +%s)
  echo "$c rc=$rc t=$((e-s))s viol=$(echo "$out" | grep -c '^VIOLATION') known=$(echo "$out" | grep -c '^KNOWN-FINDING')"
  echo "$out" | grep '^VIOLATION' | head -3
done
