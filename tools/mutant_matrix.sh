#!/bin/bash
# Re-run every seeded change against the quick check of its own property and write seeded/MATRIX.md.
# Each change runs against a PRIVATE patched copy of /repo and a private copy of /verif (tools/par_mutant.sh: bind mounts in a
# private mount namespace), 4 at a time; /repo and /verif/evidence are never touched.
cd /verif
out=seeded/MATRIX.md
tmp=$(mktemp -d /tmp/matrix.XXXXXX)
job() {
  d=$1; id=$(basename $d)
  chk=${id#R2-}; chk=${chk#R3-}; chk=${chk#R4-}; chk=${chk#R5-}; chk=${chk#R6-}; [ "$chk" = "X01" ] && chk=C19; [ "$chk" = "X02" ] && chk=C09
  p=/verif/$d/patch.diff
  [ -f /verif/$d/patch_on_repaired_tree.diff ] && p=/verif/$d/patch_on_repaired_tree.diff
  res=$(tools/par_mutant.sh M-$id $p $chk 2>&1 | grep -E "^== |PATCH DOES NOT")
  nv=$(echo "$res" | sed -n 's/.*violations=\([0-9]*\).*/\1/p')
  nf=$(echo "$res" | grep -c "no-failing-input-found")
  echo "| $id | $(basename $p) | ./check $chk --tier quick | ${nv:-$res} |" > $tmp/$id.row
  echo "$id ${nv:-$res}"
}
export -f job; export tmp
ls -d seeded/C*/ seeded/R2-C*/ seeded/R3-C*/ seeded/R4-C*/ seeded/R5-C*/ seeded/R6-C*/ seeded/X*/ | xargs -P 4 -I{} bash -c 'job {}'
echo "| seeded change | patch used | quick check | violations reported |" > $out
echo "|---|---|---|---|" >> $out
for d in seeded/C*/ seeded/R2-C*/ seeded/R3-C*/ seeded/R4-C*/ seeded/R5-C*/ seeded/R6-C*/ seeded/X*/; do cat $tmp/$(basename $d).row >> $out; done
cat >> $out <<'EON'

Round 1 = seeded/Cxx (made against the original snapshot), round 2 = seeded/R2-Cxx, round 3 = seeded/R3-Cxx, round 4 = seeded/R4-Cxx, round 5 = seeded/R5-Cxx and round 6 = seeded/R6-Cxx (made against the
repaired tree, each told which functions the earlier rounds had changed), X01 = reverse of fix 62b736f, X02 = reverse of fix a2bf6d7.  A row with 0 violations is
explained in DESIGN.md 8.5.
EON
rm -rf $tmp
