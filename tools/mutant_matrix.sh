#!/bin/bash
# Re-run every seeded change against the quick check of its own property on the current /repo tree and
# write seeded/MATRIX.md.  /repo must be clean; each patch is applied transiently and reverted.
cd /verif
out=seeded/MATRIX.md
echo "| seeded change | patch used | quick check | violations reported |" > $out
echo "|---|---|---|---|" >> $out
for d in seeded/C*/ seeded/R2-C*/ seeded/X*/; do
  id=$(basename $d)
  chk=${id#R2-}; [ "$chk" = "X01" ] && chk=C19
  p=/verif/$d/patch.diff
  [ -f /verif/$d/patch_on_repaired_tree.diff ] && p=/verif/$d/patch_on_repaired_tree.diff
  res=$(tools/run_mutant.sh $p $chk 2>&1 | grep -E "^== |PATCH DOES NOT")
  nv=$(echo "$res" | sed -n 's/.*violations=\([0-9]*\).*/\1/p')
  echo "| $id | $(basename $p) | ./check $chk --tier quick | ${nv:-$res} |" >> $out
  echo "$id ${nv:-$res}"
done
