import json, sys
pid = sys.argv[1]
for l in open('/verif/properties.jsonl'):
    d = json.loads(l)
    if d['id'] == pid:
        break
rnd = sys.argv[2] if len(sys.argv) > 2 else ""
avoid = sys.argv[3] if len(sys.argv) > 3 else ""
wt = f"/tmp/mut{rnd}/{pid}"
print(f"""You are helping evaluate a verification effort by producing a realistic *seeded defect* for the open-source Python library xarray-contrib/flox (groupby reductions for numpy/dask arrays).

You have your own scratch git worktree of the repository at {wt} (work ONLY there; never touch /repo or /verif; do not read anything under /verif). Run Python as `cd {wt} && PYTHONPATH={wt} PYTHONHASHSEED=0 /venv/bin/python ...` so that `import flox` picks up your worktree (check with `python -c "import flox; print(flox.__file__)"`). There is no network.

The property that your change must BREAK:

ID: {d['id']} — {d['title']}
Statement: {d['statement']}
Quantifier: {d['quantifier']['text']}
Why the existing tests cannot settle it: {d['why_tests_cant']}
Code anchors: {json.dumps(d['anchors'].get('mechanism', []), indent=1)}

Task: make a small, realistic change to the library source under {wt}/flox (the kind of bug a developer could plausibly introduce in a refactor or an "optimisation") such that
 1. the package still imports and the existing test-suite still passes exactly as before. The machine is shared and heavily loaded, so ALWAYS prefix test/python commands with `OMP_NUM_THREADS=1 OPENBLAS_NUM_THREADS=1 MKL_NUM_THREADS=1 NUMBA_NUM_THREADS=1` and never use more than `-n 3`. The baseline on the unchanged tree is already known: `tests/test_core.py` gives 129 failed / 8350 passed (mode/nanmode cases of test_groupby_reduce_all and test_cohorts_nd_by, test_dtype, test_group_by_datetime, test_datetime_binning), `tests/test_xarray.py` 6 failed (test_multiple_quantiles) / 293 passed, `tests/test_properties.py` 7 passed — you do NOT need to re-run the baseline. AFTER your change run `cd {wt} && OMP_NUM_THREADS=1 OPENBLAS_NUM_THREADS=1 MKL_NUM_THREADS=1 NUMBA_NUM_THREADS=1 PYTHONPATH={wt} /venv/bin/python -m pytest -q -p no:cacheprovider -n 3 tests/test_core.py tests/test_xarray.py tests/test_properties.py --timeout=900 -p no:warnings -rf 2>&1 | tail -40` once (it takes 10-20 minutes) and check that the counts and the kinds of failing tests are the same as the baseline above; if your change is caught, pick another change;
 2. the property above is violated for SOME inputs — and the violation needs something specific to manifest (an unusual input such as negative data / NaN placement / ties across chunk boundaries / particular chunk layouts / deep reduction trees with many blocks / particular label patterns / multi-step sequence / two cooperating sites that each look fine alone), NOT something that ordinary use would expose at once;
 3. you write a demonstration script `{wt}/demo.py` (plain Python, no pytest needed) that exits 0 and prints PASS when run against the ORIGINAL code and exits 1 and prints FAIL (with the offending input and outputs) when run against your changed code. It should check the property against an independent reference (NumPy per-group computation / eager result / etc.), not against hard-coded numbers only.

Deliverables (all inside {wt}): the source change left applied in the worktree (uncommitted), `patch.diff` produced by `git -C {wt} diff -- flox > {wt}/patch.diff`, `demo.py`, and `meta.json` with keys: property, summary (what was changed), needs (what is required for the bug to manifest), tests_run (the commands you ran and the pass/fail counts before and after), demo_before (output on original code), demo_after (output on changed code).

To test demo.py on the original code, reverse and re-apply the patch with `git -C {wt} apply -R patch.diff` then `git -C {wt} apply patch.diff` (do NOT use `git stash`: the stash is shared by all worktrees of the repository and other people are working in sibling worktrees).

Prefer a subtle change in the mechanism named by the anchors above.{(" Another seeded defect already exists in " + avoid + "; choose a DIFFERENT function and a different way of breaking the property (another clause of the statement if it has several).") if avoid else ""} Do not modify tests. Do not add new files to the library. Keep the change under ~15 lines. When finished, reply with a 5-line summary (what changed, what is needed to trigger, test results before/after).""")
