#!/bin/bash
# usage: tools/with_mutant.sh <patch.diff> <command...>   -- runs the command with a private patched copy of /repo bind-mounted
# over /repo (private mount namespace; /repo itself is never touched; /verif is the real one, so only use read-only commands)
patch="$1"; shift
root=$(mktemp -d /tmp/wm.XXXXXX)
cp -r /repo "$root/repo"
( cd "$root/repo" && git apply "$patch" ) || { echo "PATCH DOES NOT APPLY"; rm -rf "$root"; exit 3; }
unshare -m bash -c "mount --bind $root/repo /repo && $*"
rc=$?
rm -rf "$root"
exit $rc
