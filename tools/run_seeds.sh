#!/bin/bash
# usage: tools/run_seeds.sh "1 2 3" [ids...]  -- quick tier under several VERIF_SEED values; prints only runs with rc!=0 or violations
seeds=$1; shift
ids=${@:-C01 C02 C03 C04 C05 C06 C07 C08 C09 C10 C11 C12 C13 C14 C15 C16 C17 C18 C19 C20}
cd /verif
for s in $seeds; do for c in $ids; do
  t0=$(date +%s)
  out=$(VERIF_SEED=$s ./check $c --tier quick 2>&1); rc=$?
  nv=$(echo "$out" | grep -c '^VIOLATION')
  echo "seed=$s $c rc=$rc viol=$nv t=$(( $(date +%s)-t0 ))s"
  if [ $rc -ne 0 ] || [ $nv -ne 0 ]; then mkdir -p .work/seedfail/$s_$c; cp -r replays/$c .work/seedfail/${s}_$c 2>/dev/null; echo "$out" | tail -5 | cut -c1-300; fi
done; done
