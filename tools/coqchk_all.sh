#!/bin/bash
# Independent re-check of every compiled property file (and everything it depends on) with coqchk; prints the axiom summary.
# Run after ./setup.sh with no check running (a concurrent incremental make leaves .vo files mutually inconsistent for coqchk).
cd /verif/coq || exit 2
timeout 3000 coqchk -o -silent -Q Base Flox -Q Model Flox -Q Gen Flox -Q Proofs Flox -Q Props Flox \
  $(ls Props/*.vo | sed 's#Props/\(.*\)\.vo#Flox.\1#')
