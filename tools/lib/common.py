"""Shared machinery of ./check: paths, translators, Coq build / evaluation, evidence, findings."""
from __future__ import annotations

import fcntl
import fractions
import hashlib
import json
import math
import os
import re
import subprocess
import sys
import time
from pathlib import Path

ROOT = Path("/verif")
COQ = ROOT / "coq"
WORK = ROOT / ".work"
EVID = ROOT / "evidence"
REPLAYS = ROOT / "replays"
PY = "/venv/bin/python"
ENV = dict(os.environ, PYTHONPATH="/repo", PYTHONHASHSEED="0", FLOX_VERIF="1", PYTHONWARNINGS="ignore",
           OMP_NUM_THREADS="1", OPENBLAS_NUM_THREADS="1", MKL_NUM_THREADS="1", NUMBA_NUM_THREADS="2")
QFLAGS = ["-Q", "Base", "Flox", "-Q", "Model", "Flox", "-Q", "Gen", "Flox", "-Q", "Proofs", "Flox", "-Q", "Props", "Flox"]
NCPU = os.cpu_count() or 8

TRANSLATORS = {
    "registry": ("tools/translate/gen_registry.py", "Gen/Registry.v"),
    "tables": ("tools/translate/gen_tables.py", "Gen/Tables.v"),
    "tokens": ("tools/translate/gen_tokens.py", "Gen/TokensGen.v"),
    "effects": ("tools/translate/gen_effects.py", "Gen/Effects.v"),
}


def log(*a):
    print(*a, file=sys.stderr, flush=True)


def sh(cmd, timeout=600, cwd=None, env=None):
    try:
        p = subprocess.run(cmd, cwd=cwd, env=env or ENV, stdout=subprocess.PIPE, stderr=subprocess.STDOUT,
                           timeout=timeout, text=True, errors="replace")
        return p.returncode, p.stdout
    except subprocess.TimeoutExpired as e:
        return 124, (e.stdout or "") + "\nTIMEOUT"


class Lock:
    def __init__(self, name="build"):
        WORK.mkdir(parents=True, exist_ok=True)
        self.path = WORK / f"{name}.lock"

    def __enter__(self):
        self.f = open(self.path, "w")
        fcntl.flock(self.f, fcntl.LOCK_EX)
        return self

    def __exit__(self, *a):
        fcntl.flock(self.f, fcntl.LOCK_UN)
        self.f.close()


def run_translators(names):
    """Regenerate coq/Gen/*.v from /repo. Returns {name: (ok, output)}; output's last line is the source hash."""
    out = {}
    with Lock("gen"):
        for n in names:
            script, target = TRANSLATORS[n]
            rc, o = sh([PY, str(ROOT / script), str(COQ / target)], timeout=900, cwd=str(ROOT))
            o = "\n".join(l for l in o.splitlines() if "WARNING" not in l)
            out[n] = (rc == 0, o.strip())
            if rc != 0:
                # fail closed: a translator that cannot read the source leaves a file that does not compile
                (COQ / target).write_text(f"(* translator {n} FAILED *)\nDefinition translator_failed : False := I.\n")
    return out


def all_vfiles():
    files = []
    for d in ("Base", "Model", "Gen", "Proofs", "Props"):
        files += sorted(str(p.relative_to(COQ)) for p in (COQ / d).glob("*.v"))
    return files


def coq_build(targets=None, timeout=1500):
    """(Re)build .vo targets (relative to coq/), full .vo compilation. Returns (ok, log)."""
    with Lock("build"):
        files = all_vfiles()
        listing = "\n".join(files)
        stamp = COQ / ".filelist"
        if not (COQ / "Makefile").exists() or not stamp.exists() or stamp.read_text() != listing:
            rc, o = sh(["coq_makefile", "-f", "_CoqProject", *files, "-o", "Makefile"], cwd=str(COQ))
            if rc != 0:
                return False, o
            stamp.write_text(listing)
        cmd = ["make", f"-j{NCPU}"] + (targets or [])
        rc, o = sh(["timeout", str(timeout), *cmd], timeout=timeout + 30, cwd=str(COQ))
        return rc == 0, o


def coq_eval(text: str, name: str, subdir: str, timeout=600):
    """Compile a generated .v file (cases, Print Assumptions, ...) and return (ok, stdout)."""
    d = WORK / subdir
    d.mkdir(parents=True, exist_ok=True)
    f = d / f"{name}.v"
    f.write_text(text)
    rc, o = sh(["timeout", str(timeout), "coqc", *QFLAGS, "-w", "-all", str(f)], timeout=timeout + 30, cwd=str(COQ))
    for ext in (".vo", ".vok", ".vos", ".glob"):
        try:
            (d / f"{name}{ext}").unlink()
        except OSError:
            pass
    try:
        (d / f".{name}.aux").unlink()
    except OSError:
        pass
    return rc == 0, o


def coq_eval_many(texts: dict, subdir: str, timeout=600):
    """Compile several generated files in parallel. Returns {name: (ok, out)}."""
    from concurrent.futures import ThreadPoolExecutor

    with ThreadPoolExecutor(max_workers=min(NCPU, max(1, len(texts)))) as ex:
        futs = {n: ex.submit(coq_eval, t, n, subdir, timeout) for n, t in texts.items()}
        return {n: f.result() for n, f in futs.items()}


def parse_nat_list(out: str, marker="= ["):
    """Parse the FIRST `= [a; b; ...]` list of naturals printed by Eval vm_compute."""
    res = []
    for m in re.finditer(r"=\s*\[([^\]]*)\]", out, flags=re.S):
        body = m.group(1).strip()
        res.append([int(x) for x in re.findall(r"\d+", body)] if body else [])
    return res


def print_assumptions(module: str, theorems: list[str], subdir: str):
    text = f"From Flox Require Import {module}.\n" + "".join(f"Print Assumptions {t}.\n" for t in theorems)
    ok, out = coq_eval(text, f"assump_{module}", subdir, timeout=300)
    res = {}
    if ok:
        chunks = re.split(r"(?m)^(?=Closed under the global context|Axioms:)", out)
        chunks = [c.strip() for c in chunks if c.strip()]
        for t, c in zip(theorems, chunks):
            res[t] = " ".join(c.split())
    return ok, res, out


FORBIDDEN = re.compile(
    r"\b(Admitted|admit|Axiom|Axioms|Parameter|Parameters|Conjecture|Admit Obligations|Unset Guard Checking|"
    r"Unset Positivity Checking|Unset Universe Checking|bypass_check|type-in-type|impredicative-set)\b")


def hygiene_scan():
    """grep the development for anything that would declare an axiom or weaken the kernel."""
    bad = []
    for d in ("Base", "Model", "Gen", "Proofs", "Props"):
        for p in sorted((COQ / d).glob("*.v")):
            txt = re.sub(r"\(\*.*?\*\)", "", p.read_text(), flags=re.S)
            for i, line in enumerate(txt.splitlines(), 1):
                if FORBIDDEN.search(line) and "Print Assumptions" not in line:
                    bad.append(f"{p.relative_to(COQ)}:{i}: {line.strip()[:80]}")
    return bad


# ------------------------------------------------------------------ literals
def zlit(n) -> str:
    n = int(n)
    return f"({n})" if n < 0 else str(n)


def xval_lit(x) -> str:
    """Python number -> Coq xval literal (value must be an integer-valued float, nan or +-inf)."""
    if isinstance(x, (bool,)) or (hasattr(x, "dtype") and getattr(x.dtype, "kind", "") == "b"):
        return f"(Fin {1 if x else 0})"
    if isinstance(x, int) or (hasattr(x, "dtype") and x.dtype.kind in "iu"):
        return f"(Fin {zlit(int(x))})"
    x = float(x)
    if math.isnan(x):
        return "NaN"
    if math.isinf(x):
        return "PInf" if x > 0 else "NInf"
    if not x.is_integer():
        raise ValueError(f"non-integer value {x} in an xval literal")
    return f"(Fin {zlit(int(x))})"


def xq_lit(x) -> str:
    """Python number -> Coq xq literal, exactly (float.as_integer_ratio)."""
    if x is None:
        return "QNaN"
    if isinstance(x, (bool,)) or (hasattr(x, "dtype") and getattr(x.dtype, "kind", "") == "b"):
        return f"(QFin ({1 if x else 0} # 1))"
    if isinstance(x, int) or (hasattr(x, "dtype") and x.dtype.kind in "iu"):
        return f"(QFin ({zlit(int(x))} # 1))"
    if isinstance(x, fractions.Fraction):
        return f"(QFin ({zlit(x.numerator)} # {x.denominator}))"
    x = float(x)
    if math.isnan(x):
        return "QNaN"
    if math.isinf(x):
        return "QPInf" if x > 0 else "QNInf"
    n, d = x.as_integer_ratio()
    return f"(QFin ({zlit(n)} # {d}))"


def list_lit(items) -> str:
    return "[" + "; ".join(items) + "]"


def opt_lit(x, f) -> str:
    return "None" if x is None else f"(Some {f(x)})"


def str_lit(s) -> str:
    return '"' + str(s).replace('"', "'") + '"%string'


# ------------------------------------------------------------------ findings / evidence
def load_known():
    p = ROOT / "known_findings.json"
    if not p.exists():
        return []
    return json.loads(p.read_text()).get("findings", [])


def source_hash(files):
    h = hashlib.sha256()
    for f in files:
        try:
            h.update(Path(f).read_bytes())
        except OSError:
            h.update(b"<missing>")
    return h.hexdigest()


class Run:
    """State of one ./check invocation: obligations, coverage counters, violations, evidence."""

    def __init__(self, pid, tier, seed, level="proof"):
        self.pid, self.tier, self.seed, self.level = pid, tier, seed, level
        self.t0 = time.time()
        self.obligations = []  # (name, discharged: bool, detail)
        self.trusted = []
        self.assumptions = []
        self.cov = {"evaluations": 0, "distinct_nontrivial": 0, "rule": "", "samples": []}
        self.extra = {}
        self.violations = []  # (replay_path, nofail)
        self.known_hits = {}
        self._distinct = set()
        d = REPLAYS / pid
        if d.is_dir():  # replays of an earlier run are stale
            for f in d.glob("*.json"):
                f.unlink()

    def oblige(self, name, ok, detail=""):
        self.obligations.append((name, bool(ok), detail))

    def count(self, key, nontrivial: bool):
        self.cov["evaluations"] += 1
        if nontrivial and key not in self._distinct:
            self._distinct.add(key)
            self.cov["distinct_nontrivial"] += 1

    def sample(self, obj, limit=6):
        if len(self.cov["samples"]) < limit:
            self.cov["samples"].append(obj)

    def known(self, fid, what):
        self.known_hits.setdefault(fid, what)

    def violation(self, replay: dict, nofail=False, tag="v"):
        REPLAYS.mkdir(exist_ok=True)
        d = REPLAYS / self.pid
        d.mkdir(exist_ok=True)
        if len(self.violations) >= 6 and not nofail:
            self.extra["violations_not_written"] = self.extra.get("violations_not_written", 0) + 1
            return None
        body = json.dumps(replay, indent=1, default=str, sort_keys=True)
        h = hashlib.sha256(body.encode()).hexdigest()[:10]
        p = d / f"{tag}_{h}.json"
        p.write_text(body)
        self.violations.append((str(p), nofail))
        return p

    def finish(self):
        for fid, what in sorted(self.known_hits.items()):
            print(f"KNOWN-FINDING: property={self.pid} {what}")
        n_obl = len(self.obligations)
        n_dis = sum(1 for o in self.obligations if o[1])
        cov = dict(self.cov)
        cov.update(self.extra)
        cov["obligations"] = n_obl
        cov["discharged"] = n_dis
        cov["obligation_list"] = [{"name": n, "discharged": ok, "detail": d} for n, ok, d in self.obligations]
        cov["checker_cmd"] = f"cd /verif/coq && make -j{NCPU} Props/{self.pid}.vo  (coqc 8.16.1, full .vo build) + coqc on generated case files"
        cov["trusted_base"] = self.trusted
        if self.level == "other" and "explanation" not in cov:
            cov["explanation"] = cov.get("rule", "see DESIGN.md")
        ev = {
            "property_id": self.pid,
            "tier": self.tier,
            "seed": int(self.seed),
            "level": self.level,
            "coverage": cov,
            "assumptions": self.assumptions,
            "wall_s": round(time.time() - self.t0, 2),
            "violations": len(self.violations),
            "known_findings_hit": sorted(self.known_hits),
        }
        EVID.mkdir(exist_ok=True)
        (EVID / f"{self.pid}.json").write_text(json.dumps(ev, indent=1, default=str))
        seen = set()
        for p, nofail in self.violations:
            if p in seen:
                continue
            seen.add(p)
            print(f"VIOLATION property={self.pid} replay={p}" + (" no-failing-input-found" if nofail else ""))
        return 1 if self.violations else 0
