"""Task-graph utilities for the runtime harnesses (K4/K5): materialise a dask graph, execute it in a
random topological order, compute dependency closures, count scheduler invocations."""
from __future__ import annotations

import random
from collections.abc import Mapping


def materialize(obj):
    """-> {key: Task} (dask._task_spec objects) for a dask collection / graph / expr"""
    from dask._task_spec import convert_legacy_graph

    dsk = obj
    if not isinstance(dsk, Mapping):
        dsk = dsk.__dask_graph__()
    return convert_legacy_graph(dict(dsk))


def deps_of(d):
    return {k: set(t.dependencies) & d.keys() for k, t in d.items()}


def make_random_get(seed, record=None, reexec=0.0):
    """a dask scheduler executing ready tasks in a random order; with probability `reexec` a task
    that already ran is executed AGAIN (its new value must equal the stored one)."""
    def get(dsk, keys, **kw):
        rng = random.Random(seed)
        d = materialize(dsk)
        deps = deps_of(d)
        done, remaining = {}, set(d)
        skey = lambda k: str(k)  # noqa: E731
        while remaining:
            ready = sorted((k for k in remaining if deps[k] <= done.keys()), key=skey)
            k = rng.choice(ready)
            t = d[k]
            done[k] = t({x: done[x] for x in t.dependencies})
            remaining.discard(k)
            if record is not None:
                record.append(k)
            if reexec and rng.random() < reexec:
                k2 = rng.choice(sorted(done, key=skey))
                t2 = d[k2]
                again = t2({x: done[x] for x in t2.dependencies})
                if record is not None:
                    record.append(("again", k2, again, done[k2]))

        def pick(ks):
            if isinstance(ks, (list, tuple)) and not (isinstance(ks, tuple) and ks in done):
                return [pick(x) for x in ks]
            return done[ks]

        return pick(keys)
    return get


class RaisingScheduler:
    """a scheduler that counts (and refuses) every invocation: graph construction must be lazy"""
    def __init__(self):
        self.calls = 0

    def __call__(self, dsk, keys, **kw):
        self.calls += 1
        raise RuntimeError("compute during graph construction")


def closure(d, key, deps=None):
    deps = deps or deps_of(d)
    seen, stack = set(), [key]
    while stack:
        k = stack.pop()
        if k in seen:
            continue
        seen.add(k)
        stack.extend(deps.get(k, ()))
    return seen
