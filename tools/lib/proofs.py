"""Common front part of every check: translators -> coq build of Props/Cxx.vo -> Print Assumptions
-> hygiene.  Records one obligation per theorem."""
from __future__ import annotations

import re

from . import common as C

COQ_TRUSTED = [
    "Coq 8.16.1 kernel (coqc); vm_compute is used for finite tables and case files; native_compute is not",
    "no Axiom/Parameter/Admitted anywhere in /verif/coq (scanned on every run); Print Assumptions of each theorem recorded below",
]


def theorems_of(pid):
    txt = (C.COQ / "Props" / f"{pid}.v").read_text()
    return re.findall(r"(?m)^Theorem\s+(\w+)", txt)


def front(run, translators=("registry",), extra_targets=()):
    """returns True iff every obligation was discharged"""
    pid = run.pid
    tr = C.run_translators(list(translators))
    for n, (ok, out) in tr.items():
        run.oblige(f"translator:{n}", ok, out[-300:])
        run.extra.setdefault("source_hashes", {})[n] = out.splitlines()[-1] if out else ""
        run.trusted.append(f"translator tools/{C.TRANSLATORS[n][0].split('/', 1)[1]} (fail-closed, output is plain data re-checked by Coq)")
    ok, log = C.coq_build([f"Props/{pid}.vo", "Model/Cases.vo", *extra_targets])
    thms = theorems_of(pid)
    if ok:
        aok, assum, raw = C.print_assumptions(pid, thms, pid)
        for t in thms:
            a = assum.get(t)
            closed = a is not None
            run.oblige(f"theorem:{t}", closed, a or "Print Assumptions failed")
            if a:
                run.trusted.append(f"Print Assumptions {t}: {a}")
    else:
        m = re.findall(r'File "\./([^"]+)", line (\d+)[^\n]*\n(Error:[^\n]*(?:\n[^\n]*){0,6})', log)
        detail = "; ".join(f"{f}:{ln} {err.strip()[:300]}" for f, ln, err in m) or log[-600:]
        for t in thms:
            run.oblige(f"theorem:{t}", False, detail)
        run.extra["build_log_tail"] = log[-2000:]
    bad = C.hygiene_scan()
    run.oblige("hygiene:no-axioms-no-admits", not bad, "; ".join(bad[:10]))
    run.trusted += COQ_TRUSTED
    return all(o[1] for o in run.obligations)


def failed_obligations(run):
    return [(n, d) for n, ok, d in run.obligations if not ok]
