"""K3 for reductions on a 1-D reduced axis: run flox (from /repo), the NumPy oracle, and the Coq
model (Cases.v) on the same cases.  Shared by C01-C06, C16, C20."""
from __future__ import annotations

import json
import math

from . import common as C
from . import impl as I

KNOWN_AGG = None


def spy_initialize():
    """wrap flox.core._initialize_aggregation to record the resolved min_count / user fill / plan"""
    import flox.core as fc

    rec = {}
    orig = fc._initialize_aggregation
    if getattr(orig, "_verif_spy", False):
        return orig._rec

    def wrapped(*a, **k):
        agg = orig(*a, **k)
        rec["min_count"] = agg.min_count
        rec["fill_user"] = agg.fill_value.get("user")
        rec["name"] = agg.name
        return agg

    wrapped._verif_spy = True
    wrapped._rec = rec
    fc._initialize_aggregation = wrapped

    orig_dga = fc.dask_groupby_agg

    def dga(*a, **k):
        rec["method"] = k.get("method")
        r = k.get("reindex")
        rec["reindex_blockwise"] = getattr(r, "blockwise", None)
        rec["engine"] = k.get("engine")
        return orig_dga(*a, **k)

    fc.dask_groupby_agg = dga
    return rec


def codes_of(case):
    """integer codes of the labels w.r.t. the sorted requested (or present) labels; -1 otherwise"""
    labels = [I.unf(x) for x in case["labels"]]
    if case.get("expected") is not None:
        groups = sorted(case["expected"])
    else:
        groups = sorted({x for x in labels if not (isinstance(x, float) and math.isnan(x))})
    idx = {g: i for i, g in enumerate(groups)}
    return [idx.get(x, -1) if not (isinstance(x, float) and math.isnan(x)) else -1 for x in labels], len(groups)


def fill_lit(f):
    if f is None:
        return "None"
    import numpy as np

    try:
        import flox.xrdtypes as xd

        if f is xd.NA:
            return "(Some QNaN)"
    except Exception:  # noqa: BLE001
        pass
    if isinstance(f, (float, np.floating)) or isinstance(f, (int, np.integer, bool, np.bool_)):
        return f"(Some {C.xq_lit(f)})"
    return "None"


def coq_case(case, rec, impl_res, grouped):
    codes, ng = codes_of(case)
    kws = []
    if case.get("ddof") is not None:
        kws.append(f"({C.str_lit('ddof')}, {C.zlit(case['ddof'])})")
    sizes = list(case["chunks"][-1]) if case.get("chunks") else []
    vals = [I.unf(v) for v in case["vals"]]
    if case.get("dtype", "float64") == "bool":
        vals = [bool(v) for v in vals]
    return (
        f"mkCase {C.str_lit(case['func'])} {C.list_lit(kws)} {C.zlit(rec.get('min_count', 0))} "
        f"{C.opt_lit(rec_fill(rec), C.xq_lit)} {C.list_lit([str(s) + '%nat' for s in sizes])} "
        f"{case.get('split_every') or 4}%nat {'true' if grouped else 'false'} {ng}%nat "
        f"{C.list_lit([C.zlit(c) for c in codes])} {C.list_lit([C.xval_lit(v) for v in vals])} "
        f"{C.list_lit([C.xq_lit(I.unf(x)) for x in impl_res['result']])}"
    )


def coq_fcase(case, rec, impl_res, grouped):
    """case with raw labels: the model factorises them itself (Factorize.v)"""
    import math as _m
    base = coq_case(case, rec, impl_res, grouped)
    ex = case.get("expected")
    groups = [I.unf(g) for g in impl_res["groups"][0]]
    allv = [I.unf(x) for x in case["labels"]] + list(ex or []) + groups
    finite = [float(v) for v in allv if not (isinstance(v, float) and _m.isnan(v))]
    # labels on a half-integer grid are sent to Coq doubled (an order-preserving injection into Z)
    scale = 1 if all(v == int(v) for v in finite) else 2

    def enc(v):
        y = float(v) * scale
        if y != int(y):
            raise ValueError("label not on the integer / half-integer grid")
        return C.zlit(int(y))

    labs = []
    for x in case["labels"]:
        x = I.unf(x)
        if isinstance(x, float) and _m.isnan(x):
            labs.append("None")
        else:
            labs.append(f"(Some {enc(x)})")
    exl = "None" if ex is None else "(Some " + C.list_lit([enc(e) for e in ex]) + ")"
    return (f"mkFCase ({base}) {'true' if case.get('sort', True) else 'false'} {exl} {C.list_lit(labs)} "
            f"{C.list_lit([enc(g) for g in groups])}")


CASES_HEADER = (
    "From Coq Require Import ZArith String List Bool QArith.\n"
    "From Flox Require Import Val Agg Spec Pipeline Registry Cases.\n"
    "Import ListNotations.\nOpen Scope Z_scope.\n"
)


def eval_cases(coq_cases, subdir, shard=400, full=False):
    """coq_cases: list of Coq rcase (or fcase when full) literals. Returns (ok, model_fail_idx, spec_fail_idx, log)."""
    texts = {}
    ty, fm, fs = ("fcase", "fmodel_ok", "fspec_ok") if full else ("rcase", "model_ok", "spec_ok")
    for s in range(0, len(coq_cases), shard):
        body = ";\n  ".join(coq_cases[s:s + shard])
        texts[f"cases_{s // shard}"] = (
            CASES_HEADER + f"Definition cases : list {ty} := [\n  {body}\n].\n"
            f"Eval vm_compute in (failing {fm} cases).\nEval vm_compute in (failing {fs} cases).\n"
        )
    res = C.coq_eval_many(texts, subdir)
    mfail, sfail, logs, ok = [], [], [], True
    for name in sorted(texts, key=lambda n: int(n.split("_")[1])):
        k = int(name.split("_")[1])
        good, out = res[name]
        lists = C.parse_nat_list(out)
        if not good or len(lists) != 2:
            ok = False
            logs.append(f"{name}: {out[-600:]}")
            continue
        mfail += [k * shard + i for i in lists[0]]
        sfail += [k * shard + i for i in lists[1]]
    return ok, mfail, sfail, "\n".join(logs)


def compare_oracle(case, impl_res, orc):
    """-> list of (group, got, want) mismatches between flox and the NumPy oracle"""
    bad = []
    if not impl_res["ok"]:
        return [("<exception>", impl_res["exc"] + ": " + impl_res.get("msg", ""), "a result")]
    got, want = impl_res["result"], orc["result"]
    if len(got) != len(want):
        return [("<length>", len(got), len(want))]
    for g, a, b in zip(orc["groups"], got, want):
        if b in ("FILL", "UNSPEC"):
            continue  # no fill requested for an absent group (C05) / group outside the property's scope
        if not I.same(a, b):
            bad.append((g, a, b))
    glabels = impl_res["groups"][0] if impl_res.get("groups") else None
    if glabels is not None and [I.unf(x) for x in glabels] != [I.unf(x) for x in orc["groups"]]:
        bad.append(("<labels>", glabels, orc["groups"]))
    return bad


def case_key(case):
    return json.dumps(case, sort_keys=True, default=str)


def _one(case):
    rec = spy_initialize()
    rec.clear()
    impl_res = I.run_flox(case)
    try:
        orc = I.oracle(case)
    except Exception as e:  # noqa: BLE001
        orc = {"error": repr(e)}
    r = {k: v for k, v in rec.items() if k != "fill_user"}
    fu = rec.get("fill_user")
    import numpy as np

    if fu is None:
        r["fill_user"] = None
    else:
        try:
            import flox.xrdtypes as xd

            r["fill_user"] = "NA" if fu is xd.NA else I.fnum(fu)
        except Exception:  # noqa: BLE001
            r["fill_user"] = None
    return impl_res, r, orc


def run_cases(cases, workers=None):
    """run flox + oracle on all cases in a process pool; order preserved"""
    import multiprocessing as mp
    from concurrent.futures import ProcessPoolExecutor

    workers = workers or min(C.NCPU, 16)
    if len(cases) < 40 or workers <= 1:
        return [_one(c) for c in cases]
    ctx = mp.get_context("fork")
    with ProcessPoolExecutor(max_workers=workers, mp_context=ctx) as ex:
        return list(ex.map(_one, cases, chunksize=max(1, len(cases) // (workers * 8))))


def rec_fill(rec):
    f = rec.get("fill_user")
    if f is None:
        return None
    if f == "NA":
        return float("nan")
    return I.unf(f)


MODEL_FUNCS = {"sum", "nansum", "prod", "nanprod", "max", "nanmax", "min", "nanmin", "count", "mean", "nanmean",
               "var", "nanvar", "std", "nanstd", "nanfirst", "nanlast", "all", "any", "first", "last",
               "argmax", "argmin", "nanargmax", "nanargmin"}
REFUSALS = ("ValueError", "NotImplementedError", "ImportError")


def unrepresentable_fill(case, res):
    """a negative user fill_value with an unsigned result dtype: NumPy itself refuses to store it (OverflowError 'Python integer
    -5 out of bounds for uint16'); flox propagating that refusal is outside every property's domain (the fill cannot be 'verbatim')"""
    fv = case.get("fill_value")
    return (res.get("exc") == "Internal:OverflowError" and "out of bounds for uint" in res.get("msg", "")
            and isinstance(fv, (int, float)) and not isinstance(fv, bool) and fv < 0
            and (str(case.get("dtype", "")).startswith("uint") or str(case.get("out_dtype", "")).startswith("uint")))


def eager_of(case):
    e = {k: v for k, v in case.items() if k not in ("chunks", "method", "reindex", "by_dask", "split_every", "scheduler")}
    return e


def compare_eager(chunked_res, eager_res, orc=None):
    """chunked vs eager flox: values and labels"""
    bad = []
    unspec = set()
    if orc and "result" in orc and len(orc["result"]) == len(chunked_res.get("result", [])):
        unspec = {i for i, x in enumerate(orc["result"]) if x in ("UNSPEC", "FILL")}
    if not eager_res["ok"]:
        return []
    if not chunked_res["ok"]:
        return [("<exception>", chunked_res["exc"] + ": " + chunked_res.get("msg", ""), "eager succeeded")]
    a, b = chunked_res["result"], eager_res["result"]
    if chunked_res["shape"] != eager_res["shape"]:
        return [("<shape>", chunked_res["shape"], eager_res["shape"])]
    ga = [[I.unf(x) for x in g] for g in chunked_res["groups"]]
    gb = [[I.unf(x) for x in g] for g in eager_res["groups"]]
    for i, (x, y) in enumerate(zip(a, b)):
        if i not in unspec and not I.same(x, y):
            # report the group LABEL (as compare_oracle does), not the slot index
            lab = gb[0][i % len(gb[0])] if len(gb) == 1 and gb[0] else i
            bad.append((lab, x, y))
    if not all(len(x) == len(y) and all(I.same(p, q) if not isinstance(p, str) else p == q for p, q in zip(x, y)) for x, y in zip(ga, gb)):
        bad.append(("<labels>", chunked_res["groups"], eager_res["groups"]))
    return bad


def _one_pair(case):
    r = _one(case)
    e = I.run_flox(eager_of(case)) if case.get("chunks") is not None else None
    return r + (e,)


def run_pairs(cases, workers=None):
    import multiprocessing as mp
    from concurrent.futures import ProcessPoolExecutor

    workers = workers or min(C.NCPU, 16)
    if len(cases) < 40 or workers <= 1:
        return [_one_pair(c) for c in cases]
    with ProcessPoolExecutor(max_workers=workers, mp_context=mp.get_context("fork")) as ex:
        return list(ex.map(_one_pair, cases, chunksize=max(1, len(cases) // (workers * 8))))


def check_reduce_cases(run, cases, pid, nontrivial_fn, grouped_fn=None, vs_eager=False, model=True,
                       oracle=True, internal_is_violation=True, full=False):
    """shared driver: flox vs oracle / eager (property level) and flox vs Coq model (correspondence)"""
    from . import findings as F

    results = run_pairs(cases) if vs_eager else [r + (None,) for r in run_cases(cases)]
    coq_cases, coq_idx = [], []
    model_skipped = refused = 0
    hist = {}
    for i, (case, (impl_res, rec, orc, eager)) in enumerate(zip(cases, results)):
        run.count(case_key(case), nontrivial_fn(case))
        hk = f"{case['func']}|{rec.get('method')}|{rec.get('engine') or case.get('engine')}"
        hist[hk] = hist.get(hk, 0) + 1
        if i % max(1, len(cases) // 5) == 0:
            run.sample({"case": case, "flox": impl_res.get("result", impl_res.get("exc")),
                        "numpy_oracle": orc.get("result"), "resolved": rec})
        if not impl_res["ok"] and (impl_res["exc"] in REFUSALS or unrepresentable_fill(case, impl_res)):
            refused += 1
            continue
        if not impl_res["ok"] and not internal_is_violation:
            refused += 1
            continue
        bad = []
        kind = ""
        if vs_eager and eager is not None:
            if not eager["ok"]:
                refused += 1   # the eager call itself is refused / fails: C19's business, not a chunked-vs-eager difference
                continue
            bad = compare_eager(impl_res, eager, orc)
            kind = "chunked flox result differs from the eager flox result on the same data"
        if not bad and oracle and "error" not in orc:
            bad = compare_oracle(case, impl_res, orc)
            kind = "flox result differs from the per-group NumPy reduction"
        if bad:
            fid = F.classify(pid, case, impl_res, bad)
            if fid:
                run.known(fid, F.describe(fid))
            else:
                run.violation({"property": pid, "kind": kind, "case": case, "flox": impl_res, "oracle": orc,
                               "eager": eager, "mismatches": bad[:5], "resolved": rec,
                               "how_to_run": f"./check {pid} --replay <this file>"}, tag="oracle")
            continue
        if (model and impl_res["ok"] and "error" not in orc and "FILL" not in orc["result"] and not F.in_known_cell(case)
                and "UNSPEC" not in orc["result"] and case["func"] in MODEL_FUNCS):
            grouped = grouped_fn(case, rec) if grouped_fn else False
            try:
                coq_cases.append((coq_fcase if full else coq_case)(case, rec, impl_res, grouped))
                coq_idx.append(i)
            except (ValueError, KeyError, IndexError, TypeError):
                model_skipped += 1
    run.extra["refused_cases"] = run.extra.get("refused_cases", 0) + refused
    run.extra.setdefault("distribution_func_method_engine", {}).update(hist)
    if not model or not coq_cases:
        return
    ok, mfail, sfail, log = eval_cases(coq_cases, pid, full=full)
    run.extra["model_cases_evaluated_in_coq"] = run.extra.get("model_cases_evaluated_in_coq", 0) + len(coq_cases)
    run.extra["model_cases_skipped"] = run.extra.get("model_cases_skipped", 0) + model_skipped
    run.oblige("correspondence:K3 model(Cases.model_ok) == flox", ok and not mfail,
               (log[-400:] if not ok else "") + (f" {len(mfail)} mismatching cases" if mfail else ""))
    run.oblige("correspondence:K0 Spec(Cases.spec_ok) == flox == NumPy", ok and not sfail,
               f"{len(sfail)} mismatching cases" if sfail else "")
    if not ok or mfail or sfail:
        ex = [cases[coq_idx[j]] for j in (mfail + sfail)[:3]]
        run.violation({"property": pid, "kind": "correspondence between the Coq model and flox no longer checks",
                       "suite": "K3/K0 (Cases.v)", "examples": ex, "coq_log": log[-1500:],
                       "note": "flox agrees with the NumPy oracle on these cases; the model or the code changed"},
                      nofail=True, tag="corr")
