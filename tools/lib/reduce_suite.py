"""K3 for reductions on a 1-D reduced axis: run flox (from /repo), the NumPy oracle, and the Coq
model (Cases.v) on the same cases.  Shared by C01-C06, C16, C20."""
from __future__ import annotations

import json
import math

from . import common as C
from . import impl as I

KNOWN_AGG = None


def spy_initialize():
    """wrap flox.core._initialize_aggregation to record the resolved min_count / user fill / plan"""
    import flox.core as fc

    rec = {}
    orig = fc._initialize_aggregation
    if getattr(orig, "_verif_spy", False):
        return orig._rec

    def wrapped(*a, **k):
        agg = orig(*a, **k)
        rec["min_count"] = agg.min_count
        rec["fill_user"] = agg.fill_value.get("user")
        rec["name"] = agg.name
        return agg

    wrapped._verif_spy = True
    wrapped._rec = rec
    fc._initialize_aggregation = wrapped

    orig_dga = fc.dask_groupby_agg

    def dga(*a, **k):
        rec["method"] = k.get("method")
        r = k.get("reindex")
        rec["reindex_blockwise"] = getattr(r, "blockwise", None)
        rec["engine"] = k.get("engine")
        return orig_dga(*a, **k)

    fc.dask_groupby_agg = dga
    return rec


def codes_of(case):
    """integer codes of the labels w.r.t. the sorted requested (or present) labels; -1 otherwise"""
    labels = [I.unf(x) for x in case["labels"]]
    if case.get("expected") is not None:
        groups = sorted(case["expected"])
    else:
        groups = sorted({x for x in labels if not (isinstance(x, float) and math.isnan(x))})
    idx = {g: i for i, g in enumerate(groups)}
    return [idx.get(x, -1) if not (isinstance(x, float) and math.isnan(x)) else -1 for x in labels], len(groups)


def fill_lit(f):
    if f is None:
        return "None"
    import numpy as np

    try:
        import flox.xrdtypes as xd

        if f is xd.NA:
            return "(Some QNaN)"
    except Exception:  # noqa: BLE001
        pass
    if isinstance(f, (float, np.floating)) or isinstance(f, (int, np.integer, bool, np.bool_)):
        return f"(Some {C.xq_lit(f)})"
    return "None"


def coq_case(case, rec, impl_res, grouped):
    codes, ng = codes_of(case)
    kws = []
    if case.get("ddof") is not None:
        kws.append(f"({C.str_lit('ddof')}, {C.zlit(case['ddof'])})")
    sizes = list(case["chunks"][-1]) if case.get("chunks") else []
    vals = [I.unf(v) for v in case["vals"]]
    if case.get("dtype", "float64") == "bool":
        vals = [bool(v) for v in vals]
    return (
        f"mkCase {C.str_lit(case['func'])} {C.list_lit(kws)} {C.zlit(rec.get('min_count', 0))} "
        f"{C.opt_lit(rec_fill(rec), C.xq_lit)} {C.list_lit([str(s) + '%nat' for s in sizes])} "
        f"{case.get('split_every') or 4}%nat {'true' if grouped else 'false'} {ng}%nat "
        f"{C.list_lit([C.zlit(c) for c in codes])} {C.list_lit([C.xval_lit(v) for v in vals])} "
        f"{C.list_lit([C.xq_lit(I.unf(x)) for x in impl_res['result']])}"
    )


CASES_HEADER = (
    "From Coq Require Import ZArith String List Bool QArith.\n"
    "From Flox Require Import Val Agg Spec Pipeline Registry Cases.\n"
    "Import ListNotations.\nOpen Scope Z_scope.\n"
)


def eval_cases(coq_cases, subdir, shard=400):
    """coq_cases: list of Coq rcase literals. Returns (ok, model_fail_idx, spec_fail_idx, log)."""
    texts = {}
    for s in range(0, len(coq_cases), shard):
        body = ";\n  ".join(coq_cases[s:s + shard])
        texts[f"cases_{s // shard}"] = (
            CASES_HEADER + f"Definition cases : list rcase := [\n  {body}\n].\n"
            "Eval vm_compute in (failing model_ok cases).\nEval vm_compute in (failing spec_ok cases).\n"
        )
    res = C.coq_eval_many(texts, subdir)
    mfail, sfail, logs, ok = [], [], [], True
    for name in sorted(texts, key=lambda n: int(n.split("_")[1])):
        k = int(name.split("_")[1])
        good, out = res[name]
        lists = C.parse_nat_list(out)
        if not good or len(lists) != 2:
            ok = False
            logs.append(f"{name}: {out[-600:]}")
            continue
        mfail += [k * shard + i for i in lists[0]]
        sfail += [k * shard + i for i in lists[1]]
    return ok, mfail, sfail, "\n".join(logs)


def compare_oracle(case, impl_res, orc):
    """-> list of (group, got, want) mismatches between flox and the NumPy oracle"""
    bad = []
    if not impl_res["ok"]:
        return [("<exception>", impl_res["exc"] + ": " + impl_res.get("msg", ""), "a result")]
    got, want = impl_res["result"], orc["result"]
    if len(got) != len(want):
        return [("<length>", len(got), len(want))]
    for g, a, b in zip(orc["groups"], got, want):
        if b == "FILL":
            continue  # no fill requested for an absent group: unspecified (C05)
        if not I.same(a, b):
            bad.append((g, a, b))
    glabels = impl_res["groups"][0] if impl_res.get("groups") else None
    if glabels is not None and [I.unf(x) for x in glabels] != [I.unf(x) for x in orc["groups"]]:
        bad.append(("<labels>", glabels, orc["groups"]))
    return bad


def case_key(case):
    return json.dumps(case, sort_keys=True, default=str)


def _one(case):
    rec = spy_initialize()
    rec.clear()
    impl_res = I.run_flox(case)
    try:
        orc = I.oracle(case)
    except Exception as e:  # noqa: BLE001
        orc = {"error": repr(e)}
    r = {k: v for k, v in rec.items() if k != "fill_user"}
    fu = rec.get("fill_user")
    import numpy as np

    if fu is None:
        r["fill_user"] = None
    else:
        try:
            import flox.xrdtypes as xd

            r["fill_user"] = "NA" if fu is xd.NA else I.fnum(fu)
        except Exception:  # noqa: BLE001
            r["fill_user"] = None
    return impl_res, r, orc


def run_cases(cases, workers=None):
    """run flox + oracle on all cases in a process pool; order preserved"""
    import multiprocessing as mp
    from concurrent.futures import ProcessPoolExecutor

    workers = workers or min(C.NCPU, 16)
    if len(cases) < 40 or workers <= 1:
        return [_one(c) for c in cases]
    ctx = mp.get_context("fork")
    with ProcessPoolExecutor(max_workers=workers, mp_context=ctx) as ex:
        return list(ex.map(_one, cases, chunksize=max(1, len(cases) // (workers * 8))))


def rec_fill(rec):
    f = rec.get("fill_user")
    if f is None:
        return None
    if f == "NA":
        return float("nan")
    return I.unf(f)
