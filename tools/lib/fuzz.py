"""Wide differential stream shared by several checks: one random `groupby_reduce` request drawn from a WIDE configuration space
(1-3-D values with optional batch axes, 1-3 groupers given as 1-D or n-d broadcasting label arrays of several dtypes, every
reduction, axis subsets, fills / min_count / dtype=, engines, sort, expected groups in several forms) is evaluated in memory and
chunked (random chunks on every axis, every method, reindex, split_every, labels in numpy or dask arrays); the chunked answer
must equal the in-memory answer of the SAME call: values, returned labels, shape and dtype.  No oracle of its own (the in-memory
result is the reference; its agreement with NumPy is C01's business), so no false alarm can come from a modelling mistake here.
Refusals (ValueError / NotImplementedError) of the chunked call are counted, internal errors are violations."""
from __future__ import annotations

import warnings

FUNCS = ["sum", "nansum", "prod", "nanprod", "max", "nanmax", "min", "nanmin", "mean", "nanmean", "var", "nanvar", "std", "nanstd", "count",
         "first", "last", "nanfirst", "nanlast", "argmax", "argmin", "nanargmax", "nanargmin", "any", "all"]


def draw(rng, funcs=None, force=None):
    """a JSON-able description of one request"""
    force = force or {}
    nlab = force.get("nlab", rng.choice([1, 1, 1, 2, 3]))
    nbatch = force.get("nbatch", rng.choice([0, 0, 1, 2]) if nlab < 3 else rng.choice([0, 1]))
    if nlab == 1:
        lshape = (rng.randint(2, 24),)
    else:
        lshape = tuple(rng.randint(1, 5) for _ in range(nlab))
    bshape = tuple(rng.randint(1, 3) for _ in range(nbatch))
    func = rng.choice(funcs or FUNCS)
    ngroupers = force.get("ngroupers", 1 if ("arg" in func or rng.random() < 0.7) else rng.randint(2, 3))
    dtype = rng.choice(["float64", "float64", "float32", "int64", "int8", "uint8", "bool"])
    if func in ("any", "all"):
        dtype = "bool"
    if func in ("prod", "nanprod") and dtype in ("int8", "uint8"):
        dtype = "int64"
    n = 1
    for s in bshape + lshape:
        n *= s
    if dtype.startswith("float"):
        vals = [rng.choice([-2.5, -1.0, 0.0, 0.5, 1.0, 2.0, 3.0, 7.0]) for _ in range(n)]
        if func.startswith("nan") or func == "count" or rng.random() < 0.15:
            vals = [v if rng.random() > 0.15 else "nan" for v in vals]
        if "arg" in func or func in ("max", "min", "nanmax", "nanmin"):
            vals = [v if rng.random() > 0.05 else rng.choice(["inf", "-inf"]) for v in vals]
        if "arg" in func:
            # arg reductions are specified on NaN-free groups (argmax/argmin) / on groups that are not entirely NaN (nanarg*): keep the data NaN-free
            vals = [v if v != "nan" else 0.0 for v in vals]
    elif dtype == "bool":
        vals = [rng.random() < 0.5 for _ in range(n)]
    else:
        hi = {"int64": 9, "int8": 100, "uint8": 200}[dtype]
        vals = [rng.randint(0 if dtype == "uint8" else -hi, hi) for _ in range(n)]
    groupers = []
    for gi in range(ngroupers):
        ng = rng.randint(1, 4)
        if ngroupers > 1 and nlab > 1 and rng.random() < 0.5:
            ax = rng.randrange(nlab)
            gshape = tuple(lshape[i] if i == ax else 1 for i in range(nlab))
        else:
            gshape = lshape
        m = 1
        for s in gshape:
            m *= s
        ldt = rng.choice(["int64", "int64", "float64", "uint8", "int8"])
        pat = rng.choice(["random", "sorted", "cyclic", "runs"])
        if pat == "random":
            lab = [rng.randrange(ng) for _ in range(m)]
        elif pat == "sorted":
            lab = sorted(rng.randrange(ng) for _ in range(m))
        elif pat == "cyclic":
            lab = [i % ng for i in range(m)]
        else:
            lab = []
            while len(lab) < m:
                lab += [rng.randrange(ng)] * rng.randint(1, 3)
            lab = lab[:m]
        if ldt == "float64" and rng.random() < 0.4:
            lab = [x if rng.random() > 0.12 else "nan" for x in lab]
        ek = rng.choice(["absent", "exact", "superset", "subset", "shuffled"]) if ngroupers == 1 else rng.choice(["exact", "superset"])
        present = sorted({x for x in lab if x != "nan"})
        if ek == "absent" or not present:
            expected = None
        elif ek == "exact":
            expected = list(range(ng))
        elif ek == "superset":
            expected = list(range(ng + 2))
        elif ek == "subset":
            expected = present[: max(1, len(present) - 1)]
        else:
            expected = list(range(ng))
            rng.shuffle(expected)
        groupers.append({"shape": list(gshape), "labels": lab, "dtype": ldt, "expected": expected})
    any_expected = any(g["expected"] is not None for g in groupers)
    if ngroupers > 1 and not all(g["expected"] is not None for g in groupers):
        for g in groupers:
            g["expected"] = None
        any_expected = False
    c = {"func": func, "dtype": dtype, "bshape": list(bshape), "lshape": list(lshape), "vals": vals, "groupers": groupers,
         "engine": rng.choice(["numpy", "flox", None, "numbagg"]), "sort": rng.random() < 0.75}
    if "arg" in func and c["engine"] in ("flox", "numbagg"):
        c["engine"] = "numpy"
    if any_expected:
        c["fill_value"] = rng.choice([None, "nan", 0, -1]) if dtype != "bool" else rng.choice([None, False])
        if c["fill_value"] is None and any(g["expected"] is not None and set(g["expected"]) - {x for x in g["labels"] if x != "nan"} for g in groupers):
            c["fill_value"] = "nan" if dtype != "bool" else False
        if ngroupers > 1 and c["fill_value"] is None:
            # combinations of labels may be absent even when every label occurs: a fill is part of the documented contract then
            c["fill_value"] = "nan" if dtype != "bool" else False
        if dtype == "uint8" and c["fill_value"] == -1:
            c["fill_value"] = 0
        if rng.random() < 0.25 and c["fill_value"] is not None:
            c["min_count"] = rng.choice([1, 2])
    if nlab > 1 and ngroupers == 1 and any_expected and rng.random() < 0.35 and "arg" not in func and func not in ("first", "last", "nanfirst", "nanlast"):
        k = rng.randint(1, nlab)
        axes = rng.sample(range(nbatch, nbatch + nlab), k)
        c["axis"] = [a - (nbatch + nlab) if rng.random() < 0.5 else a for a in axes]
    if func in ("var", "nanvar", "std", "nanstd"):
        c["ddof"] = rng.choice([0, 1])
    if rng.random() < 0.1 and func in ("sum", "nansum", "max", "min", "mean"):
        c["out_dtype"] = rng.choice(["float64", "float32"])
    # the chunked variant
    shape = bshape + lshape
    comp = lambda s: _composition(rng, s, 4)  # noqa: E731
    c["chunks"] = [comp(s) for s in shape]
    c["method"] = rng.choice([None, None, "map-reduce", "cohorts"])
    c["reindex"] = rng.choice([None, None, True, False])
    c["split_every"] = rng.choice([None, 2, 3])
    c["by_dask"] = rng.random() < 0.25 and all(g["shape"] == list(lshape) for g in groupers)
    return c


def _composition(rng, n, maxparts):
    if n <= 1:
        return [n]
    cuts = sorted(rng.sample(range(1, n), k=min(n - 1, rng.randint(0, maxparts - 1))))
    pts = [0] + cuts + [n]
    return [b - a for a, b in zip(pts, pts[1:])]


def _unf(x):
    return {"nan": float("nan"), "inf": float("inf"), "-inf": float("-inf")}.get(x, x) if isinstance(x, str) else x


def build(c, chunked):
    """-> (array, bys, kwargs)"""
    import dask.array as da
    import numpy as np

    shape = tuple(c["bshape"]) + tuple(c["lshape"])
    vals = np.array([_unf(v) for v in c["vals"]], dtype=c["dtype"]).reshape(shape)
    bys, expected = [], []
    for g in c["groupers"]:
        by = np.array([_unf(v) for v in g["labels"]], dtype=g["dtype"]).reshape(g["shape"])
        bys.append(by)
        expected.append(None if g["expected"] is None else np.array(g["expected"], dtype=g["dtype"]))
    kw = {"func": c["func"], "engine": c["engine"], "sort": c["sort"]}
    if any(e is not None for e in expected):
        kw["expected_groups"] = tuple(expected) if len(expected) > 1 else expected[0]
    for k in ("min_count", "axis"):
        if c.get(k) is not None:
            kw[k] = tuple(c[k]) if k == "axis" else c[k]
    if c.get("fill_value") is not None:
        kw["fill_value"] = _unf(c["fill_value"])
    if c.get("ddof") is not None:
        kw["finalize_kwargs"] = {"ddof": c["ddof"]}
    if c.get("out_dtype"):
        kw["dtype"] = c["out_dtype"]
    arr = vals
    if chunked:
        arr = da.from_array(vals, chunks=tuple(tuple(x) for x in c["chunks"]))
        kw["method"] = c["method"]
        if c["reindex"] is not None:
            kw["reindex"] = c["reindex"]
        if c["by_dask"]:
            nl = len(c["lshape"])
            bys = [da.from_array(b, chunks=arr.chunks[-nl:]) for b in bys]
    return arr, bys, kw


def evaluate(c, chunked):
    """-> ("Ok", values, groups, dtype) | (exception class, message)"""
    import dask
    import numpy as np

    import flox

    from . import impl as I

    arr, bys, kw = build(c, chunked)
    cfg = {"scheduler": "sync"}
    if chunked and c.get("split_every"):
        cfg["split_every"] = c["split_every"]
    try:
        with warnings.catch_warnings(), dask.config.set(**cfg):
            warnings.simplefilter("ignore")
            res, *groups = flox.groupby_reduce(arr, *bys, **kw)
            if hasattr(res, "compute") or any(hasattr(g, "compute") for g in groups):
                res, groups = dask.compute(res, groups)
        return ("Ok", np.asarray(res), [np.asarray(g) for g in groups], str(np.asarray(res).dtype))
    except BaseException as e:  # noqa: BLE001
        if isinstance(e, (KeyboardInterrupt, SystemExit)):
            raise
        return (I.exc_class(e), str(e)[:160])


def compare(c, eager, chunked):
    """None if the chunked evaluation is acceptable, else a description of the difference"""
    import numpy as np

    if eager[0] != "Ok":
        return None                       # the in-memory call itself is refused / fails: not a chunked-vs-eager question
    if chunked[0] != "Ok":
        if chunked[0] in ("ValueError", "NotImplementedError", "ImportError"):
            return "REFUSED"
        return f"chunked evaluation raised an internal error {chunked[0]}: {chunked[1]}"
    _, ev, eg, ed = eager
    _, cv, cg, cd = chunked
    unordered = (not c["sort"]) and any(g["expected"] is None for g in c["groupers"])
    if len(eg) != len(cg):
        return "number of returned label arrays differs"
    if unordered:
        # order of discovered labels is unspecified for chunked input with sort=False: compare as a mapping (single grouper only)
        if len(eg) != 1 or ev.shape != cv.shape:
            return None if len(eg) != 1 else f"shape differs: chunked {cv.shape}, in memory {ev.shape}"
        em = {str(k): ev[..., i] for i, k in enumerate(eg[0].tolist())}
        cm = {str(k): cv[..., i] for i, k in enumerate(cg[0].tolist())}
        if set(em) != set(cm) or len(cm) != len(cg[0]):
            return f"returned labels differ: chunked {sorted(cm)}, in memory {sorted(em)}"
        for k in em:
            if not np.allclose(np.asarray(em[k], dtype=float), np.asarray(cm[k], dtype=float), equal_nan=True, rtol=1e-6, atol=1e-9):
                return f"value of label {k} differs"
        return None
    for a, b in zip(eg, cg):
        if a.shape != b.shape or not all(str(x) == str(y) for x, y in zip(a.reshape(-1).tolist(), b.reshape(-1).tolist())):
            return f"returned labels differ: chunked {b.tolist()}, in memory {a.tolist()}"
    if ev.shape != cv.shape:
        return f"shape differs: chunked {cv.shape}, in memory {ev.shape}"
    if ed != cd:
        return f"dtype differs: chunked {cd}, in memory {ed}"
    tol = dict(rtol=1e-6, atol=1e-9) if (c["dtype"] == "float32" or c.get("out_dtype") == "float32" or c["func"] in ("var", "nanvar", "std", "nanstd", "mean", "nanmean")) else dict(rtol=1e-12, atol=0)
    if not np.allclose(np.asarray(ev, dtype=float), np.asarray(cv, dtype=float), equal_nan=True, **tol):
        return "values differ"
    return None


def run_stream(run, rng, n, pid, funcs=None, force=None, tag="wide"):
    import json

    import numpy as np

    c = None
    for _ in range(n):
        c = draw(rng, funcs, force)
        eager = evaluate(c, False)
        if eager[0] != "Ok":
            run.extra["wide_eager_refused_or_failed"] = run.extra.get("wide_eager_refused_or_failed", 0) + 1
            continue
        chunked = evaluate(c, True)
        nblocks = int(np.prod([len(x) for x in c["chunks"]]))
        run.count("wide|" + json.dumps(c, sort_keys=True, default=str), nblocks > 1)
        h = run.extra.setdefault("wide_stream_histogram", {})
        for k_ in (f"func:{c['func']}", f"method:{c['method']}", f"groupers:{len(c['groupers'])}", f"ndim:{len(c['bshape']) + len(c['lshape'])}", f"dtype:{c['dtype']}"):
            h[k_] = h.get(k_, 0) + 1
        d = compare(c, eager, chunked)
        if d == "REFUSED":
            run.extra["wide_chunked_refusals"] = run.extra.get("wide_chunked_refusals", 0) + 1
            continue
        if d:
            run.violation({"property": pid, "kind": "wide stream: the chunked evaluation differs from the in-memory evaluation of the same request: " + d,
                           "request": c, "in_memory": [eager[1].tolist(), [g.tolist() for g in eager[2]], eager[3]],
                           "chunked": [chunked[1].tolist(), [g.tolist() for g in chunked[2]], chunked[3]] if chunked[0] == "Ok" else list(chunked),
                           "how_to_run": "tools/lib/fuzz.py: evaluate(request, False) vs evaluate(request, True)"}, tag=tag)
    if c:
        run.sample({"wide_request": {k: v for k, v in c.items() if k != "vals"}})
