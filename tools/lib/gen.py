"""Generators: one PRNG per run (VERIF_SEED); every case is a JSON-able dict."""
from __future__ import annotations

import itertools
import random

NANS = "nan"
ALPHA_SMALL = [-2, -1, 0, 1, 2, "nan", "inf", "-inf"]
ALPHA_FINITE = [-3, -2, -1, 0, 1, 2, 3]

REDUCE_FUNCS = [
    "sum", "nansum", "prod", "nanprod", "max", "nanmax", "min", "nanmin", "count",
    "mean", "nanmean", "var", "nanvar", "std", "nanstd", "nanfirst", "nanlast",
]
ARG_FUNCS = ["argmax", "argmin", "nanargmax", "nanargmin"]
BOOL_FUNCS = ["all", "any"]
FIRSTLAST = ["first", "last"]


def compositions(n, maxparts=None):
    """all ordered tuples of positive ints summing to n"""
    if n == 0:
        yield ()
        return
    for first in range(1, n + 1):
        for rest in compositions(n - first):
            c = (first,) + rest
            if maxparts is None or len(c) <= maxparts:
                yield c


def random_composition(rng: random.Random, n, maxparts=None):
    cuts = sorted(rng.sample(range(1, n), k=min(n - 1, rng.randint(0, (maxparts or n) - 1)))) if n > 1 else []
    pts = [0] + cuts + [n]
    return tuple(b - a for a, b in zip(pts, pts[1:]))


def rand_vals(rng, n, alphabet=ALPHA_SMALL, p_special=0.25):
    out = []
    for _ in range(n):
        if rng.random() < p_special:
            out.append(rng.choice([x for x in alphabet if isinstance(x, str)] or alphabet))
        else:
            out.append(rng.choice([x for x in alphabet if not isinstance(x, str)]))
    return out


def rand_labels(rng, n, ngroups, p_missing=0.0, style=None):
    style = style or rng.choice(["random", "sorted", "periodic", "runs"])
    if style == "random":
        lab = [rng.randrange(ngroups) for _ in range(n)]
    elif style == "sorted":
        lab = sorted(rng.randrange(ngroups) for _ in range(n))
    elif style == "periodic":
        lab = [i % ngroups for i in range(n)]
    else:
        lab, g = [], 0
        while len(lab) < n:
            lab += [g % ngroups] * rng.randint(1, 3)
            g += 1
        lab = lab[:n]
    return [("nan" if rng.random() < p_missing else x) for x in lab]


def has_special(vals):
    return any(isinstance(v, str) for v in vals)


def tie_heavy_cases(rng, n):
    """position-sensitive reductions beyond the small scope: 150-400 elements from a two-value alphabet (ties everywhere, also
    across chunk boundaries), 25-60 groups, 8-24 blocks, shallow and deep trees (split_every 2 / default / number of blocks):
    a combine step sees far more than 64 candidates"""
    out = []
    for _ in range(n):
        m = rng.randint(150, 400)
        ng = rng.randint(25, 60)
        func = rng.choice(["argmax", "argmin", "nanargmax", "nanargmin", "nanfirst", "nanlast"])
        vals = [rng.choice([0, 1]) for _ in range(m)]
        if func.startswith("nan"):
            vals = [v if rng.random() > 0.1 else "nan" for v in vals]
        labels = [rng.randrange(ng) for _ in range(m)]
        chunks = random_composition(rng, m, rng.randint(8, 24))
        out.append({"func": func, "vals": vals, "labels": labels, "chunks": [list(chunks)], "method": rng.choice([None, "map-reduce", "cohorts"]),
                    "engine": "numpy", "split_every": rng.choice([None, 2, max(2, len(chunks))]), "expected": list(range(ng)), "fill_value": -1})
    return out
