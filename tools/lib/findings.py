"""Known findings: /verif/known_findings.json lists which finding ids are active ("known") or
"fixed"; the predicates that recognise a listed finding live here (a finding is identified by the
specific input class / call site that fails, so any OTHER violation is still reported)."""
from __future__ import annotations

import json
import math

from . import common as C
from . import impl as I


def _load():
    p = C.ROOT / "known_findings.json"
    if not p.exists():
        return {}
    return {f["id"]: f for f in json.loads(p.read_text()).get("findings", [])}


FINDINGS = _load()


def active(fid):
    f = FINDINGS.get(fid)
    return f is not None and f.get("status") == "known"


def describe(fid):
    f = FINDINGS.get(fid, {})
    return f"{fid}: {f.get('what', '')}"


def corpus(pid):
    """minimised failing cases kept from earlier runs (regression corpus, runs first)"""
    out = []
    d = C.ROOT / "corpus" / pid
    if d.is_dir():
        for p in sorted(d.glob("*.json")):
            try:
                out.append(json.loads(p.read_text())["case"])
            except Exception:  # noqa: BLE001
                pass
    return out


# ---------------------------------------------------------------- predicates
def _vals(case):
    return [I.unf(v) for v in case["vals"]]


def _group_members(case, g):
    labs = [I.unf(x) for x in case["labels"]]
    return [v for v, l in zip(_vals(case), labs) if l == I.unf(g)]


PREDICATES = {}


def pred(fid):
    def deco(fn):
        PREDICATES[fid] = fn
        return fn
    return deco


def classify(pid, case, impl_res, bad):
    """-> id of the known finding that explains ALL mismatches of this case, or None"""
    for fid, fn in PREDICATES.items():
        if not active(fid):
            continue
        if pid not in FINDINGS[fid].get("properties", [pid]):
            continue
        try:
            if fn(case, impl_res, bad):
                return fid
        except Exception:  # noqa: BLE001
            continue
    return None


def _absent_labels(case):
    labs = {I.unf(x) for x in case["labels"] if x != "nan"}
    return [e for e in (case.get("expected") or []) if e not in labs]


@pred("KF01-explicit-mincount0-absent-label")
def _kf01(case, impl_res, bad):
    if case.get("min_count") != 0 or case.get("fill_value") is None or not case.get("expected"):
        return False
    absent = set(_absent_labels(case))
    return bool(absent) and all(g in absent for g, _, _ in bad)


@pred("KF10-nanminmax-mincount0-allnan-group-filled")
def _kf10(case, impl_res, bad):
    if case.get("func") not in ("nanmin", "nanmax") or case.get("min_count") != 0 or case.get("fill_value") is None:
        return False
    for g, got, want in bad:
        mem = _group_members(case, g)
        if not mem or not all(isinstance(v, float) and math.isnan(v) for v in mem):
            return False
    return True


def in_known_cell(case):
    """cells for which the Coq model is not evaluated because a listed finding changes the code's behaviour there"""
    if active("KF01-explicit-mincount0-absent-label") and case.get("min_count") == 0 and case.get("fill_value") is not None \
            and case.get("expected") and _absent_labels(case):
        return True
    if active("KF10-nanminmax-mincount0-allnan-group-filled") and case.get("func") in ("nanmin", "nanmax") and case.get("min_count") == 0 \
            and case.get("fill_value") is not None:
        labs = {I.unf(x) for x in case["labels"] if x != "nan"}
        if any(all(isinstance(v, float) and math.isnan(v) for v in _group_members(case, g)) for g in labs):
            return True
    return False


@pred("KF02-nanarg-allnan-block-sentinel-tie")
def _kf02(case, impl_res, bad):
    if case.get("func") not in ("nanargmax", "nanargmin") or not case.get("chunks"):
        return False
    sent = float("-inf") if case["func"] == "nanargmax" else float("inf")
    vals = _vals(case)
    labs = [I.unf(x) for x in case["labels"]]
    sizes = case["chunks"][-1]
    groups_hit = set()
    for g in {l for l in labs if not (isinstance(l, float) and math.isnan(l))}:
        mem = [v for v, l in zip(vals, labs) if l == g and not math.isnan(v)]
        if not mem or (max(mem) if sent < 0 else min(mem)) != sent:
            continue
        off = 0
        for s in sizes:
            blk = [(v, l) for v, l in zip(vals[off:off + s], labs[off:off + s]) if l == g]
            if blk and all(math.isnan(v) for v, _ in blk):
                groups_hit.add(g)
            off += s
    if not groups_hit:
        return False
    for g, _, _ in bad:          # every mismatching group (reported by LABEL) must be one of the groups hit
        if g not in groups_hit:
            return False
    return True


@pred("KF03-numba-anyall-float-fill")
def _kf03(case, impl_res, bad):
    return (case.get("engine") == "numba" and case.get("func") in ("any", "all") and not impl_res.get("ok")
            and "TypingError" in impl_res.get("exc", "") and case.get("fill_value") is not None)


@pred("KF04-bool-minmax-fill-cast")
def _kf04(case, impl_res, bad):
    if case.get("dtype") != "bool" or case.get("fill_value") in (None, True, False):
        return False
    if case.get("func") not in ("min", "max", "nanmin", "nanmax", "first", "last", "nanfirst", "nanlast"):
        return False
    absent = set(_absent_labels(case))
    mc = case.get("min_count") or 0
    return all((g in absent or mc > 1) and got is True for g, got, _ in bad)


ND_PREDICATES = {}


def classify_nd(pid, info):
    for fid, fn in ND_PREDICATES.items():
        if active(fid) and pid in FINDINGS[fid].get("properties", [pid]):
            try:
                if fn(info):
                    return fid
            except Exception:  # noqa: BLE001
                pass
    return None


@pred("KF05-numba-minmax-ignores-nan")
def _kf05(case, impl_res, bad):
    if case.get("engine") != "numba" or case.get("func") not in ("max", "min"):
        return False
    for g, got, want in bad:
        mem = _group_members(case, g)
        if not any(isinstance(v, float) and math.isnan(v) for v in mem):
            return False
    return True


def probe_kf05(run):
    """run the witness of KF05 so that the finding is reported (or noticed as gone) on every C01 run"""
    if not active("KF05-numba-minmax-ignores-nan"):
        return
    import numpy as np
    import flox
    r = np.asarray(flox.groupby_reduce(np.array([1.0, np.nan, 3.0, 2.0]), np.array([0, 0, 1, 1]), func="max", engine="numba")[0])
    if not np.isnan(r[0]):
        run.known("KF05-numba-minmax-ignores-nan", describe("KF05-numba-minmax-ignores-nan"))


def _nd_kf03(info):
    return info.get("engine") == "numba" and info.get("func") in ("any", "all") and "TypingError" in str(info.get("exc", ""))


ND_PREDICATES["KF03-numba-anyall-float-fill"] = _nd_kf03


# ---------------------------------------------------------------- witness probes
def _probe_kf01():
    import numpy as np
    import flox
    r = np.asarray(flox.groupby_reduce(np.array([1.0, 2.0, 3.0]), np.array([0, 0, 2]), func="sum", expected_groups=np.array([0, 1, 2]),
                                       fill_value=-5, min_count=0)[0], dtype=float)
    return not (r[1] == -5)


def _probe_kf02():
    import dask.array as da
    import numpy as np
    import flox
    r = np.asarray(flox.groupby_reduce(da.from_array(np.array([np.nan, 5.0, -np.inf, 7.0]), chunks=2), np.array([0, 1, 0, 1]),
                                       func="nanargmax")[0].compute())
    return int(r[0]) != 2


def _probe_kf03():
    import numpy as np
    import flox
    try:
        flox.groupby_reduce(np.array([False, True, True]), np.array([3, 3, 2]), func="all", engine="numba",
                            expected_groups=np.array([0, 2, 3]), fill_value=np.nan)
        return False
    except (ValueError, NotImplementedError):
        return False
    except Exception:  # noqa: BLE001
        return True


def _probe_kf04():
    import numpy as np
    import flox
    r = np.asarray(flox.groupby_reduce(np.array([True, False]), np.array([0, 1]), func="nanmin", expected_groups=np.array([0, 1, 7]),
                                       fill_value=np.nan)[0])
    return r.dtype == bool


def _probe_kf05():
    import numpy as np
    import flox
    r = np.asarray(flox.groupby_reduce(np.array([1.0, np.nan, 3.0, 2.0]), np.array([0, 0, 1, 1]), func="max", engine="numba")[0])
    return not np.isnan(r[0])


def _probe_kf06():
    import numpy as np
    import xarray as xr
    from flox.xarray import xarray_reduce
    ds = xr.Dataset({"v": (("y", "x"), np.ones((4, 2))), "u": (("x",), [1.0, 2.0]), "p": (("y",), np.arange(4.0))}, coords={"lab": ("x", [0, 0])})
    r = xarray_reduce(ds, "lab", func="sum", dim=...)
    return float(r["u"].values[0]) != 3.0


def _probe_kf07():
    import numpy as np
    import xarray as xr
    from flox.xarray import xarray_reduce
    v = xr.DataArray(np.arange(12.0).reshape(2, 2, 3), dims=("z", "y", "x"), coords={"lab": (("x", "z"), np.zeros((3, 2), dtype=int))})
    with xr.set_options(use_flox=False):
        n = v.groupby("lab").sum(dim="y")
    return xarray_reduce(v, "lab", func="sum", dim="y").dims != n.dims


def _probe_kf08():
    import numpy as np
    import xarray as xr
    from flox.xarray import xarray_reduce
    v = xr.DataArray(np.arange(12.0).reshape(3, 2, 2), dims=("x", "y", "z"), coords={"lab": ("x", [0, 1, 0])})
    r = xarray_reduce(v, "lab", func="mean", dim="z", expected_groups=np.array([-0.5, 2.5]), isbin=True, fill_value=np.nan)
    return "lab_bins" in r.dims


def _probe_kf11():
    import numpy as np
    import xarray as xr
    from flox.xarray import xarray_reduce
    lab = np.array(["2001-01-01", "2002-03-04", "NaT", "2001-01-01"], dtype="datetime64[ns]")
    v = xr.DataArray(np.arange(8.0).reshape(4, 2), dims=("x", "y"), coords={"lab": ("x", lab)})
    r = xarray_reduce(v, "lab", func="min", dim="y")
    return r.sizes.get("x") == 4


def _probe_kf09():
    import numpy as np
    import flox
    t = np.array(["2001-01-01", "NaT", "2001-01-05", "NaT"], dtype="datetime64[ns]")
    r = np.asarray(flox.groupby_scan(t, np.array([0, 0, 1, 1]), func="ffill"))
    return bool(np.isnat(r[1]))


def _probe_kf10():
    import numpy as np
    import flox
    r = np.asarray(flox.groupby_reduce(np.array([1.0, np.nan]), np.array([0, 3]), func="nanmax", expected_groups=np.array([0, 3]),
                                       fill_value=-7, min_count=0)[0], dtype=float)
    return not np.isnan(r[1])


PROBES = {"KF10": _probe_kf10, "KF09": _probe_kf09, "KF01": _probe_kf01, "KF02": _probe_kf02, "KF03": _probe_kf03, "KF04": _probe_kf04, "KF05": _probe_kf05,
          "KF06": _probe_kf06, "KF07": _probe_kf07, "KF08": _probe_kf08, "KF11": _probe_kf11}


def probe_listed(run):
    """Every run replays the witness of each listed (status=known) finding of its property: the KNOWN-FINDING line is printed
    iff the witness still fails on the tree under test (a finding that disappeared is recorded in the evidence, not printed).
    The witnesses run in a fresh interpreter (numba / OpenMP state must not be created in the parent of the worker pools)."""
    import subprocess
    ids = [fid for fid, f in FINDINGS.items() if f.get("status") == "known" and run.pid in f.get("properties", []) and fid[:4] in PROBES]
    if not ids:
        return
    code = ("import json, sys, warnings; warnings.simplefilter('ignore'); sys.path.insert(0, '/verif')\n"
            "from tools.lib import findings as F\nout = {}\n"
            f"for fid in {ids!r}:\n"
            "    try:\n        out[fid] = bool(F.PROBES[fid[:4]]())\n"
            "    except Exception:\n        out[fid] = True\n"
            "print('PROBES ' + json.dumps(out))\n")
    try:
        res = subprocess.run([C.PY, "-c", code], env=C.ENV, capture_output=True, text=True, timeout=600, cwd=str(C.ROOT))
        line = [l for l in res.stdout.splitlines() if l.startswith("PROBES ")][-1]
        out = json.loads(line[len("PROBES "):])
    except Exception as e:  # noqa: BLE001
        run.extra["listed_findings_probe_error"] = repr(e)[:200]
        return
    gone = [fid for fid, still in out.items() if not still]
    for fid, still in out.items():
        if still:
            run.known(fid, describe(fid))
    if gone:
        run.extra["listed_findings_whose_witness_no_longer_fails"] = gone
