"""One flox call described by a JSON-able dict: built here both by the C14 history harness (in a process with a
history) and by a FRESH interpreter (`python -m tools.lib.histcall '<json>'`) that makes only this call."""
from __future__ import annotations

import json
import sys
import warnings


def build(c):
    """returns the (possibly lazy) result of the call"""
    import dask.array as da
    import numpy as np

    import flox

    v = np.array(c["vals"]).astype(c.get("dtype", "float64"))
    lab = np.array(c["labels"])
    if c.get("shape"):
        # n-d request: values and labels of the same shape, the same chunks on every axis
        v = v.reshape(c["shape"])
        lab = lab.reshape(c["shape"])
        arr = da.from_array(v, chunks=tuple(tuple(c["chunks"]) for _ in c["shape"])) if c.get("chunks") else v
    else:
        arr = da.from_array(v, chunks=(tuple(c["chunks"]),)) if c.get("chunks") else v
    if c["kind"] == "scan":
        return flox.groupby_scan(arr, lab, func=c["func"])
    kw = {}
    if c.get("ddof") is not None:
        kw["finalize_kwargs"] = {"ddof": c["ddof"]}
    if c.get("out_dtype"):
        kw["dtype"] = c["out_dtype"]
    if c.get("axis") is not None:
        kw["axis"] = c["axis"]
    r, _ = flox.groupby_reduce(arr, lab, func=c["func"], method=c.get("method"), expected_groups=np.array([0, 1, 2]),
                               fill_value=c.get("fill_value", -1), **kw)
    return r


def compute(r):
    import dask
    import numpy as np

    with dask.config.set(scheduler="sync"):
        a = np.asarray(r.compute() if hasattr(r, "compute") else r)
    return a


def canon(a):
    """(dtype name, list of floats / 'nan')"""
    import numpy as np

    a = np.asarray(a)
    f = a.astype(float).ravel()
    return [str(a.dtype), ["nan" if x != x else float(x) for x in f]]


if __name__ == "__main__":
    sys.path.insert(0, "/repo")
    warnings.filterwarnings("ignore")
    c = json.loads(sys.argv[1])
    try:
        print("RESULT " + json.dumps(canon(compute(build(c)))))
    except (ValueError, NotImplementedError, OverflowError) as e:
        print("RESULT " + json.dumps(["refused", type(e).__name__]))
