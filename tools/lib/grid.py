"""The finite configuration grid of groupby_reduce (shared by C12 and C19) and a runner that records, per cell:
the outcome class at call time and at compute time, whether anything was computed during the call, the type of
the returned object and the computed values."""
from __future__ import annotations

import itertools
import math
import random
import warnings

FUNCS = ["sum", "nansum", "prod", "nanprod", "mean", "nanmean", "var", "nanvar", "std", "nanstd", "max", "nanmax", "min", "nanmin",
         "first", "last", "nanfirst", "nanlast", "count", "argmax", "argmin", "nanargmax", "nanargmin", "any", "all",
         "median", "nanmedian", "quantile", "nanquantile"]
CORE_FUNCS = ["sum", "nanmax", "mean", "argmax", "nanfirst", "median", "first", "count"]
ENGINES = [None, "numpy", "flox", "numba", "numbagg"]
METHODS = [None, "map-reduce", "cohorts", "blockwise"]
REINDEX = [None, True, False]
LABELKIND = ["numpy", "dask", "dask-labels-numpy-array"]
NDIM = [1, 2, 3]
AXIS = ["all", "last"]
EXPECTED = [True, False]
LAYOUT = ["one-block", "few-blocks", "many-blocks", "none-present"]

KEYS = ("func", "engine", "method", "reindex", "labelkind", "ndim", "axis", "expected", "layout")


def all_cells(funcs=FUNCS):
    for c in itertools.product(funcs, ENGINES, METHODS, REINDEX, LABELKIND, NDIM, AXIS, EXPECTED, LAYOUT):
        yield dict(zip(KEYS, c))


def inputs_for(cell, variant=0):
    """canonical in-contract inputs: aligned shapes, fill_value whenever a requested label may be absent;
    method='blockwise' only on inputs meeting its precondition (every group inside one block)"""
    import numpy as np

    n = 12
    # variant 0: sequential labels with chunk boundaries on group boundaries (meets the precondition of
    # method='blockwise', so all four methods are comparable); variant 1: interleaved labels (blockwise not applicable)
    if variant == 0:
        labels = np.repeat(np.arange(4), 3)
    else:
        labels = np.array([0, 1, 2, 0, 1, 2, 3, 3, 0, 1, 2, 3])
    vals = (np.arange(n, dtype=float) * (1 if variant == 0 else -1) + variant) % 7 - 3
    if cell["func"] in ("any", "all"):
        vals = vals > 0
    if cell["layout"] == "none-present":
        labels = labels + 10
    if cell["ndim"] >= 2:
        vals = np.stack([vals, vals[::-1]])
        labels = np.stack([labels, labels]) if cell["axis"] == "all" else np.stack([labels, (labels + 1) % 4 + (10 if cell["layout"] == "none-present" else 0)])
    if cell["ndim"] == 3:   # labels of three dimensions: three reduced axes when axis is 'all'
        vals = np.stack([vals, vals + 1])
        labels = np.stack([labels, labels])
    if variant == 0:
        chunks = {"one-block": (n,), "few-blocks": (3, 6, 3), "many-blocks": (3, 3, 3, 3), "none-present": (6, 6)}[cell["layout"]]
    else:
        chunks = {"one-block": (n,), "few-blocks": (4, 4, 4), "many-blocks": (1,) * n, "none-present": (5, 7)}[cell["layout"]]
    return vals, labels, chunks


def run_cell(cell, variant=0):
    import dask
    import dask.array as da
    import numpy as np

    import flox

    from . import graphs as GR
    from . import impl as I

    vals, labels, chunks = inputs_for(cell, variant)
    # blockwise precondition for 2-D labels: the first axis stays in one block (every group inside one block)
    full_chunks = (((2,) if variant == 0 else (1, 1)),) * (cell["ndim"] - 1) + (chunks,)
    arr = da.from_array(vals, chunks=full_chunks)
    by = labels
    if cell["labelkind"].startswith("dask"):
        by = da.from_array(labels, chunks=full_chunks[-labels.ndim:])
    if cell["labelkind"] == "dask-labels-numpy-array":
        arr = vals           # in-memory data grouped by chunked labels: still the graph path
    kw = {"func": cell["func"], "engine": cell["engine"], "method": cell["method"], "reindex": cell["reindex"]}
    if cell["expected"]:
        kw["expected_groups"] = np.arange(4)
        kw["fill_value"] = -1 if cell["func"] not in ("any", "all") else False
    if cell["axis"] == "last" and cell["ndim"] >= 2:
        kw["axis"] = -1
    if "quantile" in cell["func"]:
        kw["finalize_kwargs"] = {"q": 0.5}
    rs = GR.RaisingScheduler()
    out = {"call": "Ok", "compute": None, "lazy": None, "computes_during_call": 0, "result": None}
    with warnings.catch_warnings():
        warnings.simplefilter("ignore")
        try:
            with dask.config.set(scheduler=rs):
                res, *groups = flox.groupby_reduce(arr, by, **kw)
        except BaseException as e:  # noqa: BLE001
            if isinstance(e, (KeyboardInterrupt, SystemExit)):
                raise
            out["call"] = I.exc_class(e) if rs.calls == 0 or not isinstance(e, RuntimeError) else "Computed"
            out["msg"] = str(e)[:120]
            out["computes_during_call"] = rs.calls
            return out
        out["computes_during_call"] = rs.calls
        out["lazy"] = isinstance(res, da.Array) and all(isinstance(g, (np.ndarray, da.Array)) or hasattr(g, "dtype") for g in groups)
        out["groups_lazy_when_unknown"] = isinstance(groups[0], da.Array) if (cell["labelkind"].startswith("dask") and not cell["expected"]) else None
        try:
            with dask.config.set(scheduler="sync"):
                r, g = dask.compute(res, groups)
            out["compute"] = "Ok"
            out["result"] = [I.fnum(x) for x in np.asarray(r, dtype=float).reshape(-1)]
            out["groups"] = [I.fnum(x) for x in np.asarray(g[0], dtype=float).reshape(-1)]
            out["shape"] = list(np.asarray(r).shape)
        except BaseException as e:  # noqa: BLE001
            if isinstance(e, (KeyboardInterrupt, SystemExit)):
                raise
            out["compute"] = I.exc_class(e)
            out["msg"] = str(e)[:120]
    return out


def _run(cv):
    cell, variant = cv
    try:
        return run_cell(cell, variant)
    except Exception as e:  # noqa: BLE001
        return {"call": "Internal:harness:" + type(e).__name__, "compute": None, "msg": str(e)[:200], "computes_during_call": 0, "lazy": None}


def run_cells(cells, variants=(0,), workers=None):
    import multiprocessing as mp
    from concurrent.futures import ProcessPoolExecutor

    from . import common as C

    work = [(c, v) for c in cells for v in variants]
    workers = workers or min(C.NCPU, 16)
    with ProcessPoolExecutor(max_workers=workers, mp_context=mp.get_context("fork")) as ex:
        res = list(ex.map(_run, work, chunksize=max(1, len(work) // (workers * 8))))
    return work, res


def covering_cells(rng: random.Random, n_random):
    """all cells for the core reductions + a random sample of the rest"""
    cells = list(all_cells(CORE_FUNCS))
    rest = [c for c in all_cells([f for f in FUNCS if f not in CORE_FUNCS])]
    rng.shuffle(rest)
    return cells, rest[:n_random]
