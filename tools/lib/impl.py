"""Implementation side of the correspondence: call flox (imported from /repo) and the
independent NumPy oracle on one case.  A case is a plain dict (JSON-serialisable)."""
from __future__ import annotations

import math
import sys
import warnings

sys.path.insert(0, "/repo")
warnings.filterwarnings("ignore")

import numpy as np  # noqa: E402

import flox  # noqa: E402
import flox.core as fc  # noqa: E402

assert flox.__file__.startswith("/repo/"), flox.__file__

NAN = float("nan")


def to_array(vals, dtype="float64"):
    return np.array(vals, dtype=dtype)


def fnum(x):
    """JSON-able canonical number"""
    if isinstance(x, (np.bool_, bool)):
        return bool(x)
    if isinstance(x, (np.integer, int)):
        return int(x)
    x = float(x)
    if math.isnan(x):
        return "nan"
    if math.isinf(x):
        return "inf" if x > 0 else "-inf"
    return x


def unf(x):
    if x == "nan":
        return NAN
    if x == "inf":
        return math.inf
    if x == "-inf":
        return -math.inf
    return x


def same(a, b, rtol=1e-9):
    """numeric equality of two canonical numbers, NaN == NaN"""
    a, b = unf(a), unf(b)
    if a is None or b is None:
        return a is b
    a, b = float(a), float(b)
    if math.isnan(a) or math.isnan(b):
        return math.isnan(a) and math.isnan(b)
    if math.isinf(a) or math.isinf(b):
        return a == b
    return abs(a - b) <= rtol * max(1.0, abs(a), abs(b))


def exc_class(e: BaseException) -> str:
    if isinstance(e, NotImplementedError):
        return "NotImplementedError"
    if isinstance(e, ValueError):
        return "ValueError"
    if isinstance(e, ImportError):
        return "ImportError"
    return "Internal:" + type(e).__name__


def run_flox(case: dict):
    """-> {"ok": True, "result": nested list, "groups": [...], "dtype": str} or {"ok": False, "exc": cls, "msg":..}"""
    import dask
    import dask.array as da

    vals = to_array([unf(v) for v in case["vals"]], case.get("dtype", "float64"))
    if "shape" in case:
        vals = vals.reshape(case["shape"])
    labels = np.array([unf(v) for v in case["labels"]], dtype=case.get("label_dtype", "float64"))
    if "label_shape" in case:
        labels = labels.reshape(case["label_shape"])
    kw = {}
    if case.get("expected") is not None:
        kw["expected_groups"] = np.array(case["expected"], dtype=case.get("label_dtype", "float64"))
        if case.get("expected_as") == "pd.Index":       # the same request held in a pandas Index / a plain list
            import pandas as pd
            kw["expected_groups"] = pd.Index(kw["expected_groups"])
        elif case.get("expected_as") == "list":
            kw["expected_groups"] = kw["expected_groups"].tolist()
    for k in ("fill_value", "min_count", "engine", "method", "reindex", "axis", "isbin"):
        if case.get(k) is not None:
            kw[k] = unf(case[k]) if k == "fill_value" else case[k]
    if case.get("out_dtype") is not None:     # the dtype= argument of groupby_reduce ("dtype" is the INPUT dtype)
        kw["dtype"] = case["out_dtype"]
    if "sort" in case:
        kw["sort"] = case["sort"]
    fk = {}
    if case.get("ddof") is not None:
        fk["ddof"] = case["ddof"]
    if case.get("q") is not None:
        fk["q"] = case["q"]
    if fk:
        kw["finalize_kwargs"] = fk
    arr = vals
    by = labels
    if case.get("chunks") is not None:
        arr = da.from_array(vals, chunks=tuple(tuple(c) if isinstance(c, (list, tuple)) else c for c in case["chunks"]))
        if case.get("by_dask"):
            by = da.from_array(labels, chunks=arr.chunks[-labels.ndim:])
    try:
        with warnings.catch_warnings():
            warnings.simplefilter("ignore")
            cfg = {"scheduler": case.get("scheduler", "sync")}
            if case.get("split_every"):
                cfg["split_every"] = case["split_every"]
            with dask.config.set(**cfg):
                res, *groups = flox.groupby_reduce(arr, by, func=case["func"], **kw)
                if hasattr(res, "compute"):
                    res, groups = dask.compute(res, groups)
        res = np.asarray(res)
        return {
            "ok": True,
            "result": [fnum(x) for x in res.reshape(-1)],
            "shape": list(res.shape),
            "groups": [[fnum(x) if not isinstance(x, str) else x for x in np.asarray(g).reshape(-1)] for g in groups],
            "dtype": str(res.dtype),
        }
    except BaseException as e:  # noqa: BLE001
        if isinstance(e, (KeyboardInterrupt, SystemExit)):
            raise
        return {"ok": False, "exc": exc_class(e), "msg": str(e)[:200]}


# ------------------------------------------------------------------ NumPy oracle
NP_FUNCS = {
    "sum": np.sum, "nansum": np.nansum, "prod": np.prod, "nanprod": np.nanprod,
    "max": np.max, "nanmax": np.nanmax, "min": np.min, "nanmin": np.nanmin,
    "mean": np.mean, "nanmean": np.nanmean, "var": np.var, "nanvar": np.nanvar,
    "std": np.std, "nanstd": np.nanstd, "all": np.all, "any": np.any,
    "argmax": np.argmax, "argmin": np.argmin, "nanargmax": np.nanargmax, "nanargmin": np.nanargmin,
    "median": np.median, "nanmedian": np.nanmedian, "quantile": np.quantile, "nanquantile": np.nanquantile,
}


def effective_min_count(case):
    mc = case.get("min_count")
    if mc is None:
        return 1 if (case.get("fill_value") is not None and case.get("expected") is not None) else 0
    return mc


def oracle_group(func, members, positions, ddof=None, q=None):
    """NumPy reduction of one group's members (1-D float array), in original order."""
    with warnings.catch_warnings(), np.errstate(all="ignore"):
        warnings.simplefilter("ignore")
        if func == "count":
            return int(np.sum(~np.isnan(members))) if members.dtype.kind == "f" else len(members)
        if func in ("first", "last"):
            return members[0] if func == "first" else members[-1]
        if func in ("nanfirst", "nanlast"):
            ok = members[~np.isnan(members)] if members.dtype.kind == "f" else members
            if len(ok) == 0:
                return NAN
            return ok[0] if func == "nanfirst" else ok[-1]
        if func in ("argmax", "argmin"):
            if members.dtype.kind == "f" and np.isnan(members).any():
                return "UNSPEC"  # property: arg* only on NaN-free groups
            return int(positions[NP_FUNCS[func](members)])
        if func in ("nanargmax", "nanargmin"):
            ok = ~np.isnan(members) if members.dtype.kind == "f" else np.ones(len(members), bool)
            if not ok.any():
                return "UNSPEC"  # property: nanarg* only on groups not entirely NaN
            # first occurrence of the extreme among the non-NaN members (np.nanargmax itself substitutes
            # -inf for NaN and would return a NaN's position when the true maximum is -inf)
            f = np.argmax if func == "nanargmax" else np.argmin
            return int(positions[ok][f(members[ok])])
        f = NP_FUNCS[func]
        if func in ("var", "nanvar", "std", "nanstd"):
            return f(members, ddof=ddof or 0)
        if func in ("quantile", "nanquantile"):
            return f(members, q)
        return f(members)


def oracle(case: dict):
    """Per requested label: NumPy reduction of its members; fill for absent / under-min_count groups.
    1-D values and labels.  Returns {"result": [...], "groups": [...]} (sorted labels)."""
    vals = to_array([unf(v) for v in case["vals"]], case.get("dtype", "float64"))
    labels = np.array([unf(v) for v in case["labels"]], dtype=case.get("label_dtype", "float64"))
    if case.get("expected") is not None:
        groups = list(case["expected"])
        if case.get("sort", True):
            groups = sorted(groups)
    else:
        present = [x for x in labels.tolist() if not (isinstance(x, float) and math.isnan(x))]
        if case.get("sort", True):
            groups = sorted(set(present))
        else:
            groups = list(dict.fromkeys(present))
    mc = effective_min_count(case)
    func = case["func"]
    fill = unf(case["fill_value"]) if case.get("fill_value") is not None else None
    if fill is None and mc > 0 and func in ("nansum", "nanprod"):
        fill = NAN
    out = []
    pos = np.arange(len(vals))
    for g in groups:
        m = labels == g
        members, positions = vals[m], pos[m]
        nvalid = int(np.sum(~np.isnan(members))) if members.dtype.kind == "f" else len(members)
        if len(members) == 0 or nvalid < mc:
            out.append("FILL" if fill is None else fnum(fill))
        else:
            r = oracle_group(func, members, positions, case.get("ddof"), case.get("q"))
            out.append(r if isinstance(r, str) else fnum(r))
    return {"result": out, "groups": [g if isinstance(g, str) else fnum(g) for g in groups]}
