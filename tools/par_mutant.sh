#!/bin/bash
# usage: tools/par_mutant.sh <name> <patch.diff|-> <checks...>
# Runs quick checks against a PRIVATE copy of /repo (with the patch applied) and a PRIVATE copy of /verif, both
# bind-mounted over /repo and /verif inside a private mount namespace: /repo and /verif themselves are never touched,
# so several of these can run side by side.  Output: one line per check on stdout, logs under /tmp/pm/<name>/.
name="$1"; patch="$2"; shift 2
root=/tmp/pm/$name
rm -rf "$root"; mkdir -p "$root"
cp -r /repo "$root/repo"
rsync -a --exclude .git /verif/ "$root/verif/"
if [ "$patch" != "-" ]; then
  ( cd "$root/repo" && git apply "$patch" ) || { echo "$name: PATCH DOES NOT APPLY"; rm -rf "$root"; exit 3; }
fi
for c in "$@"; do
  s=$(date +%s)
  unshare -m bash -c "mount --bind $root/repo /repo && mount --bind $root/verif /verif && cd /verif && VERIF_SEED=${VERIF_SEED:-1} ./check $c --tier ${TIER:-quick}" > "$root/$c.log" 2>&1
  rc=$?
  nv=$(grep -c '^VIOLATION' "$root/$c.log")
  echo "== $name :: $c rc=$rc violations=$nv t=$(( $(date +%s)-s ))s :: $(grep '^VIOLATION' "$root/$c.log" | head -2 | cut -c1-110 | tr '\n' ' ')"
  mkdir -p /tmp/pm_keep/$name && cp "$root/$c.log" /tmp/pm_keep/$name/ && cp -r "$root/verif/replays/$c" /tmp/pm_keep/$name/replays_$c 2>/dev/null
done
rm -rf "$root"
