#!/venv/bin/python
"""Run the pinned suite on /repo (or a given tree) with xdist and compare with BASELINE.json stable_pass."""
import json, subprocess, sys, xml.etree.ElementTree as ET, os, time
tree = sys.argv[1] if len(sys.argv) > 1 else "/repo"
out = f"/verif/.work/baseline_{os.path.basename(tree.rstrip('/'))}.xml"
os.makedirs("/verif/.work", exist_ok=True)
t0 = time.time()
env = dict(os.environ, PYTHONPATH=tree)
env.pop("FLOX_VERIF", None)
env.update(OMP_NUM_THREADS="1", OPENBLAS_NUM_THREADS="1", MKL_NUM_THREADS="1", NUMBA_NUM_THREADS="2")
subprocess.run(["/venv/bin/python", "-m", "pytest", "-q", "-p", "no:cacheprovider", "-n", sys.argv[2] if len(sys.argv) > 2 else "10",
                "--timeout=900", "--continue-on-collection-errors", f"--junitxml={out}"], cwd=tree, env=env,
               stdout=subprocess.DEVNULL, stderr=subprocess.DEVNULL)
base = json.load(open("/root/.vp/BASELINE.json"))
passed = set()
for tc in ET.parse(out).getroot().iter("testcase"):
    if not any(c.tag in ("failure", "error", "skipped") for c in tc):
        passed.add(f"{tc.get('classname')}::{tc.get('name')}")
missing = sorted(set(base["stable_pass"]) - passed)
print(f"wall {time.time()-t0:.0f}s passed={len(passed)} baseline={len(base['stable_pass'])} missing_from_baseline={len(missing)}")
for m in missing[:40]:
    print("  MISSING", m)
sys.exit(1 if missing else 0)
