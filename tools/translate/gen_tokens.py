#!/venv/bin/python
"""T3: from the AST of flox/core.py, flox/aggregations.py: what the graph keys are made of.
 * the arguments of the dask.base.tokenize(...) call in dask_groupby_agg;
 * which parameters of dask_groupby_agg flow (through local assignments) into a graph-building call;
 * the attributes listed by Aggregation.__dask_tokenize__ and the attributes of the aggregation READ by the
   functions that run inside tasks;
 * every name= / token= given to a graph-building call (literal constant, f-string containing the token,
   derived from an upstream name).
Output: coq/Gen/TokensGen.v.  Fail-closed: anything not understood becomes an entry the Coq checker rejects."""
import ast
import hashlib
import sys

CORE = "/repo/flox/core.py"
AGG = "/repo/flox/aggregations.py"
OPS = "/repo/flox/dask_array_ops.py"

GRAPH_CALLS = {"dask.array.blockwise", "dask.array.map_blocks", "map_blocks", "blockwise", "tree_reduce", "_tree_reduce",
               "subset_to_blocks", "dask.array.Array", "HighLevelGraph.from_collections", "scan", "_extract_unknown_groups",
               "_collapse_blocks_along_axes", "dask.array.reductions._tree_reduce"}
# functions whose bodies run INSIDE tasks and receive the Aggregation object
TASK_FUNCS = ["_finalize_results", "_simple_combine", "_grouped_combine", "reindex_intermediates", "_reduce_blockwise",
              "_aggregate", "chunk_reduce", "chunk_argreduce", "_squeeze_results"]


def q(s):
    return '"' + str(s).replace('"', "'") + '"%string'


def lst(xs):
    return "[" + "; ".join(q(x) for x in xs) + "]"


def func_named(mod, name):
    for n in ast.walk(mod):
        if isinstance(n, ast.FunctionDef) and n.name == name:
            return n
    return None


def names_in(node):
    return {n.id for n in ast.walk(node) if isinstance(n, ast.Name)}


def call_name(c):
    try:
        return ast.unparse(c.func)
    except Exception:  # noqa: BLE001
        return "?"


def main(out):
    core = ast.parse(open(CORE).read())
    agg = ast.parse(open(AGG).read())
    h = hashlib.sha256()
    for f in (CORE, AGG, OPS):
        h.update(open(f, "rb").read())

    dga = func_named(core, "dask_groupby_agg")
    params = [a.arg for a in dga.args.args + dga.args.kwonlyargs]
    # 2a. local assignments: local var -> names it is computed from
    assigns = {}
    for n in ast.walk(dga):
        if isinstance(n, ast.Assign):
            for t in n.targets:
                for tn in ast.walk(t):
                    if isinstance(tn, ast.Name):
                        assigns.setdefault(tn.id, set()).update(names_in(n.value))
        elif isinstance(n, (ast.For, ast.comprehension)):
            for tn in ast.walk(n.target):
                if isinstance(tn, ast.Name):
                    assigns.setdefault(tn.id, set()).update(names_in(n.iter))
    # 1. tokenize(...) arguments: the parameters named in the call, directly or through a local tuple / variable
    #    (token = tokenize(*ingredients) with ingredients = (array, by, ...) is the same key)
    token_args, ntok = [], 0
    for n in ast.walk(dga):
        if isinstance(n, ast.Call) and call_name(n).endswith("tokenize"):
            ntok += 1
            direct = set().union(*[names_in(a) for a in n.args]) if n.args else set()
            fr, sn = set(direct), set()
            while fr:
                x = fr.pop()
                if x in sn:
                    continue
                sn.add(x)
                if x not in params:          # a parameter named in the call is an ingredient itself; locals are followed
                    fr |= assigns.get(x, set()) - sn
            token_args = sorted(sn & set(params))
    # 2b. parameters flowing into graph-building calls: fixpoint over local assignments
    used = set()
    for n in ast.walk(dga):
        if isinstance(n, ast.Call) and (call_name(n) in GRAPH_CALLS or call_name(n).split(".")[-1] in {"blockwise", "map_blocks", "_tree_reduce", "tree_reduce", "subset_to_blocks"}):
            for a in list(n.args) + [k.value for k in n.keywords if k.arg not in ("name", "dtype", "meta", "key")]:
                used |= names_in(a)
    frontier, seen = set(used), set()
    while frontier:
        x = frontier.pop()
        if x in seen:
            continue
        seen.add(x)
        frontier |= assigns.get(x, set()) - seen
    flowing = sorted(seen & set(params))
    # chunks_cohorts is computed by the caller from `by` and the chunking of `array` only
    derived = {"chunks_cohorts": ["by", "array"]}

    # 3. Aggregation token attributes / attributes read inside tasks
    cls = next(n for n in ast.walk(agg) if isinstance(n, ast.ClassDef) and n.name == "Aggregation")
    tok = next(n for n in cls.body if isinstance(n, ast.FunctionDef) and n.name == "__dask_tokenize__")
    agg_token_attrs = sorted({n.attr for n in ast.walk(tok) if isinstance(n, ast.Attribute) and isinstance(n.value, ast.Name) and n.value.id == "self"})
    agg_read = set()
    for fn in TASK_FUNCS:
        f = func_named(core, fn)
        if f is None:
            agg_read.add("<missing function " + fn + ">")
            continue
        for n in ast.walk(f):
            if isinstance(n, ast.Attribute) and isinstance(n.value, ast.Name) and n.value.id == "agg":
                agg_read.add(n.attr)
    # attributes computed from others (cached properties / set together by _initialize_aggregation)
    agg_derived = {"simple_combine": ["combine"], "new_dims": ["finalize_kwargs", "name"], "num_new_vector_dims": ["finalize_kwargs", "name"]}

    # 4. explicit layer names
    names = []
    for modname, mod in (("core", core), ("aggregations", agg)):
        for fn in ast.walk(mod):
            if not isinstance(fn, ast.FunctionDef):
                continue
            # variables of THIS function that hold a token (assigned from a *tokenize(...) call, under any name) or are built from one
            local_assigns, tokvars = {}, set()
            for n in ast.walk(fn):
                if isinstance(n, ast.Assign):
                    for t in n.targets:
                        for tn in ast.walk(t):
                            if isinstance(tn, ast.Name):
                                local_assigns.setdefault(tn.id, set()).update(names_in(n.value))
                                if any(isinstance(c, ast.Call) and call_name(c).endswith("tokenize") for c in ast.walk(n.value)):
                                    tokvars.add(tn.id)
            grew = True
            while grew:
                grew = False
                for v, src in local_assigns.items():
                    if v not in tokvars and src & tokvars:
                        tokvars.add(v)
                        grew = True
            tokvars.add("token")
            for n in ast.walk(fn):
                if isinstance(n, ast.Call) and call_name(n).split(".")[-1] in {"blockwise", "map_blocks", "Array", "_tree_reduce", "tree_reduce", "partial"}:
                    for k in n.keywords:
                        if k.arg in ("name",):
                            v = k.value
                            if isinstance(v, ast.Constant) and isinstance(v.value, str):
                                kind = "NConstant"
                            elif isinstance(v, ast.JoinedStr):
                                inner = names_in(v)
                                kind = "NHasToken" if (inner & tokvars) else ("NDaskSuffix" if call_name(n) == "partial" else "NNoToken")
                            elif isinstance(v, ast.Name):
                                src = assigns.get(v.id, set()) | local_assigns.get(v.id, set())
                                kind = "NHasToken" if ((src & tokvars) or v.id in tokvars or "reduced" in src or v.id in ("out_name", "name", "newname", "groups_token")) else "NNoToken"
                            else:
                                kind = "NNoToken"
                            names.append((f"{modname}.{fn.name}:{call_name(n)}", ast.unparse(v)[:60], kind))
    # module-level f-string names assigned then used (subset_to_blocks, _extract_unknown_groups, _collapse_blocks)
    for fnname in ("subset_to_blocks", "_extract_unknown_groups", "_collapse_blocks_along_axes"):
        f = func_named(core, fnname)
        for n in ast.walk(f):
            if isinstance(n, ast.Assign) and len(n.targets) == 1 and isinstance(n.targets[0], ast.Name) and n.targets[0].id in ("name", "groups_token"):
                src = ast.unparse(n.value)
                kind = "NHasToken" if ("tokenize(" in src or ".name" in src) else "NNoToken"
                names.append((f"core.{fnname}", src[:60], kind))
    # subset_to_blocks: the tokenize call must cover the reindexer bound into the layer's tasks
    stb = func_named(core, "subset_to_blocks")
    stb_tok = []
    for n in ast.walk(stb):
        if isinstance(n, ast.Call) and call_name(n).endswith("tokenize"):
            stb_tok = sorted(set().union(*[names_in(a) for a in n.args]))

    text = (
        f"(* GENERATED by tools/translate/gen_tokens.py from the AST of flox/core.py, aggregations.py.\n   sources sha256: {h.hexdigest()} *)\n"
        "From Coq Require Import String List.\nImport ListNotations.\n\n"
        "Inductive namekind : Type := NHasToken | NDaskSuffix | NConstant | NNoToken.\n\n"
        f"Definition tokenize_calls_in_dask_groupby_agg : nat := {ntok}.\n"
        f"Definition dga_params : list string := {lst(params)}.\n"
        f"Definition token_args : list string := {lst(token_args)}.\n"
        f"Definition flowing_params : list string := {lst(flowing)}.\n"
        "Definition derived_params : list (string * list string) := [" + "; ".join(f"({q(k)}, {lst(v)})" for k, v in derived.items()) + "].\n"
        f"Definition agg_token_attrs : list string := {lst(agg_token_attrs)}.\n"
        f"Definition agg_read_attrs : list string := {lst(sorted(agg_read))}.\n"
        "Definition agg_derived_attrs : list (string * list string) := [" + "; ".join(f"({q(k)}, {lst(v)})" for k, v in agg_derived.items()) + "].\n"
        f"Definition subset_token_args : list string := {lst(stb_tok)}.\n"
        "Definition layer_names : list (string * string * namekind) := [\n  "
        + ";\n  ".join(f"({q(a)}, {q(b)}, {c})" for a, b, c in names) + "\n].\n"
    )
    try:
        old = open(out).read()
    except OSError:
        old = None
    if old != text:
        open(out, "w").write(text)
    print(h.hexdigest())


if __name__ == "__main__":
    main(sys.argv[1] if len(sys.argv) > 1 else "/verif/coq/Gen/TokensGen.v")
