#!/venv/bin/python
"""T1: introspect the LIVE flox.aggregations.AGGREGATIONS (imported from /repo) and the ASTs of
the finalizers, and emit coq/Gen/Registry.v.  Fail-closed: anything not understood becomes an
OOther / FvOther / FinOpaque constructor that no lemma accepts."""
import ast
import hashlib
import inspect
import sys
import textwrap

sys.path.insert(0, "/repo")
import numpy as np  # noqa: E402

import flox  # noqa: E402
from flox import aggregations as A  # noqa: E402
from flox import xrdtypes  # noqa: E402

assert flox.__file__.startswith("/repo/"), flox.__file__

OPS = {
    "sum": "OSum", "nansum": "ONansum", "prod": "OProd", "nanprod": "ONanprod",
    "max": "OMax", "nanmax": "ONanmax", "min": "OMin", "nanmin": "ONanmin",
    "nanlen": "ONanlen", "len": "OLen", "sum_of_squares": "OSumSq",
    "nansum_of_squares": "ONansumSq", "all": "OAll", "any": "OAny",
    "first": "OFirst", "last": "OLast", "nanfirst": "ONanfirst", "nanlast": "ONanlast",
    "argmax": "OArgmax", "argmin": "OArgmin", "nanargmax": "ONanargmax", "nanargmin": "ONanargmin",
    "mean": "OMean", "nanmean": "ONanmean", "var": "OVar", "nanvar": "ONanvar",
    "std": "OStd", "nanstd": "ONanstd", "median": "OMedian", "nanmedian": "ONanmedian",
    "quantile": "OQuantile", "nanquantile": "ONanquantile", "mode": "OMode", "nanmode": "ONanmode",
    "count": "OCount",
}


def q(s):
    return '"' + str(s).replace('"', "'") + '"%string'


def op(o):
    if isinstance(o, str) and o in OPS:
        return OPS[o]
    return f"(OOther {q(getattr(o, '__name__', repr(o)))})"


def oplist(t):
    if t is None or tuple(t) == (None,):
        return "None"
    return "(Some [" + "; ".join(op(o) for o in t) + "])"


def z(n):
    n = int(n)
    return f"({n})" if n < 0 else str(n)


def fill(f):
    if f is xrdtypes.NA:
        return "FvNA"
    if f is xrdtypes.INF:
        return "FvInf"
    if f is xrdtypes.NINF:
        return "FvNinf"
    if f is None:
        return "FvNone"
    if f is True or (isinstance(f, np.bool_) and bool(f)):
        return "FvTrue"
    if f is False or (isinstance(f, np.bool_) and not bool(f)):
        return "FvFalse"
    if isinstance(f, (int, np.integer)):
        return f"(FvNum {z(f)})"
    if isinstance(f, (float, np.floating)):
        if np.isnan(f):
            return "FvNaN"
        if f == np.inf:
            return "FvInf"
        if f == -np.inf:
            return "FvNinf"
        if float(f).is_integer():
            return f"(FvNum {z(f)})"
    return f"(FvOther {q(repr(f))})"


def dt(d):
    if d is None:
        return "DtNone"
    if d is np.intp:
        return "DtIntp"
    if d is np.floating:
        return "DtFloating"
    if d is np.float64:
        return "DtFloat64"
    if d is bool:
        return "DtBool"
    return f"(DtOther {q(repr(d))})"


# ---------------------------------------------------------------- finalizer ASTs
class Untranslatable(Exception):
    pass


def _fn_ast(fn):
    src = textwrap.dedent(inspect.getsource(fn))
    mod = ast.parse(src)
    (fd,) = mod.body
    if not isinstance(fd, ast.FunctionDef):
        raise Untranslatable("not a def")
    return fd


def _strip_with(body):
    """`with np.errstate(...):` blocks are transparent."""
    out = []
    for st in body:
        if isinstance(st, ast.With):
            for it in st.items:
                c = it.context_expr
                if not (isinstance(c, ast.Call) and ast.unparse(c.func) in ("np.errstate", "warnings.catch_warnings")):
                    raise Untranslatable("with " + ast.unparse(c))
            out.extend(_strip_with(st.body))
        else:
            out.append(st)
    return out


def _expr(e, env):
    if isinstance(e, ast.Name):
        if e.id in env:
            return env[e.id]
        raise Untranslatable("name " + e.id)
    if isinstance(e, ast.Constant) and isinstance(e.value, int) and not isinstance(e.value, bool):
        return f"(FConst {z(e.value)})"
    if isinstance(e, ast.BinOp):
        if isinstance(e.op, ast.Pow):
            if isinstance(e.right, ast.Constant) and e.right.value == 2:
                return f"(FPow2 {_expr(e.left, env)})"
            raise Untranslatable("pow")
        ops = {ast.Add: "FAdd", ast.Sub: "FSub", ast.Mult: "FMul", ast.Div: "FDiv"}
        if type(e.op) in ops:
            return f"({ops[type(e.op)]} {_expr(e.left, env)} {_expr(e.right, env)})"
    raise Untranslatable(ast.unparse(e))


def _params(fd):
    a = fd.args
    if a.vararg is not None and not a.args:
        return None  # *x
    if a.vararg or a.kwarg or a.kwonlyargs or a.posonlyargs:
        raise Untranslatable("signature")
    ndef = len(a.defaults)
    npos = len(a.args) - ndef
    env = {}
    for i, arg in enumerate(a.args[:npos]):
        env[arg.arg] = f"(FArg {i})"
    for arg, d in zip(a.args[npos:], a.defaults):
        if not (isinstance(d, ast.Constant) and isinstance(d.value, int)):
            raise Untranslatable("default")
        env[arg.arg] = f"(FKw {q(arg.arg)} {z(d.value)})"
    return env, [x.arg for x in a.args]


def translate_finalizer(fn, depth=0):
    """-> (body, mask, sqrt) strings, or raises Untranslatable"""
    fd = _fn_ast(fn)
    p = _params(fd)
    if p is None:
        # def f(*x): return x[k]
        (st,) = [s for s in fd.body if not (isinstance(s, ast.Expr) and isinstance(s.value, ast.Constant))]
        if (
            isinstance(st, ast.Return)
            and isinstance(st.value, ast.Subscript)
            and isinstance(st.value.value, ast.Name)
            and st.value.value.id == fd.args.vararg.arg
            and isinstance(st.value.slice, ast.Constant)
            and isinstance(st.value.slice.value, int)
            and st.value.slice.value >= 0
        ):
            return ("pick", st.value.slice.value)
        raise Untranslatable("vararg body")
    env, argnames = p
    body = [s for s in _strip_with(fd.body) if not (isinstance(s, ast.Expr) and isinstance(s.value, ast.Constant))]
    result_var, result_expr, mask, sqrt = None, None, "MaskNone", False
    for st in body:
        if isinstance(st, ast.Assign) and len(st.targets) == 1 and isinstance(st.targets[0], ast.Name):
            if result_var is not None:
                raise Untranslatable("two assignments")
            result_var = st.targets[0].id
            result_expr = _expr(st.value, env)
        elif (
            isinstance(st, ast.Assign)
            and len(st.targets) == 1
            and isinstance(st.targets[0], ast.Subscript)
            and isinstance(st.targets[0].value, ast.Name)
            and st.targets[0].value.id == result_var
            and ast.unparse(st.value) in ("np.nan", "nan")
        ):
            cond = st.targets[0].slice
            if isinstance(cond, ast.Compare) and len(cond.ops) == 1 and isinstance(cond.ops[0], ast.LtE):
                mask = f"(MaskLe {_expr(cond.left, env)} {_expr(cond.comparators[0], env)})"
            else:
                raise Untranslatable("mask " + ast.unparse(cond))
        elif isinstance(st, ast.Return):
            v = st.value
            if isinstance(v, ast.Name) and v.id == result_var:
                return ("expr", result_expr, mask, sqrt)
            if result_var is None:
                # return <expr>  |  return np.sqrt(other(args...))
                if isinstance(v, ast.Call) and ast.unparse(v.func) == "np.sqrt" and len(v.args) == 1:
                    inner = v.args[0]
                    if (
                        depth == 0
                        and isinstance(inner, ast.Call)
                        and isinstance(inner.func, ast.Name)
                        and not inner.keywords
                        and [ast.unparse(a) for a in inner.args] == argnames
                    ):
                        callee = getattr(A, inner.func.id, None)
                        if callee is None:
                            raise Untranslatable("callee")
                        k = translate_finalizer(callee, depth + 1)
                        if k[0] != "expr" or k[3]:
                            raise Untranslatable("callee shape")
                        # the callee must have the same parameter list (names and defaults)
                        if _params(_fn_ast(callee))[0] != env:
                            raise Untranslatable("callee params")
                        return ("expr", k[1], k[2], True)
                    raise Untranslatable("sqrt of " + ast.unparse(inner))
                return ("expr", _expr(v, env), mask, sqrt)
            raise Untranslatable("return " + ast.unparse(v))
        else:
            raise Untranslatable(ast.unparse(st))
    raise Untranslatable("no return")


def fin(fn):
    if fn is None:
        return "FinNone"
    try:
        k = translate_finalizer(fn)
    except (Untranslatable, OSError, TypeError, ValueError, SyntaxError) as e:
        return f"(FinOpaque {q(getattr(fn, '__name__', '?') + ': ' + str(e)[:60])})"
    if k[0] == "pick":
        return f"(FinPick {k[1]})"
    return f"(FinExpr {k[1]} {k[2]} {'true' if k[3] else 'false'})"


def rtype(r):
    return {"reduce": "Reduce", "argreduce": "ArgReduce"}.get(r, f"(RtOther {q(r)})")


def agg_record(name, a):
    newdims = a.new_dims_func is not A.returns_empty_tuple
    return (
        f"  mkAgg {q(name)} [{'; '.join(op(o) for o in a.numpy)}] {oplist(a.chunk)} {oplist(a.combine)}\n"
        f"    [{'; '.join(fill(f) for f in a.fill_value['intermediate'])}] {fill(a.fill_value[a.name])}\n"
        f"    {fin(a.finalize)}\n"
        f"    {rtype(a.reduction_type)} {'true' if a.preserves_dtype else 'false'} {dt(a.dtype_init['final'])}"
        f" [{'; '.join(dt(d) for d in a.dtype_init['intermediate'])}]"
        f" {'true' if a.preprocess is not None else 'false'} {'true' if newdims else 'false'}"
    )


def scan_record(name, s):
    binop = "None" if s.binary_op is None else f"(Some {q(getattr(s.binary_op, '__name__', repr(s.binary_op)))})"
    mode = {"apply_binary_op": "ApplyBinop", "concat_then_scan": "ConcatThenScan"}.get(s.mode, f"(SmOther {q(s.mode)})")
    pre = "None" if s.preprocess is None else f"(Some {q(s.preprocess.__name__)})"
    fz = "None" if s.finalize is None else f"(Some {q(s.finalize.__name__)})"
    return (
        f"  mkScan {q(name)} {binop} {q(s.scan)} {op(s.reduction)} {fill(s.identity)} {mode}"
        f" {'true' if s.preserves_dtype else 'false'} {pre} {fz}"
    )


def initialised_rows():
    """observe the REAL _initialize_aggregation: effective chunk / combine / intermediate fills per min_count"""
    rows = []
    for name, a in A.AGGREGATIONS.items():
        if not isinstance(a, A.Aggregation):
            continue
        for mc in (0, 1, 2):
            for dt_name in ("float64", "int64"):
                try:
                    agg = A._initialize_aggregation(name, None, np.dtype(dt_name), None, mc, {"q": 0.5} if "quantile" in name else None)
                except Exception as e:  # noqa: BLE001
                    rows.append(f"  ({q(name)}, {mc}, {q(dt_name)}, None)")
                    continue
                fills = []
                for f in agg.fill_value["intermediate"]:
                    fills.append(fill(f) if not (isinstance(f, (int, np.integer)) and not isinstance(f, (bool, np.bool_)) and abs(int(f)) > 2 ** 40)
                                 else ("FvInf" if int(f) > 0 else "FvNinf"))
                rows.append(f"  ({q(name)}, {mc}, {q(dt_name)}, Some ({z(agg.min_count)}, {oplist(agg.chunk)}, {oplist(agg.combine)}, "
                            f"[{'; '.join(fills)}]))")
    return rows


def main(out):
    srcs = ["/repo/flox/aggregations.py", "/repo/flox/xrdtypes.py"]
    h = hashlib.sha256()
    for s in srcs:
        h.update(open(s, "rb").read())
    aggs, scans, other = [], [], []
    for name, a in A.AGGREGATIONS.items():
        if isinstance(a, A.Aggregation):
            if a.name != name:
                other.append(name)
            aggs.append(agg_record(name, a))
        elif isinstance(a, A.Scan):
            scans.append(scan_record(name, a))
        else:
            other.append(name)
    text = (
        f"(* GENERATED by tools/translate/gen_registry.py from the live flox.aggregations.AGGREGATIONS.\n"
        f"   sources sha256: {h.hexdigest()} *)\n"
        "From Coq Require Import ZArith String List.\nFrom Flox Require Import Val Agg.\nImport ListNotations.\nOpen Scope Z_scope.\n\n"
        "Definition aggregations : list AggDesc := [\n" + ";\n".join(aggs) + "\n].\n\n"
        "Definition scans : list ScanDesc := [\n" + ";\n".join(scans) + "\n].\n\n"
        "Definition unrecognised_entries : list string := [" + "; ".join(q(o) for o in other) + "].\n\n"
        "(* _initialize_aggregation observed on (name, min_count, array dtype):\n"
        "   Some (resolved min_count, chunk, combine, intermediate fills) *)\n"
        "Definition initialised : list (string * Z * string * option (Z * option (list opname) * option (list opname) * list fillv)) := [\n"
        + ";\n".join(initialised_rows()) + "\n].\n"
    )
    try:
        old = open(out).read()
    except OSError:
        old = None
    if old != text:
        open(out, "w").write(text)
    print(h.hexdigest())


if __name__ == "__main__":
    main(sys.argv[1] if len(sys.argv) > 1 else "/verif/coq/Gen/Registry.v")
