#!/venv/bin/python
"""T2: extensional translation of finite-domain behaviour of flox (imported from /repo):
each function is evaluated on EVERY point of its finite (abstracted) domain and its graph is emitted
as Coq rows in coq/Gen/Tables.v.  Fail-closed: an unexpected value becomes a constructor no lemma accepts."""
import hashlib
import itertools
import sys
import warnings

sys.path.insert(0, "/repo")
warnings.filterwarnings("ignore")
import numpy as np  # noqa: E402

import flox  # noqa: E402
import flox.core as fc  # noqa: E402

assert flox.__file__.startswith("/repo/"), flox.__file__

DT = {"bool": "DBool", "int8": "DI8", "int16": "DI16", "int32": "DI32", "int64": "DI64",
      "uint8": "DU8", "uint16": "DU16", "uint32": "DU32", "uint64": "DU64",
      "float32": "DF32", "float64": "DF64", "datetime64[ns]": "DDatetime", "timedelta64[ns]": "DTimedelta"}
FUNCS = ["sum", "nansum", "prod", "nanprod", "mean", "nanmean", "var", "nanvar", "std", "nanstd",
         "max", "nanmax", "min", "nanmin", "first", "last", "nanfirst", "nanlast",
         "count", "argmax", "argmin", "nanargmax", "nanargmin", "any", "all", "median", "nanmedian"]
FN = {f: "F_" + f for f in FUNCS}


def q(s):
    return '"' + str(s).replace('"', "'") + '"%string'


def dt_lit(d):
    return DT.get(str(d), f"(DOther {q(d)})")


def exc_lit(e):
    if isinstance(e, NotImplementedError):
        return "ENotImplemented"
    if isinstance(e, ValueError):
        return "EValue"
    if isinstance(e, ImportError):
        return "EImport"
    return f"(EInternal {q(type(e).__name__)})"


def sample_array(dtype, n=4):
    if dtype == "bool":
        return np.array([True, False, True, True][:n])
    if dtype.startswith("datetime"):
        return np.array([1, 2, 3, 4][:n], dtype="datetime64[ns]")
    if dtype.startswith("timedelta"):
        return np.array([1, 2, 3, 4][:n], dtype="timedelta64[ns]")
    return np.array([1, 2, 3, 4][:n], dtype=dtype)


def final_dtype_rows():
    """eager groupby_reduce: result dtype per (func, input dtype, dtype= kwarg, fill kind); all labels present"""
    rows = []
    by = np.array([0, 0, 1, 1])
    for func in FUNCS:
        for dtype in DT:
            if dtype.startswith(("datetime", "timedelta")) and func not in (
                    "max", "nanmax", "min", "nanmin", "first", "last", "nanfirst", "nanlast", "count", "mean", "nanmean"):
                continue
            for kw in (None, "float32", "float64", "int64"):
                if kw is not None and (func in ("any", "all", "count") or "arg" in func or dtype.startswith(("datetime", "timedelta", "bool"))):
                    continue
                for fill in ("FillNone", "FillInt", "FillNaN"):
                    if dtype.startswith(("datetime", "timedelta")) and fill != "FillNone":
                        continue
                    fv = {"FillNone": None, "FillInt": 0, "FillNaN": np.nan}[fill]
                    try:
                        res, _ = flox.groupby_reduce(sample_array(dtype), by, func=func, engine="numpy", dtype=kw, fill_value=fv,
                                                     expected_groups=np.array([0, 1]) if fv is not None else None)
                        out = f"(ODtype {dt_lit(res.dtype)})"
                    except Exception as e:  # noqa: BLE001
                        out = f"(OExc {exc_lit(e)})"
                    kwl = "None" if kw is None else f"(Some {dt_lit(kw)})"
                    rows.append(f"  ({FN[func]}, {dt_lit(dtype)}, {kwl}, {fill}, {out})")
    return rows


def predicate_rows():
    rows = []
    for f in FUNCS + ["quantile", "nanquantile", "mode", "nanmode"]:
        rows.append(f"  ({q(f)}, {str(fc._is_arg_reduction(f)).lower()}, {str(fc._is_first_last_reduction(f)).lower()}, "
                    f"{str(fc._is_minmax_reduction(f)).lower()}, {str(fc._is_bool_supported_reduction(f)).lower()})")
    return rows


METHS = {None: "None", "map-reduce": "(Some MMapReduce)", "cohorts": "(Some MCohorts)", "blockwise": "(Some MBlockwise)"}
METH = {"map-reduce": "MMapReduce", "cohorts": "MCohorts", "blockwise": "MBlockwise"}
CHOOSE_AGGS = ["sum", "nanmean", "argmax", "nanargmin", "median", "nanquantile", "first"]


def choose_method_rows():
    """flox.core._choose_method on EVERY point of its (abstracted) domain: requested method x planner's preference x
    kind of aggregation (plain / arg reduction / blockwise-only) x (nax == by.ndim)"""
    from flox.aggregations import _initialize_aggregation

    rows = []
    for name in CHOOSE_AGGS:
        fk = {"q": 0.5} if "quantile" in name else {}
        agg = _initialize_aggregation(name, None, np.dtype("float64"), None, 0, fk)
        is_arg = bool(fc._is_arg_reduction(agg))
        bw_only = agg.chunk == (None,)
        for method in METHS:
            for pref in METH:
                for nax, ndim in ((1, 1), (1, 2), (2, 2)):
                    by = np.zeros((2,) * ndim, dtype=int)
                    try:
                        r = fc._choose_method(method, pref, agg, by, nax)
                        out = f"(CRet {METH.get(r, 'MOther')})"
                    except Exception as e:  # noqa: BLE001
                        out = f"(CRaise {exc_lit(e)})"
                    rows.append(f"  ({q(name)}, {str(is_arg).lower()}, {str(bw_only).lower()}, {METHS[method]}, {METH[pref]}, "
                                f"{str(nax == ndim).lower()}, {out})")
    return rows


def validate_reindex_rows():
    """flox.core._validate_reindex on every point of its abstracted domain"""
    rows = []
    tri = {None: "None", True: "(Some true)", False: "(Some false)"}
    for func in ["sum", "nanmax", "argmax", "nanargmin", "first", "nanlast", "median"]:
        for dt in ("float64", "int64"):
            for reindex in (None, True, False):
                for method in METHS:
                    for exp in (True, False):
                        for bydask in (False, True):
                            for isdask in (False, True):
                                try:
                                    r = fc._validate_reindex(reindex, func, method, (np.arange(3) if exp else None), bydask, isdask, np.dtype(dt))
                                    out = f"(RStrategy {tri[r.blockwise]})"
                                except Exception as e:  # noqa: BLE001
                                    out = f"(RRaise {exc_lit(e)})"
                                first_last = func in ("first", "last") or (bool(fc._is_first_last_reduction(func)) and np.dtype(dt).kind != "f")
                                rows.append(f"  ({q(func)}, {str(bool(fc._is_arg_reduction(func))).lower()}, {str(first_last).lower()}, {tri[reindex]}, "
                                            f"{METHS[method]}, {str(exp).lower()}, {str(bydask).lower()}, {str(isdask).lower()}, {out})")
    return rows


def main(out):
    srcs = ["/repo/flox/core.py", "/repo/flox/aggregations.py", "/repo/flox/xrdtypes.py"]
    h = hashlib.sha256()
    for s in srcs:
        h.update(open(s, "rb").read())
    fns = " | ".join(FN[f] for f in FUNCS)
    text = (
        f"(* GENERATED by tools/translate/gen_tables.py by evaluating the live flox on every point of finite domains.\n"
        f"   sources sha256: {h.hexdigest()} *)\n"
        "From Coq Require Import ZArith String List Bool.\nImport ListNotations.\n\n"
        "Inductive dt : Type := DBool | DI8 | DI16 | DI32 | DI64 | DU8 | DU16 | DU32 | DU64 | DF32 | DF64\n"
        "  | DDatetime | DTimedelta | DOther (s : string).\n"
        f"Inductive fname : Type := {fns}.\n"
        "Inductive fillkind : Type := FillNone | FillInt | FillNaN.\n"
        "Inductive exc : Type := EValue | ENotImplemented | EImport | EInternal (s : string).\n"
        "Inductive outcome : Type := ODtype (d : dt) | OExc (e : exc).\n\n"
        "(* (func, input dtype, dtype= argument, fill_value kind, result dtype or exception) *)\n"
        "Definition final_dtype_rows : list (fname * dt * option dt * fillkind * outcome) := [\n" + ";\n".join(final_dtype_rows()) + "\n].\n\n"
        "(* (func, _is_arg_reduction, _is_first_last_reduction, _is_minmax_reduction, _is_bool_supported_reduction) *)\n"
        "Definition predicate_rows : list (string * bool * bool * bool * bool) := [\n" + ";\n".join(predicate_rows()) + "\n].\n\n"
        "Inductive meth : Type := MMapReduce | MCohorts | MBlockwise | MOther.\n"
        "Inductive choice : Type := CRet (m : meth) | CRaise (e : exc).\n"
        "(* _choose_method: (aggregation, is arg reduction, blockwise-only, requested method, planner's preference, nax == by.ndim, outcome) *)\n"
        "Definition choose_method_rows : list (string * bool * bool * option meth * meth * bool * choice) := [\n" + ";\n".join(choose_method_rows()) + "\n].\n"
        "\nInductive rchoice : Type := RStrategy (blockwise : option bool) | RRaise (e : exc).\n"
        "(* _validate_reindex: (func, is arg reduction, first/last without a fill, reindex argument, method, expected given, labels dask, array dask, outcome) *)\n"
        "Definition validate_reindex_rows : list (string * bool * bool * option bool * option meth * bool * bool * bool * rchoice) := [\n" + ";\n".join(validate_reindex_rows()) + "\n].\n"
    )
    try:
        old = open(out).read()
    except OSError:
        old = None
    if old != text:
        open(out, "w").write(text)
    print(h.hexdigest())


if __name__ == "__main__":
    main(sys.argv[1] if len(sys.argv) > 1 else "/verif/coq/Gen/Tables.v")
