#!/venv/bin/python
"""T4: alias/effect IR of the functions that run inside flox's tasks (and of the public entry points),
extracted from the AST.  Flow-insensitive: a function is a SET of statements
   Param x i | Fresh x | Alias x [ys] | Store x | StoreAttr x | Call x f [args] | Ret [ys]
plus a points-to certificate computed here (Andersen-style fixpoint) that Coq re-checks
(coq/Model/EffIR.v: closedness of the certificate, no store into anything that may alias a parameter).
Callee classification of NumPy/pandas functions (fresh / view-of-args) is the table below: trusted, exercised by K5.
Fail-closed: an unclassified callee is treated as "may alias every argument"."""
import ast
import hashlib
import sys

FILES = {"core": "/repo/flox/core.py", "aggregations": "/repo/flox/aggregations.py", "aggregate_flox": "/repo/flox/aggregate_flox.py",
         "aggregate_npg": "/repo/flox/aggregate_npg.py", "aggregate_numbagg": "/repo/flox/aggregate_numbagg.py", "xrutils": "/repo/flox/xrutils.py",
         "dask_array_ops": "/repo/flox/dask_array_ops.py"}

# functions that are (or are called from) task callables
TASK_ROOTS = ["core.chunk_reduce", "core.chunk_argreduce", "core._reduce_blockwise", "core._aggregate", "core._simple_combine",
              "core._grouped_combine", "core._expand_dims", "core.reindex_intermediates", "core._extract_result",
              "core._lazy_factorize_wrapper", "core._ravel_factorized", "core.chunk_scan", "core.grouped_reduce", "core._zip",
              "core._finalize_scan", "aggregations.scan_binary_op", "core.identity"]

# callees returning a NEW buffer that shares no memory with their arguments
FRESH_CALLS = {
    "np.where", "np.full", "np.full_like", "np.zeros", "np.zeros_like", "np.ones", "np.empty", "np.empty_like", "np.arange", "np.concatenate",
    "np.stack", "np.sort", "np.unique", "np.diff", "np.cumsum", "np.insert", "np.isin", "np.isnan", "np.isnat", "np.nonzero", "np.searchsorted",
    "np.digitize", "np.argsort", "np.ravel_multi_index", "np.unravel_index", "np.logical_or", "np.array", "np.repeat", "np.median",
    "np.add.reduceat", "np.all", "np.any", "np.sum", "np.prod", "np.floor", "np.ceil", "np.subtract", "np.add", "np.sqrt", "np.take_along_axis",
    "np.array_equal", "np.result_type", "np.dtype", "np.issubdtype", "np.iinfo", "np.bincount", "np.argmax", "np.argwhere", "np.ix_", "np.nanmin",
    "np.maximum.accumulate", "np.abs", "np.timedelta64", "np.datetime64", "np.shape", "np.nan_to_num", "np.isscalar",
    "pd.factorize", "pd.unique", "pd.Index", "pd.RangeIndex", "pd.isnull", "pd.IntervalIndex.from_breaks", "pd.cut",
    "math.prod", "math.ceil", "math.log", "len", "tuple", "list", "dict", "set", "sorted", "range", "zip", "enumerate", "int", "float", "bool", "str",
    "isinstance", "callable", "all", "any", "min", "max", "sum", "abs", "getattr", "hasattr", "type", "reduce", "partial", "product",
    "isnull", "notnull", "is_scalar", "is_duck_array", "is_duck_dask_array", "module_available", "normalize_axis_index",
    "_atleast_1d", "_is_arg_reduction", "_is_first_last_reduction", "_is_minmax_reduction", "is_nanlen", "quantile_new_dims_func", "_issorted",
    "flatten", "itertools.chain", "itertools.product", "tlz.groupby", "tlz.accumulate", "warnings.catch_warnings", "warnings.filterwarnings",
    "np.errstate", "logger.debug", "print", "slice", "Version", "ValueError", "NotImplementedError", "TypeError", "AssertionError",
}
FRESH_METHODS = {"copy", "sum", "max", "min", "any", "all", "cumsum", "argsort", "nonzero", "tolist", "item", "to_numpy", "get_indexer", "sort_values",
                 "equals", "mean", "astype", "keys", "values", "items", "get", "update", "append", "extend", "partition", "fill"}
# callees / methods returning a VIEW of (some of) their arguments
VIEW_CALLS = {"np.asarray", "np.broadcast_to", "np.squeeze", "np.expand_dims", "np.atleast_1d", "np.reshape", "np.moveaxis", "np.broadcast_arrays",
              "deepfirst", "deepmap", "_concatenate2", "cast", "copy.deepcopy"}
VIEW_METHODS = {"reshape", "squeeze", "transpose", "view", "ravel", "swapaxes"}
INPLACE_METHODS = {"partition", "fill", "sort", "update", "append", "extend", "resize", "itemset", "put", "setfield", "setflags", "byteswap",
                   "setdefault", "pop", "popitem", "clear", "remove", "insert", "reverse", "add", "discard"}
# third-party functions that WRITE INTO their first argument
INPLACE_CALLS = {"np.copyto", "np.put", "np.place", "np.putmask", "np.put_along_axis", "np.fill_diagonal", "np.random.shuffle", "np.ndarray.sort",
                 "np.ndarray.fill", "setattr", "object.__setattr__", "operator.setitem", "operator.iadd", "delattr"}
# unclassified callees that are reviewed NOT to write into their arguments (constructors of flox's own dataclasses, the generic
# callables flox receives -- user/registry kernels, assumed pure: exercised by K5 -- and method chains on fresh temporaries).
# Every OTHER unclassified callee is translated as "may write into every argument" (fail-closed).
PURE_UNKNOWN = {"AlignedArrays", "ScanState", "FactorProps", "combine", "reduction", "method", "func", "finalize", "agg.finalize", "preprocess",
                "binary_op"}


UNKNOWN_METHODS = set()
# methods (on a named receiver) reviewed not to modify the receiver; any other unclassified method counts as a write into it
PURE_METHODS = {"finalize", "result", "COO"}   # agg.finalize(*intermediates): user/registry finaliser (assumed pure, K5); Future.result(); sparse.COO constructor


def q(s):
    return '"' + str(s).replace('"', "'") + '"%string'


class Fn:
    def __init__(self, qual, node):
        self.qual, self.node = qual, node
        self.params = [a.arg for a in node.args.posonlyargs + node.args.args + node.args.kwonlyargs]
        if node.args.vararg:
            self.params.append(node.args.vararg.arg)
        if node.args.kwarg:
            self.params.append(node.args.kwarg.arg)
        self.stmts = []   # tuples

    def add(self, *s):
        self.stmts.append(s)


def cname(c):
    try:
        return ast.unparse(c.func)
    except Exception:  # noqa: BLE001
        return "?"


def names(e):
    return sorted({n.id for n in ast.walk(e) if isinstance(n, ast.Name)})


def base_name(e):
    """the variable a (possibly nested) subscript / attribute expression is rooted at"""
    while isinstance(e, (ast.Subscript, ast.Attribute, ast.Starred)):
        e = e.value
    return e.id if isinstance(e, ast.Name) else None


class Extract(ast.NodeVisitor):
    def __init__(self, fn, known):
        self.fn, self.known, self.tmp = fn, known, 0

    def fresh_tmp(self):
        self.tmp += 1
        return f"%t{self.tmp}"

    def expr(self, e, target):
        """emit statements making [target] hold the value of expression e"""
        f = self.fn
        if e is None or isinstance(e, ast.Constant):
            f.add("Fresh", target)
        elif isinstance(e, ast.Name):
            f.add("Alias", target, [e.id])
        elif isinstance(e, (ast.BinOp, ast.UnaryOp, ast.Compare, ast.BoolOp, ast.JoinedStr, ast.Lambda)):
            f.add("Fresh", target)
        elif isinstance(e, ast.IfExp):
            self.expr(e.body, target)
            self.expr(e.orelse, target)
        elif isinstance(e, (ast.Tuple, ast.List, ast.Set)):
            f.add("Fresh", target)
            for el in e.elts:
                self.put(target, el)
        elif isinstance(e, ast.Dict):
            f.add("Fresh", target)
            for v in e.values:
                if v is not None:
                    self.put(target, v)
        elif isinstance(e, (ast.ListComp, ast.GeneratorExp, ast.SetComp, ast.DictComp)):
            f.add("Fresh", target)
            for g in e.generators:
                t = [n.id for n in ast.walk(g.target) if isinstance(n, ast.Name)]
                for tn in t:
                    tmp = self.fresh_tmp()
                    self.expr(g.iter, tmp)
                    f.add("Load", tn, [tmp])
            for sub in ([e.elt] if hasattr(e, "elt") else [e.key, e.value]):
                self.put(target, sub)
        elif isinstance(e, (ast.Subscript, ast.Attribute, ast.Starred)):
            b = base_name(e)
            if b is not None:
                f.add("Load", target, [b])
            else:
                tmp = self.fresh_tmp()
                self.expr(e.value, tmp)
                f.add("Load", target, [tmp])
        elif isinstance(e, ast.Call):
            self.call(e, target)
        elif isinstance(e, ast.NamedExpr):
            self.expr(e.value, e.target.id)
            f.add("Alias", target, [e.target.id])
        else:
            f.add("Alias", target, names(e))

    def put(self, container, e):
        tmp = self.fresh_tmp()
        self.expr(e, tmp)
        self.fn.add("Put", container, tmp)

    def call(self, c, target):
        f = self.fn
        nm = cname(c)
        argexprs = list(c.args) + [k.value for k in c.keywords]
        for k in c.keywords:
            if k.arg == "out" and not (isinstance(k.value, ast.Constant) and k.value.value is None):
                b = base_name(k.value)
                if b:
                    f.add("Store", b)
        short = nm.split(".")[-1]
        if short == "submit" and c.args:
            # executor.submit(partial(g, **kw), *args)  ==  a call g(*args, **kw) whose result is read with .result()
            head = c.args[0]
            g, kws = None, []
            if isinstance(head, ast.Call) and cname(head) == "partial" and head.args and isinstance(head.args[0], ast.Name):
                g, kws = head.args[0].id, list(head.keywords)
            elif isinstance(head, ast.Name):
                g = head.id
            callee = self.known.get(g) if g else None
            if callee is not None:
                fake = ast.Call(func=ast.Name(id=g, ctx=ast.Load()), args=list(c.args[1:]), keywords=kws + list(c.keywords))
                return self.call(fake, target)
        if isinstance(c.func, ast.Attribute) and base_name(c.func) is not None and nm not in FRESH_CALLS and nm not in VIEW_CALLS \
                and not nm.startswith(("np.", "pd.", "math.", "dask.", "itertools.", "tlz.", "warnings.", "xrdtypes.", "dtypes.", "aggregate_", "npg.", "numbagg.", "xrutils.", "operator.")):
            recv = base_name(c.func)
            if short in INPLACE_METHODS:
                f.add("Store", recv)
            if short in VIEW_METHODS or (short == "astype" and any(k.arg == "copy" for k in c.keywords)):
                f.add("Alias", target, [recv])
                return
            if short in ("append", "extend", "update", "setdefault"):
                for a in argexprs:
                    self.put(recv, a)
            if short in FRESH_METHODS:
                f.add("Fresh", target)
                return
            # unknown method: may return a view of the receiver or of an argument
            f.add("Load", target, sorted({recv} | {n for a in argexprs for n in names(a)}))
            UNKNOWN_METHODS.add((f.qual, nm))
            if short not in PURE_METHODS:
                f.add("Store", recv)      # fail-closed: an unreviewed method may modify its receiver
            return
        if nm in FRESH_CALLS or nm.startswith(("math.", "operator.", "xrdtypes.", "dtypes.")):
            f.add("Fresh", target)
            # arguments are still evaluated (nested flox calls have effects); container constructors keep references
            for a in argexprs:
                if nm in ("tuple", "list", "dict", "set", "sorted", "zip", "enumerate", "reduce", "partial", "product", "itertools.chain"):
                    self.put(target, a)
                elif any(isinstance(n, ast.Call) for n in ast.walk(a)):
                    self.expr(a, self.fresh_tmp())
            return
        if nm in VIEW_CALLS:
            f.add("Load", target, sorted({n for a in argexprs for n in names(a)}))
            return
        callee = self.known.get(nm) or self.known.get("core." + nm) or self.known.get(self.fn.qual.split(".")[0] + "." + nm)
        if callee is not None:
            args = []
            for a in c.args:
                t = self.fresh_tmp()
                self.expr(a, t)
                args.append((None, t))
            for k in c.keywords:
                t = self.fresh_tmp()
                self.expr(k.value, t)
                args.append((k.arg, t))
            f.add("Call", target, callee.qual, args)
            return
        # unclassified callee (third-party kernels, generic callables): may alias every argument
        f.add("Load", target, sorted({n for a in argexprs for n in names(a)}))
        f.add("Unknown", nm)
        if nm in INPLACE_CALLS or nm.endswith(".at"):
            if argexprs and base_name(argexprs[0]):
                f.add("Store", base_name(argexprs[0]))
        elif nm not in PURE_UNKNOWN and not (isinstance(c.func, ast.Attribute) and base_name(c.func) is None):
            # fail-closed: an unreviewed callee may write into any of its arguments
            for a in argexprs:
                for n_ in names(a):
                    f.add("Store", n_)

    # ---- statements
    def visit_Assign(self, n):
        for t in n.targets:
            self.assign(t, n.value)

    def visit_AnnAssign(self, n):
        if n.value is not None:
            self.assign(n.target, n.value)

    def assign(self, t, value):
        f = self.fn
        if isinstance(t, ast.Name):
            self.expr(value, t.id)
        elif isinstance(t, (ast.Tuple, ast.List)):
            tmp = self.fresh_tmp()
            self.expr(value, tmp)
            for el in t.elts:
                for nn in ast.walk(el):
                    if isinstance(nn, ast.Name):
                        f.add("Load", nn.id, [tmp])
        elif isinstance(t, ast.Subscript):
            b = base_name(t)
            if b:
                f.add("Store", b)
                self.put(b, value)            # the object now holds a reference to the stored value
        elif isinstance(t, ast.Attribute):
            b = base_name(t)
            if b:
                f.add("StoreAttr", b, t.attr)
                self.put(b, value)

    def visit_AugAssign(self, n):
        b = base_name(n.target)
        if b:
            if isinstance(n.target, ast.Name):
                # x op= e : in place for arrays, a rebinding for tuples / numbers.  Tuples/ints are always Fresh here,
                # so recording a Store is harmless for them and necessary for arrays.
                self.fn.add("Store", b)
            else:
                self.fn.add("Store", b)

    def visit_For(self, n):
        for tn in ast.walk(n.target):
            if isinstance(tn, ast.Name):
                tmp = self.fresh_tmp()
                self.expr(n.iter, tmp)
                self.fn.add("Load", tn.id, [tmp])
        self.generic_visit(n)

    def visit_With(self, n):
        for it in n.items:
            if it.optional_vars is not None and isinstance(it.optional_vars, ast.Name):
                self.fn.add("Fresh", it.optional_vars.id)
        self.generic_visit(n)

    def visit_Return(self, n):
        if n.value is not None:
            self.expr(n.value, "%ret")

    def visit_Expr(self, n):
        if isinstance(n.value, ast.Call):
            self.call(n.value, self.fresh_tmp())

    def visit_FunctionDef(self, n):
        if n is self.fn.node:
            self.generic_visit(n)
        # nested defs are opaque (none in the task functions store into enclosing arrays)

    visit_Lambda = lambda self, n: None  # noqa: E731


def collect():
    fns = {}
    for mod, path in FILES.items():
        tree = ast.parse(open(path).read())
        for n in tree.body:
            if isinstance(n, ast.FunctionDef):
                fns[f"{mod}.{n.name}"] = Fn(f"{mod}.{n.name}", n)
            elif isinstance(n, ast.ClassDef):
                for m in n.body:
                    if isinstance(m, ast.FunctionDef):
                        fns[f"{mod}.{n.name}.{m.name}"] = Fn(f"{mod}.{n.name}.{m.name}", m)
    # name resolution helpers: bare names and module aliases
    known = dict(fns)
    for qn, f in list(fns.items()):
        mod, short = qn.split(".", 1)
        known.setdefault(short, f)
        known.setdefault(f"{mod}.{short}", f)
    known["generic_aggregate"] = fns["aggregations.generic_aggregate"]
    known["reindex_"] = fns["core.reindex_"]
    known["chunk_reduce"] = fns["core.chunk_reduce"]
    known["concatenate"] = fns["aggregations.concatenate"]
    for f in fns.values():
        for i, p in enumerate(f.params):
            f.add("Param", p, i)
        Extract(f, known).visit(f.node)
    return fns


def reachable(fns, roots):
    seen, stack = set(), [r for r in roots if r in fns]
    while stack:
        x = stack.pop()
        if x in seen:
            continue
        seen.add(x)
        for s in fns[x].stmts:
            if s[0] == "Call" and s[2] in fns:
                stack.append(s[2])
    return sorted(seen)


ALLOWED_STORES = {
    # (function, variable): justification -- reviewed in-place writes that do not touch a task input
    ("core._postprocess_numbagg", "result"): "only ever called by chunk_reduce on the array just returned by a numbagg kernel (freshly allocated); "
                                             "for every other func it returns before the write",
    ("core._expand_dims", "results"): "applied through toolz.compose to the dict freshly returned by chunk_reduce / chunk_argreduce inside the same task",
    ("core.reindex_pydata_sparse_coo", "coords"): "coords of the new sparse.COO produced by array[..., mask]; the sparse package is absent here (unreachable)",
    ("core.factorize_", "group_idx"): "group_idx is component [1] of _factorize_single's result (or their ravel), which is always a new array "
                                      "(flat.copy(), np.digitize, np.searchsorted, pd.factorize; checked inside _factorize_single itself); the IR "
                                      "is field-insensitive and merges it with component [0] (the expected index) and with zip()'s other operand",
    ("core._reduce_blockwise", "agg"): "idempotent attribute write agg.finalize = None on the per-call deep copy of the blueprint",
}

COPY_POINTS = {
    # (function, variable): justification -- loads that are known to COPY (reviewed; exercised by K5)
    ("core.reindex_numpy", "reindexed"): "array[tuple(indexer)] with an integer index array (idx) is advanced indexing: always a copy",
}


def apply_allowlist(fns):
    for qn, f in fns.items():
        new = []
        for st in f.stmts:
            if st[0] in ("Store", "StoreAttr") and (qn, st[1]) in ALLOWED_STORES:
                new.append(("Allowed", st[1], ALLOWED_STORES[(qn, st[1])]))
            else:
                new.append(st)
        f.stmts = new


def solve(fns, order):
    """objects: ('P', i) parameter i (and everything it owns) | ('F', var) allocated here.
    pts[v]: objects v may BE; cont[o]: objects referenced from inside o.
    summaries: stores (params written), ret (params the result may BE), retc (params the result may contain)"""
    summ = {q_: {"stores": set(), "ret": set(), "retc": set()} for q_ in order}
    cert = {}
    changed = True
    while changed:
        changed = False
        for qn in order:
            f = fns[qn]
            pts, cont = {}, {}

            def P(v):
                return pts.setdefault(v, set())

            def Cn(o):
                return cont.setdefault(o, set())

            def reach(v):
                r = set(P(v))
                for o in list(P(v)):
                    r |= Cn(o)
                return r
            it = True
            while it:
                it = False

                def grow(st, new):
                    nonlocal it
                    if not new <= st:
                        st.update(new)
                        it = True
                for s in f.stmts:
                    k = s[0]
                    if k == "Param":
                        grow(P(s[1]), {("P", s[2])})
                        grow(Cn(("P", s[2])), {("P", s[2])})
                    elif k == "Fresh":
                        grow(P(s[1]), {("F", s[1])})
                    elif k == "Alias":
                        for y in s[2]:
                            grow(P(s[1]), P(y))
                    elif k == "Load":
                        if (qn, s[1]) in COPY_POINTS:
                            grow(P(s[1]), {("F", s[1])})
                        else:
                            for y in s[2]:
                                grow(P(s[1]), reach(y))
                    elif k == "Put":
                        for o in list(P(s[1])):
                            grow(Cn(o), reach(s[2]))
                    elif k == "Call":
                        cs = summ.get(s[2])
                        callee = fns.get(s[2])
                        site = ("F", s[1])
                        grow(P(s[1]), {site})
                        for pos, (kw, a) in enumerate(s[3]):
                            idx = callee.params.index(kw) if (callee and kw in callee.params) else (pos if kw is None else None)
                            if cs is None or idx is None:
                                grow(P(s[1]), reach(a))
                                continue
                            if idx in cs["ret"]:
                                grow(P(s[1]), P(a))
                            if idx in cs["retc"]:
                                grow(Cn(site), reach(a))
            stores = set()
            for s in f.stmts:
                targets = []
                if s[0] in ("Store", "StoreAttr"):
                    targets = [s[1]]
                elif s[0] == "Call" and s[2] in summ:
                    callee = fns[s[2]]
                    for pos, (kw, a) in enumerate(s[3]):
                        idx = callee.params.index(kw) if (kw in callee.params) else (pos if kw is None else None)
                        if idx is not None and idx in summ[s[2]]["stores"]:
                            targets.append(a)
                for t in targets:
                    stores |= {l[1] for l in P(t) if l[0] == "P"}
            ret = {l[1] for l in P("%ret") if l[0] == "P"}
            retc = set()
            for o in P("%ret"):
                retc |= {l[1] for l in Cn(o) if l[0] == "P"}
            new = {"stores": stores, "ret": ret, "retc": retc}
            if new != summ[qn]:
                summ[qn] = new
                changed = True
            cert[qn] = (pts, cont)
    return cert, summ


def loc(l):
    return f"(LParam {l[1]})" if l[0] == "P" else f"(LFresh {q(l[1])})"


def emit(fns, order, cert, summ, out, h):
    lines = [f"(* GENERATED by tools/translate/gen_effects.py from the AST of flox (task functions).\n   sources sha256: {h} *)",
             "From Coq Require Import String List.\nFrom Flox Require Import EffIR.\nImport ListNotations.\n"]
    defs = []
    for qn in order:
        f = fns[qn]
        st = []
        for s in f.stmts:
            k = s[0]
            if k == "Param":
                st.append(f"SParam {q(s[1])} {s[2]}")
            elif k == "Fresh":
                st.append(f"SFresh {q(s[1])}")
            elif k == "Alias":
                st.append(f"SAlias {q(s[1])} [{'; '.join(q(y) for y in s[2])}]")
            elif k == "Load":
                if (qn, s[1]) in COPY_POINTS:
                    st.append(f"SCopy {q(s[1])}")
                else:
                    st.append(f"SLoad {q(s[1])} [{'; '.join(q(y) for y in s[2])}]")
            elif k == "Put":
                st.append(f"SPut {q(s[1])} {q(s[2])}")
            elif k == "Store":
                st.append(f"SStore {q(s[1])}")
            elif k == "StoreAttr":
                st.append(f"SStoreAttr {q(s[1])} {q(s[2])}")
            elif k == "Allowed":
                st.append(f"SAllowed {q(s[1])} {q(s[2][:80])}")
            elif k == "Call":
                callee = fns.get(s[2])
                args = []
                for pos, (kw, a) in enumerate(s[3]):
                    idx = callee.params.index(kw) if (callee and kw in callee.params) else (pos if kw is None else 999)
                    args.append(f"({idx}, {q(a)})")
                st.append(f"SCall {q(s[1])} {q(s[2])} [{'; '.join(args)}]")
            elif k == "Unknown":
                st.append(f"SUnknown {q(s[1])}")
        pts, cont = cert[qn]
        c1 = "; ".join(f"({q(v)}, [{'; '.join(loc(l) for l in sorted(ls))}])" for v, ls in sorted(pts.items()))
        c2 = "; ".join(f"({loc(o)}, [{'; '.join(loc(l) for l in sorted(ls))}])" for o, ls in sorted(cont.items()))
        name = "fn_" + qn.replace(".", "_")
        defs.append(name)
        sep = ";\n   "
        lines.append(f"Definition {name} : fndef := mkFn {q(qn)} {len(f.params)}\n  [{sep.join(st)}]\n  [{c1}]\n  [{c2}]\n"
                     f"  [{'; '.join(str(i) for i in sorted(summ[qn]['stores']))}] [{'; '.join(str(i) for i in sorted(summ[qn]['ret']))}]"
                     f" [{'; '.join(str(i) for i in sorted(summ[qn]['retc']))}].\n")
    lines.append("Definition task_functions : list fndef := [" + "; ".join(defs) + "].\n")
    roots = [r for r in TASK_ROOTS if r in order]
    lines.append("Definition task_roots : list string := [" + "; ".join(q(r) for r in roots) + "].\n")
    lines.append("Definition allowed_stores : list (string * string * string) := [" +
                 "; ".join(f"({q(k[0])}, {q(k[1])}, {q(v[:100])})" for k, v in sorted(ALLOWED_STORES.items())) + "].\n")
    lines.append("Definition copy_points : list (string * string * string) := [" +
                 "; ".join(f"({q(k[0])}, {q(k[1])}, {q(v[:100])})" for k, v in sorted(COPY_POINTS.items())) + "].\n")
    text = "\n".join(lines)
    try:
        old = open(out).read()
    except OSError:
        old = None
    if old != text:
        open(out, "w").write(text)


def main(out):
    h = hashlib.sha256()
    for p in FILES.values():
        h.update(open(p, "rb").read())
    fns = collect()
    apply_allowlist(fns)
    order = reachable(fns, TASK_ROOTS)
    cert, summ = solve(fns, order)
    emit(fns, order, cert, summ, out, h.hexdigest())
    if "--report" in sys.argv:
        for qn in order:
            if summ[qn]["stores"]:
                print("STORES", qn, [fns[qn].params[i] for i in sorted(summ[qn]["stores"])])
        print(len(order), "functions")
        for qn, nm in sorted(UNKNOWN_METHODS):
            if qn in order:
                print("UNKNOWN-METHOD", qn, nm)
    print(h.hexdigest())


if __name__ == "__main__":
    main(next((a for a in sys.argv[1:] if not a.startswith("--")), "/verif/coq/Gen/Effects.v"))
