#!/venv/bin/python
"""T4: alias/effect IR of the functions that run inside flox's tasks (and of the public entry points),
extracted from the AST.  Flow-insensitive: a function is a SET of statements
   Param x i | Fresh x | Alias x [ys] | Store x | StoreAttr x | Call x f [args] | Ret [ys]
plus a points-to certificate computed here (Andersen-style fixpoint) that Coq re-checks
(coq/Model/EffIR.v: closedness of the certificate, no store into anything that may alias a parameter).
Callee classification of NumPy/pandas functions (fresh / view-of-args) is the table below: trusted, exercised by K5.
Fail-closed: an unclassified callee is treated as "may alias every argument"."""
import ast
import hashlib
import re
import sys

FILES = {"core": "/repo/flox/core.py", "aggregations": "/repo/flox/aggregations.py", "aggregate_flox": "/repo/flox/aggregate_flox.py",
         "aggregate_npg": "/repo/flox/aggregate_npg.py", "aggregate_numbagg": "/repo/flox/aggregate_numbagg.py", "xrutils": "/repo/flox/xrutils.py",
         "dask_array_ops": "/repo/flox/dask_array_ops.py", "xarray": "/repo/flox/xarray.py"}

# functions that are (or are called from) task callables
TASK_ROOTS = ["core.chunk_reduce", "core.chunk_argreduce", "core._reduce_blockwise", "core._aggregate", "core._simple_combine",
              "core._grouped_combine", "core._expand_dims", "core.reindex_intermediates", "core._extract_result",
              "core._lazy_factorize_wrapper", "core._ravel_factorized", "core.chunk_scan", "core.grouped_reduce", "core._zip",
              "core._finalize_scan", "aggregations.scan_binary_op", "core.identity"]

# public entry points (C14: an API call writes into none of its arguments and into no module-level state)
API_ROOTS = ["core.groupby_reduce", "core.groupby_scan", "core.rechunk_for_blockwise", "core.rechunk_for_cohorts",
             "aggregations._initialize_aggregation", "xarray.xarray_reduce", "xarray.rechunk_for_blockwise", "xarray.rechunk_for_cohorts"]

# callees returning a NEW buffer that shares no memory with their arguments
FRESH_CALLS = {
    "np.where", "np.full", "np.full_like", "np.zeros", "np.zeros_like", "np.ones", "np.empty", "np.empty_like", "np.arange", "np.concatenate",
    "np.stack", "np.sort", "np.unique", "np.diff", "np.cumsum", "np.insert", "np.isin", "np.isnan", "np.isnat", "np.nonzero", "np.searchsorted",
    "np.digitize", "np.argsort", "np.ravel_multi_index", "np.unravel_index", "np.logical_or", "np.array", "np.repeat", "np.median",
    "np.add.reduceat", "np.all", "np.any", "np.sum", "np.prod", "np.floor", "np.ceil", "np.subtract", "np.add", "np.sqrt", "np.take_along_axis",
    "np.array_equal", "np.result_type", "np.dtype", "np.issubdtype", "np.iinfo", "np.bincount", "np.argmax", "np.argwhere", "np.ix_", "np.nanmin",
    "np.maximum.accumulate", "np.abs", "np.timedelta64", "np.datetime64", "np.shape", "np.nan_to_num", "np.isscalar",
    "pd.factorize", "pd.unique", "pd.Index", "pd.RangeIndex", "pd.isnull", "pd.IntervalIndex.from_breaks", "pd.cut",
    "copy.deepcopy", "xr.apply_ufunc", "xr.broadcast", "xr.align", "xr.Dataset", "xr.DataArray", "xr.Variable", "pd.MultiIndex.from_tuples",
    "pd.MultiIndex.from_product", "math.prod", "math.ceil", "math.log", "len", "tuple", "list", "dict", "set", "sorted", "range", "zip", "enumerate", "int", "float", "bool", "str",
    "isinstance", "callable", "all", "any", "min", "max", "sum", "abs", "getattr", "hasattr", "type", "reduce", "partial", "product",
    "isnull", "notnull", "is_scalar", "is_duck_array", "is_duck_dask_array", "module_available", "normalize_axis_index",
    "_atleast_1d", "_is_arg_reduction", "_is_first_last_reduction", "_is_minmax_reduction", "is_nanlen", "quantile_new_dims_func", "_issorted",
    "flatten", "itertools.chain", "itertools.product", "tlz.groupby", "tlz.accumulate", "warnings.catch_warnings", "warnings.filterwarnings",
    "np.errstate", "logger.debug", "print", "slice", "Version", "ValueError", "NotImplementedError", "TypeError", "AssertionError",
}
# xarray: these return NEW container objects (Dataset / DataArray / Variable mappings are copy-on-write at the object level; the
# underlying buffers may be shared, so in-place writes through .values/.data of such an object are NOT tracked here: K5 compares
# the caller's objects before/after instead)
XARRAY_FRESH_METHODS = {"drop_vars", "set_coords", "map", "_from_temp_dataset", "_to_temp_dataset", "assign", "expand_dims", "assign_coords",
                        "reset_coords", "rename", "isel", "sel", "to_dataset", "to_dataarray", "broadcast_like", "chunk", "copy", "reindex_like"}
FRESH_METHODS = XARRAY_FRESH_METHODS | {"copy", "sum", "max", "min", "any", "all", "cumsum", "argsort", "nonzero", "tolist", "item", "to_numpy", "get_indexer", "sort_values",
                 "equals", "mean", "astype", "keys", "values", "items", "get", "update", "append", "extend", "partition", "fill"}
# callees / methods returning a VIEW of (some of) their arguments
VIEW_CALLS = {"np.asarray", "np.broadcast_to", "np.squeeze", "np.expand_dims", "np.atleast_1d", "np.reshape", "np.moveaxis", "np.broadcast_arrays",
              "deepfirst", "deepmap", "_concatenate2", "cast"}
VIEW_METHODS = {"reshape", "squeeze", "transpose", "view", "ravel", "swapaxes"}
INPLACE_METHODS = {"partition", "fill", "sort", "update", "append", "extend", "resize", "itemset", "put", "setfield", "setflags", "byteswap",
                   "setdefault", "pop", "popitem", "clear", "remove", "insert", "reverse", "add", "discard"}
# third-party functions that WRITE INTO their first argument
INPLACE_CALLS = {"np.copyto", "np.put", "np.place", "np.putmask", "np.put_along_axis", "np.fill_diagonal", "np.random.shuffle", "np.ndarray.sort",
                 "np.ndarray.fill", "setattr", "object.__setattr__", "operator.setitem", "operator.iadd", "delattr"}
# unclassified callees that are reviewed NOT to write into their arguments (constructors of flox's own dataclasses, the generic
# callables flox receives -- user/registry kernels, assumed pure: exercised by K5 -- and method chains on fresh temporaries).
# Every OTHER unclassified callee is translated as "may write into every argument" (fail-closed).
PURE_UNKNOWN = {"AlignedArrays", "ScanState", "FactorProps", "combine", "reduction", "method", "func", "finalize", "agg.finalize", "preprocess",
                "binary_op", "scan", "op",
                # used by the API entry points (graph construction / planning): dask and scipy constructors and pure helpers
                "ReindexStrategy", "chunk_unique", "csr_array", "dask.array.map_blocks", "dask.array.unify_chunks", "from_array", "make_bitmask",
                "map", "map_blocks", "normalize_axis_tuple", "npg.aggregate_numpy.aggregate", "unify_chunks",
                "ArrayLayer", "dask.array.Array", "dask.array.blockwise", "dask.base.tokenize", "lol_tuples", "partition_all", "tlz.compose",
                "tree_reduce"}


UNKNOWN_METHODS = set()
# methods (on a named receiver) reviewed not to modify the receiver; any other unclassified method counts as a write into it
PURE_METHODS = {"finalize", "result", "COO", "submit", "timedelta", "preprocess", "rechunk", "compute", "map_blocks",
                "from_collections", "fromkeys", "groupby_blockwise", "groupby_reduction", "unify_chunks", "from_array"}   # agg.finalize(*intermediates): user/registry finaliser (assumed pure, K5); Future.result(); sparse.COO constructor


GLOBALS = "%globals"


def q(s):
    return '"' + str(s).replace('"', "'") + '"%string'


class Fn:
    def __init__(self, qual, node):
        self.qual, self.node = qual, node
        self.params = [a.arg for a in node.args.posonlyargs + node.args.args + node.args.kwonlyargs]
        if node.args.vararg:
            self.params.append(node.args.vararg.arg)
        if node.args.kwarg:
            self.params.append(node.args.kwarg.arg)
        self.star_params = [a.arg for a in (node.args.vararg, node.args.kwarg) if a is not None]
        self.params.append(GLOBALS)   # pseudo-parameter: every module-level object (the registry AGGREGATIONS, caches, constants)
        self.stmts = []   # tuples

    def add(self, *s):
        self.stmts.append(s)


def cname(c):
    try:
        return re.sub(r"#\d+", "", ast.unparse(c.func))     # version suffixes of local names (see _version_block) are not part of a callee's name
    except Exception:  # noqa: BLE001
        return "?"


def names(e):
    return sorted({n.id for n in ast.walk(e) if isinstance(n, ast.Name)})


def base_name(e):
    """the variable a (possibly nested) subscript / attribute expression is rooted at"""
    while isinstance(e, (ast.Subscript, ast.Attribute, ast.Starred)):
        e = e.value
    return e.id if isinstance(e, ast.Name) else None


class Extract(ast.NodeVisitor):
    def __init__(self, fn, known):
        self.fn, self.known, self.tmp = fn, known, 0
        self.partials = {}    # local name -> (known callee name, keywords) for  x = partial(g, **kw)

    def fresh_tmp(self):
        self.tmp += 1
        return f"%t{self.tmp}"

    def expr(self, e, target):
        """emit statements making [target] hold the value of expression e"""
        f = self.fn
        if e is None or isinstance(e, ast.Constant):
            f.add("Fresh", target)
        elif isinstance(e, ast.Name):
            f.add("Alias", target, [e.id])
        elif isinstance(e, (ast.BinOp, ast.UnaryOp, ast.Compare, ast.BoolOp, ast.JoinedStr, ast.Lambda)):
            f.add("Fresh", target)
        elif isinstance(e, ast.IfExp):
            self.expr(e.body, target)
            self.expr(e.orelse, target)
        elif isinstance(e, (ast.Tuple, ast.List, ast.Set)):
            f.add("Fresh", target)
            for el in e.elts:
                self.put(target, el)
        elif isinstance(e, ast.Dict):
            f.add("Fresh", target)
            for v in e.values:
                if v is not None:
                    self.put(target, v)
        elif isinstance(e, (ast.ListComp, ast.GeneratorExp, ast.SetComp, ast.DictComp)):
            f.add("Fresh", target)
            for g in e.generators:
                t = [n.id for n in ast.walk(g.target) if isinstance(n, ast.Name)]
                for tn in t:
                    tmp = self.fresh_tmp()
                    self.expr(g.iter, tmp)
                    f.add("Load", tn, [tmp])
            for sub in ([e.elt] if hasattr(e, "elt") else [e.key, e.value]):
                self.put(target, sub)
        elif isinstance(e, (ast.Subscript, ast.Attribute, ast.Starred)):
            b = base_name(e)
            if b is not None:
                f.add("Load", target, [b])
            else:
                tmp = self.fresh_tmp()
                self.expr(e.value, tmp)
                f.add("Load", target, [tmp])
        elif isinstance(e, ast.Call):
            self.call(e, target)
        elif isinstance(e, ast.NamedExpr):
            self.expr(e.value, e.target.id)
            f.add("Alias", target, [e.target.id])
        else:
            f.add("Alias", target, names(e))

    def put(self, container, e):
        tmp = self.fresh_tmp()
        self.expr(e, tmp)
        self.fn.add("Put", container, tmp)

    def call(self, c, target, unpack=None):
        """unpack: names receiving the components of a tuple result (x, y = g(...)) when g always returns a tuple literal of
        that length: component i is then the result of the projected function g@i (same body, returns only component i)"""
        f = self.fn
        nm = cname(c)
        argexprs = list(c.args) + [k.value for k in c.keywords]
        for k in c.keywords:
            if k.arg == "out" and not (isinstance(k.value, ast.Constant) and k.value.value is None):
                b = base_name(k.value)
                if b:
                    f.add("Store", b)
                else:
                    # out=<expression>: whatever the expression yields is written into
                    t_out = self.fresh_tmp()
                    self.expr(k.value, t_out)
                    f.add("Store", t_out)
        short = nm.split(".")[-1]
        if short == "submit" and c.args:
            # executor.submit(partial(g, **kw), *args)  ==  a call g(*args, **kw) whose result is read with .result()
            head = c.args[0]
            g, kws = None, []
            if isinstance(head, ast.Call) and cname(head) == "partial" and head.args and isinstance(head.args[0], ast.Name):
                g, kws = head.args[0].id, list(head.keywords)
            elif isinstance(head, ast.Name):
                g = head.id
            callee = self.known.get(g) if g else None
            if callee is not None:
                fake = ast.Call(func=ast.Name(id=g, ctx=ast.Load()), args=list(c.args[1:]), keywords=kws + list(c.keywords))
                return self.call(fake, target)
        if nm in self.partials:
            g, kws = self.partials[nm]
            fake = ast.Call(func=ast.Name(id=g, ctx=ast.Load()), args=list(c.args), keywords=kws + list(c.keywords))
            return self.call(fake, target)
        if isinstance(c.func, ast.Attribute) and base_name(c.func) is not None and nm not in FRESH_CALLS and nm not in VIEW_CALLS \
                and not nm.startswith(("np.", "pd.", "xr.", "math.", "dask.", "itertools.", "tlz.", "warnings.", "xrdtypes.", "dtypes.", "aggregate_", "npg.", "numbagg.", "xrutils.", "operator.")):
            recv = base_name(c.func)
            if nm in ("copy.copy",):
                # a SHALLOW copy shares its interior with the argument: under deep ownership it is an alias of it
                f.add("Alias", target, sorted({n for a in argexprs for n in names(a)}))
                return
            if short in INPLACE_METHODS:
                f.add("Store", recv)
            if short in VIEW_METHODS or (short == "astype" and any(k.arg == "copy" for k in c.keywords)):
                f.add("Alias", target, [recv])
                return
            if short in ("append", "extend", "update", "setdefault"):
                for a in argexprs:
                    self.put(recv, a)
            if short in FRESH_METHODS:
                f.add("Fresh", target)
                return
            # unknown method: may return a view of the receiver or of an argument
            f.add("Load", target, sorted({recv} | {n for a in argexprs for n in names(a)}))
            UNKNOWN_METHODS.add((f.qual, nm))
            if short not in PURE_METHODS:
                f.add("Store", recv)      # fail-closed: an unreviewed method may modify its receiver
            return
        if nm in FRESH_CALLS or nm.startswith(("math.", "operator.", "xrdtypes.", "dtypes.")):
            f.add("Fresh", target)
            # arguments are still evaluated (nested flox calls have effects); container constructors keep references
            for a in argexprs:
                if nm in ("tuple", "list", "dict", "set", "sorted", "zip", "enumerate", "reduce", "partial", "product", "itertools.chain"):
                    self.put(target, a)
                elif any(isinstance(n, ast.Call) for n in ast.walk(a)):
                    self.expr(a, self.fresh_tmp())
            return
        if nm in VIEW_CALLS:
            f.add("Load", target, sorted({n for a in argexprs for n in names(a)}))
            return
        callee = self.known.get(nm) or self.known.get("core." + nm) or self.known.get(self.fn.qual.split(".")[0] + "." + nm)
        if callee is not None:
            args = []
            for a in c.args:
                t = self.fresh_tmp()
                self.expr(a, t)
                args.append((None, t))
            for k in c.keywords:
                t = self.fresh_tmp()
                self.expr(k.value, t)
                args.append((k.arg, t))
            args.append((GLOBALS, GLOBALS))      # the callee sees (and may write) the same module-level state
            if unpack is not None and getattr(callee, "tuple_arity", None) == len(unpack) and all(
                    f"{callee.qual}@{i}" in self.known for i in range(len(unpack))):
                for i, tn in enumerate(unpack):
                    f.add("Call", tn, f"{callee.qual}@{i}", args)
                f.add("Fresh", target)
                return "unpacked"
            f.add("Call", target, callee.qual, args)
            return
        # unclassified callee (third-party kernels, generic callables): may alias every argument
        f.add("Load", target, sorted({n for a in argexprs for n in names(a)}))
        f.add("Unknown", nm)
        if nm in INPLACE_CALLS or nm.endswith(".at"):
            if argexprs and base_name(argexprs[0]):
                f.add("Store", base_name(argexprs[0]))
        elif nm not in PURE_UNKNOWN and not (isinstance(c.func, ast.Attribute) and base_name(c.func) is None):
            # fail-closed: an unreviewed callee may write into any of its arguments
            for a in argexprs:
                for n_ in names(a):
                    f.add("Store", n_)

    # ---- statements
    def visit_Assign(self, n):
        for t in n.targets:
            self.assign(t, n.value)

    def visit_AnnAssign(self, n):
        if n.value is not None:
            self.assign(n.target, n.value)

    def assign(self, t, value):
        f = self.fn
        if isinstance(t, ast.Name) and isinstance(value, ast.Call) and cname(value) == "partial" and value.args \
                and isinstance(value.args[0], ast.Name) and self.known.get(value.args[0].id) is not None and len(value.args) == 1:
            self.partials[t.id.split('#')[0]] = (value.args[0].id, list(value.keywords))
        if isinstance(t, ast.Name):
            self.expr(value, t.id)
        elif isinstance(t, (ast.Tuple, ast.List)):
            tmp = self.fresh_tmp()
            if isinstance(value, ast.Call) and all(isinstance(el, ast.Name) for el in t.elts):
                if self.call(value, tmp, unpack=[el.id for el in t.elts]) == "unpacked":
                    return
            else:
                self.expr(value, tmp)
            for el in t.elts:
                for nn in ast.walk(el):
                    if isinstance(nn, ast.Name):
                        f.add("Load", nn.id, [tmp])
        elif isinstance(t, (ast.Subscript, ast.Attribute)):
            # DEEP OWNERSHIP: an abstract object stands for the object and the interior it owns, so x.a[k] = v is a write into
            # (the object rooted at) x.  Sound as long as a fresh container does not hold interior objects owned by someone
            # else: hence shallow copies (copy.copy) are translated as ALIASES of their argument, never as fresh objects.
            b = base_name(t)
            if b:
                if isinstance(t, ast.Subscript):
                    f.add("Store", b)
                else:
                    f.add("StoreAttr", b, t.attr)
                self.put(b, value)            # the object now holds a reference to the stored value

    def visit_AugAssign(self, n):
        b = base_name(n.target)
        if b:
            # x op= e : in place for arrays, a rebinding for tuples / numbers.  Tuples/ints are always Fresh here,
            # so recording a Store is harmless for them and necessary for arrays.  (x.a[k] op= e: deep ownership, see assign)
            self.fn.add("Store", b)

    def visit_For(self, n):
        for tn in ast.walk(n.target):
            if isinstance(tn, ast.Name):
                tmp = self.fresh_tmp()
                self.expr(n.iter, tmp)
                self.fn.add("Load", tn.id, [tmp])
        self.generic_visit(n)

    def visit_With(self, n):
        for it in n.items:
            if it.optional_vars is not None and isinstance(it.optional_vars, ast.Name):
                self.fn.add("Fresh", it.optional_vars.id)
        self.generic_visit(n)

    def visit_Return(self, n):
        if n.value is not None:
            i = getattr(self.fn, "ret_index", None)
            if i is not None and isinstance(n.value, ast.Tuple) and len(n.value.elts) == self.fn.tuple_arity:
                self.expr(n.value.elts[i], "%ret")
            else:
                self.expr(n.value, "%ret")

    def visit_Expr(self, n):
        if isinstance(n.value, ast.Call):
            self.call(n.value, self.fresh_tmp())

    def visit_FunctionDef(self, n):
        if n is self.fn.node:
            self.generic_visit(n)
        # nested defs are opaque (none in the task functions store into enclosing arrays)

    visit_Lambda = lambda self, n: None  # noqa: E731


class _Rename(ast.NodeTransformer):
    def __init__(self, mapping):
        self.mapping = mapping

    def visit_Name(self, n):
        if n.id in self.mapping:
            return ast.copy_location(ast.Name(id=self.mapping[n.id], ctx=n.ctx), n)
        return n


def _simple_targets(targets):
    names_ = []
    for t in targets:
        if isinstance(t, ast.Name):
            names_.append(t.id)
        elif isinstance(t, (ast.Tuple, ast.List)) and all(isinstance(e, ast.Name) for e in t.elts):
            names_ += [e.id for e in t.elts]
        else:
            return None
    return names_


def _version_block(stmts, mapping, counter):
    """Flow sensitivity where it is free.  Inside one block the statements run in order, so a plain assignment `x = e` KILLS the
    earlier binding of x for the REST OF THAT BLOCK (nested blocks included): later statements see a new variable `x#n`.
    When a nested block ends, the versions it created flow out by a weak merge `outer_x = inner_x` placed after the compound
    statement (which also covers loop bodies executed again and exception handlers, because every other use of `outer_x` is
    flow-insensitive).  Needed for  agg = AGGREGATIONS[func]; agg = copy.deepcopy(agg); agg.dtype = ...  and
    result = asdelta + offset; result[mask] = NaT."""
    out = []
    for st in stmts:
        if isinstance(st, (ast.Assign, ast.AnnAssign)) and getattr(st, "value", None) is not None:
            targets = st.targets if isinstance(st, ast.Assign) else [st.target]
            st.value = _Rename(dict(mapping)).visit(st.value)
            killed = _simple_targets(targets)
            if killed is None:
                new_targets = [_Rename(dict(mapping)).visit(t) for t in targets]
            else:
                for name in killed:
                    counter[0] += 1
                    mapping[name] = f"{name}#{counter[0]}"
                new_targets = [_Rename(dict(mapping)).visit(t) for t in targets]
            if isinstance(st, ast.Assign):
                st.targets = new_targets
            else:
                st.target = new_targets[0]
            out.append(st)
        elif isinstance(st, (ast.If, ast.For, ast.While, ast.With, ast.Try)):
            merges = []
            for field in ("test", "iter", "target"):
                if hasattr(st, field):
                    setattr(st, field, _Rename(dict(mapping)).visit(getattr(st, field)))
            if isinstance(st, ast.With):
                st.items = [_Rename(dict(mapping)).visit(i) for i in st.items]
            blocks = [("body", st.body)]
            if getattr(st, "orelse", None):
                blocks.append(("orelse", st.orelse))
            if getattr(st, "finalbody", None):
                blocks.append(("finalbody", st.finalbody))
            for name, blk in blocks:
                sub = dict(mapping)
                setattr(st, name, _version_block(blk, sub, counter))
                merges += [(mapping.get(k, k), v) for k, v in sub.items() if mapping.get(k, k) != v]
            for h in getattr(st, "handlers", []):
                sub = dict(mapping)
                h.body = _version_block(h.body, sub, counter)
                merges += [(mapping.get(k, k), v) for k, v in sub.items() if mapping.get(k, k) != v]
            out.append(st)
            for outer, inner in merges:
                out.append(ast.Assign(targets=[ast.Name(id=outer, ctx=ast.Store())], value=ast.Name(id=inner, ctx=ast.Load()), lineno=st.lineno))
        elif isinstance(st, (ast.FunctionDef, ast.ClassDef)):
            out.append(st)        # nested definitions are opaque to the extractor
        else:
            out.append(_Rename(dict(mapping)).visit(st))
    return out


def version_top_level_bindings(node):
    node.body = _version_block(node.body, {}, [0])
    return node


def collect():
    fns = {}
    for mod, path in FILES.items():
        tree = ast.parse(open(path).read())
        for n in tree.body:
            if isinstance(n, ast.FunctionDef):
                fns[f"{mod}.{n.name}"] = Fn(f"{mod}.{n.name}", version_top_level_bindings(n))
            elif isinstance(n, ast.ClassDef):
                for m in n.body:
                    if isinstance(m, ast.FunctionDef):
                        fns[f"{mod}.{n.name}.{m.name}"] = Fn(f"{mod}.{n.name}.{m.name}", version_top_level_bindings(m))
    # functions whose every return is a tuple literal of one length n >= 2 get n projections  g@i
    for qn, f in list(fns.items()):
        rets = [r for r in ast.walk(f.node) if isinstance(r, ast.Return)]
        inner = {id(r) for d in ast.walk(f.node) if isinstance(d, (ast.FunctionDef, ast.Lambda)) and d is not f.node for r in ast.walk(d) if isinstance(r, ast.Return)}
        rets = [r for r in rets if id(r) not in inner]
        if rets and all(isinstance(r.value, ast.Tuple) and not any(isinstance(e, ast.Starred) for e in r.value.elts) for r in rets):
            ar = {len(r.value.elts) for r in rets}
            if len(ar) == 1 and min(ar) >= 2:
                f.tuple_arity = min(ar)
                for i in range(f.tuple_arity):
                    g = Fn(f"{qn}@{i}", f.node)
                    g.tuple_arity, g.ret_index = f.tuple_arity, i
                    fns[g.qual] = g
    # name resolution helpers: bare names and module aliases
    known = dict(fns)
    for qn, f in list(fns.items()):
        mod, short = qn.split(".", 1)
        known.setdefault(short, f)
        known.setdefault(f"{mod}.{short}", f)
    known["generic_aggregate"] = fns["aggregations.generic_aggregate"]
    known["reindex_"] = fns["core.reindex_"]
    known["chunk_reduce"] = fns["core.chunk_reduce"]
    known["concatenate"] = fns["aggregations.concatenate"]
    module_names = set()
    for mod, path in FILES.items():
        tree = ast.parse(open(path).read())
        for n in tree.body:
            tg = []
            if isinstance(n, ast.Assign):
                tg = n.targets
            elif isinstance(n, ast.AnnAssign) and n.value is not None:
                tg = [n.target]
            for t in tg:
                for nn in ast.walk(t):
                    if isinstance(nn, ast.Name):
                        module_names.add(nn.id)
    for f in fns.values():
        for i, p in enumerate(f.params):
            if p in f.star_params:
                # *args / **kwargs: the tuple / dict itself is created by the call (writing into it touches nothing of the caller);
                # what it CONTAINS is the caller's
                f.add("Param", "%star_" + p, i)
                f.add("Fresh", p)
                f.add("Put", p, "%star_" + p)
            else:
                f.add("Param", p, i)
        Extract(f, known).visit(f.node)
        decos = {ast.unparse(d).split("(")[0].split(".")[-1] for d in getattr(f.node, "decorator_list", [])}
        if decos & {"lru_cache", "cache", "memoize", "cached_property"}:
            # a memoised function hands the SAME object to every caller: its result is module-level state, not a fresh object
            f.add("Alias", "%ret", [GLOBALS])
        local = set(f.params) | {nn.id.split("#")[0] for nn in ast.walk(f.node) if isinstance(nn, ast.Name) and isinstance(nn.ctx, ast.Store)}
        used = {nn.id for nn in ast.walk(f.node) if isinstance(nn, ast.Name) and isinstance(nn.ctx, ast.Load) and "#" not in nn.id}
        for g in sorted((used & module_names) - local):
            f.add("Alias", g, [GLOBALS])        # a module-level object: part of the state shared by all calls
        for nn in ast.walk(f.node):
            if isinstance(nn, (ast.Global, ast.Nonlocal)):
                f.add("Store", GLOBALS)          # rebinding a module-level name
    return fns


def reachable(fns, roots):
    seen, stack = set(), [r for r in roots if r in fns]
    while stack:
        x = stack.pop()
        if x in seen:
            continue
        seen.add(x)
        for s in fns[x].stmts:
            if s[0] == "Call" and s[2] in fns:
                stack.append(s[2])
    return sorted(seen)


ALLOWED_STORES = {
    # (function, variable): justification -- reviewed in-place writes that do not touch a task input
    ("core._postprocess_numbagg", "result"): "only ever called by chunk_reduce on the array just returned by a numbagg kernel (freshly allocated); "
                                             "for every other func it returns before the write",
    ("core._expand_dims", "results"): "applied through toolz.compose to the dict freshly returned by chunk_reduce / chunk_argreduce inside the same task",
    ("core.reindex_pydata_sparse_coo", "coords"): "coords of the new sparse.COO produced by array[..., mask]; the sparse package is absent here (unreachable)",
    ("core.factorize_", "group_idx"): "group_idx is component [1] of _factorize_single's result (or their ravel), which is always a new array "
                                      "(flat.copy(), np.digitize, np.searchsorted, pd.factorize; checked inside _factorize_single itself); the IR "
                                      "is field-insensitive and merges it with component [0] (the expected index) and with zip()'s other operand",
    ("core.groupby_reduce", "reindex"): "reindex.set_blockwise_for_numpy() assigns only when .blockwise is None, and _validate_reindex returns a NEW "
                                        "ReindexStrategy on every path where the caller's object has blockwise None (all_eager -> ReindexStrategy(blockwise=True)); "
                                        "exercised by C14's side-effect harness with user-supplied ReindexStrategy objects",
    ("aggregate_flox._np_grouped_op", "out"): "`out` is the OUTPUT buffer of the kernel: allocated here by np.full(...) whenever the caller passes none, and no caller inside flox "
                                              "passes one (generic_aggregate never forwards out=); it is never one of the task's input arrays",
    ("aggregate_flox._lerp", "out"): "output buffer: np.empty_like(...) here unless given; only quantile_ calls it, forwarding the buffer of _np_grouped_op",
    ("aggregate_flox.quantile_", "out"): "output buffer forwarded to _lerp (see _np_grouped_op)",
    ("aggregate_flox.quantile_", "result"): "result IS the output buffer returned by _lerp (masking all-NaN groups in the buffer the kernel owns)",
    ("aggregate_flox._nan_grouped_op", "result"): "result is the array returned by the grouped kernel `func` (= _np_grouped_op, which returns the buffer it allocated); "
                                                  "the IR only knows that an unreviewed callable may return a view of its arguments",
    ("core._reduce_blockwise", "agg"): "idempotent attribute write agg.finalize = None on the per-call deep copy of the blueprint",
}

COPY_POINTS = {
    # (function, variable): justification -- loads that are known to COPY (reviewed; exercised by K5)
    ("core.reindex_numpy", "reindexed"): "array[tuple(indexer)] with an integer index array (idx) is advanced indexing: always a copy",
}


def apply_allowlist(fns):
    for qn, f in fns.items():
        new = []
        for st in f.stmts:
            if st[0] in ("Store", "StoreAttr") and (qn.split("@")[0], st[1].split("#")[0]) in ALLOWED_STORES:
                new.append(("Allowed", st[1], ALLOWED_STORES[(qn.split("@")[0], st[1].split("#")[0])]))
            else:
                new.append(st)
        f.stmts = new


def solve(fns, order):
    """objects: ('P', i) parameter i (and everything it owns) | ('F', var) allocated here.
    pts[v]: objects v may BE; cont[o]: objects referenced from inside o.
    summaries: stores (params written), ret (params the result may BE), retc (params the result may contain)"""
    summ = {q_: {"stores": set(), "ret": set(), "retc": set()} for q_ in order}
    cert = {}
    changed = True
    while changed:
        changed = False
        for qn in order:
            f = fns[qn]
            pts, cont = {}, {}

            def P(v):
                return pts.setdefault(v, set())

            def Cn(o):
                return cont.setdefault(o, set())

            def reach(v):
                r = set(P(v))
                for o in list(P(v)):
                    r |= Cn(o)
                return r
            it = True
            while it:
                it = False

                def grow(st, new):
                    nonlocal it
                    if not new <= st:
                        st.update(new)
                        it = True
                for s in f.stmts:
                    k = s[0]
                    if k == "Param":
                        grow(P(s[1]), {("P", s[2])})
                        grow(Cn(("P", s[2])), {("P", s[2])})
                    elif k == "Fresh":
                        grow(P(s[1]), {("F", s[1])})
                    elif k == "Alias":
                        for y in s[2]:
                            grow(P(s[1]), P(y))
                    elif k == "Load":
                        if (qn.split("@")[0], s[1].split("#")[0]) in COPY_POINTS:
                            grow(P(s[1]), {("F", s[1])})
                        else:
                            for y in s[2]:
                                grow(P(s[1]), reach(y))
                    elif k == "Put":
                        for o in list(P(s[1])):
                            grow(Cn(o), reach(s[2]))
                    elif k == "Call":
                        cs = summ.get(s[2])
                        callee = fns.get(s[2])
                        site = ("F", s[1])
                        grow(P(s[1]), {site})
                        for pos, (kw, a) in enumerate(s[3]):
                            idx = callee.params.index(kw) if (callee and kw in callee.params) else (pos if kw is None else None)
                            if cs is None or idx is None:
                                grow(P(s[1]), reach(a))
                                continue
                            if idx in cs["ret"]:
                                grow(P(s[1]), P(a))
                            if idx in cs["retc"]:
                                grow(Cn(site), reach(a))
            stores = set()
            for s in f.stmts:
                targets = []
                if s[0] in ("Store", "StoreAttr"):
                    targets = [s[1]]
                elif s[0] == "Call" and s[2] in summ:
                    callee = fns[s[2]]
                    for pos, (kw, a) in enumerate(s[3]):
                        idx = callee.params.index(kw) if (kw in callee.params) else (pos if kw is None else None)
                        if idx is not None and idx in summ[s[2]]["stores"]:
                            targets.append(a)
                for t in targets:
                    stores |= {l[1] for l in P(t) if l[0] == "P"}
            ret = {l[1] for l in P("%ret") if l[0] == "P"}
            retc = set()
            for o in P("%ret"):
                retc |= {l[1] for l in Cn(o) if l[0] == "P"}
            new = {"stores": stores, "ret": ret, "retc": retc}
            if new != summ[qn]:
                summ[qn] = new
                changed = True
            cert[qn] = (pts, cont)
    return cert, summ


def loc(l):
    return f"(LParam {l[1]})" if l[0] == "P" else f"(LFresh {q(l[1])})"


def emit(fns, order, cert, summ, out, h, task_order):
    lines = [f"(* GENERATED by tools/translate/gen_effects.py from the AST of flox (task functions).\n   sources sha256: {h} *)",
             "From Coq Require Import String List.\nFrom Flox Require Import EffIR.\nImport ListNotations.\n"]
    defs = []
    for qn in order:
        f = fns[qn]
        st = []
        for s in f.stmts:
            k = s[0]
            if k == "Param":
                st.append(f"SParam {q(s[1])} {s[2]}")
            elif k == "Fresh":
                st.append(f"SFresh {q(s[1])}")
            elif k == "Alias":
                st.append(f"SAlias {q(s[1])} [{'; '.join(q(y) for y in s[2])}]")
            elif k == "Load":
                if (qn.split("@")[0], s[1].split("#")[0]) in COPY_POINTS:
                    st.append(f"SCopy {q(s[1])}")
                else:
                    st.append(f"SLoad {q(s[1])} [{'; '.join(q(y) for y in s[2])}]")
            elif k == "Put":
                st.append(f"SPut {q(s[1])} {q(s[2])}")
            elif k == "Store":
                st.append(f"SStore {q(s[1])}")
            elif k == "StoreAttr":
                st.append(f"SStoreAttr {q(s[1])} {q(s[2])}")
            elif k == "Allowed":
                st.append(f"SAllowed {q(s[1])} {q(s[2][:80])}")
            elif k == "Call":
                callee = fns.get(s[2])
                args = []
                for pos, (kw, a) in enumerate(s[3]):
                    idx = callee.params.index(kw) if (callee and kw in callee.params) else (pos if kw is None else 999)
                    args.append(f"({idx}, {q(a)})")
                st.append(f"SCall {q(s[1])} {q(s[2])} [{'; '.join(args)}]")
            elif k == "Unknown":
                st.append(f"SUnknown {q(s[1])}")
        pts, cont = cert[qn]
        c1 = "; ".join(f"({q(v)}, [{'; '.join(loc(l) for l in sorted(ls))}])" for v, ls in sorted(pts.items()))
        c2 = "; ".join(f"({loc(o)}, [{'; '.join(loc(l) for l in sorted(ls))}])" for o, ls in sorted(cont.items()))
        name = "fn_" + qn.replace(".", "_").replace("@", "_proj")
        defs.append(name)
        sep = ";\n   "
        lines.append(f"Definition {name} : fndef := mkFn {q(qn)} {len(f.params)}\n  [{sep.join(st)}]\n  [{c1}]\n  [{c2}]\n"
                     f"  [{'; '.join(str(i) for i in sorted(summ[qn]['stores']))}] [{'; '.join(str(i) for i in sorted(summ[qn]['ret']))}]"
                     f" [{'; '.join(str(i) for i in sorted(summ[qn]['retc']))}].\n")
    tdefs = ["fn_" + qn.replace(".", "_").replace("@", "_proj") for qn in task_order]
    lines.append("Definition task_functions : list fndef := [" + "; ".join(tdefs) + "].\n")
    roots = [r for r in TASK_ROOTS if r in task_order]
    lines.append("Definition task_roots : list string := [" + "; ".join(q(r) for r in roots) + "].\n")
    lines.append("(* every function reachable from a public entry point or a task callable *)")
    lines.append("Definition api_functions : list fndef := [" + "; ".join(defs) + "].\n")
    lines.append("Definition api_roots : list string := [" + "; ".join(q(r) for r in API_ROOTS if r in order) + "].\n")
    lines.append(f"Definition globals_param : string := {q(GLOBALS)}.\n")
    lines.append("Definition allowed_stores : list (string * string * string) := [" +
                 "; ".join(f"({q(k[0])}, {q(k[1])}, {q(v[:100])})" for k, v in sorted(ALLOWED_STORES.items())) + "].\n")
    lines.append("Definition copy_points : list (string * string * string) := [" +
                 "; ".join(f"({q(k[0])}, {q(k[1])}, {q(v[:100])})" for k, v in sorted(COPY_POINTS.items())) + "].\n")
    text = "\n".join(lines)
    try:
        old = open(out).read()
    except OSError:
        old = None
    if old != text:
        open(out, "w").write(text)


def main(out):
    h = hashlib.sha256()
    for p in FILES.values():
        h.update(open(p, "rb").read())
    fns = collect()
    apply_allowlist(fns)
    # the engine kernels are reached through generic_aggregate's dynamic dispatch (getattr(module, func)): every module-level
    # function of the three kernel modules runs inside tasks and is a root in its own right
    for qn in sorted(fns):
        mod = qn.split(".")[0]
        if mod in ("aggregate_flox", "aggregate_npg", "aggregate_numbagg") and qn.count(".") == 1 and "@" not in qn and qn not in TASK_ROOTS:
            TASK_ROOTS.append(qn)
    task_order = reachable(fns, TASK_ROOTS)
    order = reachable(fns, TASK_ROOTS + API_ROOTS)
    missing = [r for r in TASK_ROOTS + API_ROOTS if r not in fns]
    if missing:
        print("FAILED: root functions not found in the source:", missing)
        sys.exit(2)
    cert, summ = solve(fns, order)
    emit(fns, order, cert, summ, out, h.hexdigest(), task_order)
    if "--report" in sys.argv:
        for qn in order:
            if summ[qn]["stores"]:
                print("STORES", qn, [fns[qn].params[i] for i in sorted(summ[qn]["stores"])])
        print(len(task_order), "task functions,", len(order), "functions in all")
        for qn, nm in sorted(UNKNOWN_METHODS):
            if qn in order:
                print("UNKNOWN-METHOD", qn, nm)
    print(h.hexdigest())


if __name__ == "__main__":
    main(next((a for a in sys.argv[1:] if not a.startswith("--")), "/verif/coq/Gen/Effects.v"))
