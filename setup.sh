#!/bin/sh
# Build the whole Coq development from files on disk (offline).
cd "$(dirname "$0")" && exec ./check --setup
