(* small list lemmas shared by the development (stdlib style) *)
From Coq Require Import List Arith Lia.
Import ListNotations.

Lemma concat_concat {A} (l : list (list (list A))) :
  concat (concat l) = concat (map (@concat A) l).
Proof.
  induction l as [|x xs IH]; simpl; [reflexivity|].
  now rewrite concat_app, IH.
Qed.

Lemma filter_concat {A} (f : A -> bool) (l : list (list A)) :
  filter f (concat l) = concat (map (filter f) l).
Proof.
  induction l as [|x xs IH]; simpl; [reflexivity|].
  now rewrite filter_app, IH.
Qed.

Lemma map_concat {A B} (f : A -> B) (l : list (list A)) :
  map f (concat l) = concat (map (map f) l).
Proof. apply concat_map. Qed.

Lemma Forall_concat {A} (P : A -> Prop) (l : list (list A)) :
  Forall (Forall P) l -> Forall P (concat l).
Proof.
  induction 1 as [|x xs Hx _ IH]; simpl; [constructor|].
  apply Forall_app; split; assumption.
Qed.

(* finitely branching trees of any arity and depth *)
Inductive tree (A : Type) : Type :=
  | Leaf : A -> tree A
  | Node : list (tree A) -> tree A.
Arguments Leaf {A} _.
Arguments Node {A} _.

Fixpoint leaves {A} (t : tree A) : list A :=
  match t with
  | Leaf a => [a]
  | Node ts => concat (map leaves ts)
  end.

Fixpoint teval {A T} (leaf : A -> T) (node : list T -> T) (t : tree A) : T :=
  match t with
  | Leaf a => leaf a
  | Node ts => node (map (teval leaf node) ts)
  end.

(* every internal node has at least one child *)
Fixpoint twf {A} (t : tree A) : Prop :=
  match t with
  | Leaf _ => True
  | Node ts => ts <> [] /\ (fix all (l : list (tree A)) : Prop :=
                              match l with [] => True | x :: r => twf x /\ all r end) ts
  end.

Lemma tree_ind' {A} (P : tree A -> Prop) :
  (forall a, P (Leaf a)) ->
  (forall ts, Forall P ts -> P (Node ts)) ->
  forall t, P t.
Proof.
  intros Hl Hn. fix IH 1. intros [a|ts]; [apply Hl|].
  apply Hn. induction ts as [|t ts IHts]; constructor; [apply IH | exact IHts].
Qed.

Lemma twf_node {A} (ts : list (tree A)) :
  twf (Node ts) <-> ts <> [] /\ Forall twf ts.
Proof.
  simpl. split; intros [H1 H2]; split; try assumption.
  - induction ts as [|t r IH]; constructor; [tauto|]. destruct r; [constructor|].
    apply IH; [discriminate| tauto].
  - clear H1. induction H2 as [|t r Ht _ IH]; [exact I| split; assumption].
Qed.

Lemma leaves_nonempty {A} (t : tree A) : twf t -> leaves t <> [].
Proof.
  induction t as [a|ts IH] using tree_ind'; [discriminate|].
  rewrite twf_node. intros [Hne Hall]. destruct ts as [|t r]; [congruence|].
  simpl. inversion IH as [|? ? Ht _]; subst. inversion Hall; subst.
  intros Heq. apply app_eq_nil in Heq. destruct Heq as [Heq _]. now apply Ht.
Qed.

Lemma forallb_filter_id' {A} (f : A -> bool) (l : list A) :
  forallb f l = true -> filter f l = l.
Proof.
  induction l as [|x xs IH]; simpl; [reflexivity|]. intros H.
  apply andb_prop in H. destruct H as [Hx Hxs]. rewrite Hx. f_equal. auto.
Qed.

Lemma filter_all_false {A} (f : A -> bool) (l : list A) :
  (forall x, In x l -> f x = false) -> filter f l = [].
Proof.
  induction l as [|x r IH]; intros H; [reflexivity|]. simpl.
  rewrite (H x (or_introl eq_refl)). apply IH. intros y Hy. apply H. now right.
Qed.
