From Coq Require Import ZArith String List Bool Lia.
From Flox Require Import ListX Val Agg ValAlg Hom Spec Pipeline PipelineLaw ArgRed ArgLaw C04Proofs.
Import ListNotations.
Open Scope Z_scope.

Lemma refuted : exists (t : tree block) g,
  arg_tree ArgMax true g t <> arg_direct ArgMax true (all_members g (leaves t)).
Proof.
  exists (Node [Leaf (mkBlock 0 [0; 1] [NaN; Fin 5]); Leaf (mkBlock 2 [0; 1] [NInf; Fin 7])]), 0.
  vm_compute. discriminate.
Qed.

Lemma firstlast_tree : forall (t : tree (list xval)), twf t ->
  teval (kern ONanfirst) (kern ONanfirst) t = kern ONanfirst (concat (leaves t)) /\
  teval (kern ONanlast) (kern ONanlast) t = kern ONanlast (concat (leaves t)).
Proof.
  intros t Hwf. split.
  - apply (any_tree ONanfirst ONanfirst FvNA); [reflexivity| exact Hwf].
  - apply (any_tree ONanlast ONanlast FvNA); [reflexivity| exact Hwf].
Qed.

Lemma last_notnan_nonnan (L : list xval) : Forall (fun v => is_nan v = false) L -> L <> [] -> is_nan (last L NaN) = false.
Proof.
  induction 1 as [|v r Hv Hr IH]; [congruence|]. intros _. destruct r as [|w r']; [exact Hv|].
  change (last (v :: w :: r') NaN) with (last (w :: r') NaN). apply IH. discriminate.
Qed.

Lemma dropnan_forall l : Forall (fun v => is_nan v = false) (dropnan l).
Proof. apply Forall_forall. intros v Hv. apply filter_In in Hv. destruct Hv as [_ H]. unfold notnan in H. now destruct (is_nan v). Qed.

Lemma firstlast_spec : forall l, kern ONanfirst l = first_notnan l /\ kern ONanlast l = last_notnan l.
Proof.
  intros l. unfold kern, first_notnan, last_notnan. simpl. rewrite !run_red_unfold. simpl.
  unfold fold_red. cbn [r_m r_pre m_op pre_fn m_unit]. split.
  - induction l as [|x r IH]; [reflexivity|]. simpl. unfold dropnan in *. simpl.
    destruct x; simpl; try reflexivity. exact IH.
  - induction l as [|x r IH]; [reflexivity|]. cbn [fold_right]. rewrite IH.
    pose proof (dropnan_forall r) as Hf. unfold dropnan in *. cbn [filter].
    destruct (filter notnan r) as [|w r'] eqn:E.
    + destruct x; reflexivity.
    + assert (Hn : is_nan (last (w :: r') NaN) = false) by (apply last_notnan_nonnan; [exact Hf| discriminate]).
      destruct x; unfold notnan; cbn [is_nan negb]; unfold xnanlast; rewrite ?Hn; reflexivity.
Qed.
