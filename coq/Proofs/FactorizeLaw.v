(* L-fact: codes produced by the factorisation model select exactly the elements carrying the
   i-th returned label; missing / unrequested labels get -1 and therefore belong to no group. *)
From Coq Require Import ZArith String List Bool Lia Sorted Permutation.
From Flox Require Import Val Agg Spec Pipeline Factorize.
Import ListNotations.
Open Scope Z_scope.

(* ---------- zindex ---------- *)
Lemma zindex_from_ge i x l : zindex_from i x l = -1 \/ i <= zindex_from i x l.
Proof.
  revert i. induction l as [|y r IH]; intros i; simpl; [now left|].
  destruct (x =? y); [right; lia|]. destruct (IH (i + 1)) as [H|H]; [now left|right; lia].
Qed.

Lemma zindex_from_notin i x l : 0 <= i -> (zindex_from i x l = -1 <-> ~ In x l).
Proof.
  revert i. induction l as [|y r IH]; intros i Hi; simpl; [tauto|].
  destruct (Z.eqb_spec x y) as [->|Hne].
  - split; [lia|]. intros H. exfalso. apply H. now left.
  - rewrite IH by lia. split; [intros H [E|E]; [congruence|tauto] | tauto].
Qed.

Lemma zindex_notin x l : zindex x l = -1 <-> ~ In x l.
Proof. apply zindex_from_notin. lia. Qed.

Lemma zindex_from_nth i x l k : 0 <= i -> zindex_from i x l = i + Z.of_nat k ->
  nth_error l k = Some x /\ forall j, (j < k)%nat -> nth_error l j <> Some x.
Proof.
  revert i k. induction l as [|y r IH]; intros i k Hi; simpl.
  - intros H. lia.
  - destruct (Z.eqb_spec x y) as [->|Hne].
    + intros H. assert (k = 0%nat) by lia. subst. split; [reflexivity|]. intros j Hj. lia.
    + intros H. destruct k as [|k].
      * destruct (zindex_from_ge (i + 1) x r) as [E|E]; lia.
      * destruct (IH (i + 1) k) as [H1 H2]; [lia|lia|]. split; [exact H1|].
        intros [|j] Hj; simpl; [congruence| apply H2; lia].
Qed.

Lemma zindex_nth x l k : zindex x l = Z.of_nat k ->
  nth_error l k = Some x /\ forall j, (j < k)%nat -> nth_error l j <> Some x.
Proof. intros H. apply (zindex_from_nth 0 x l k); [lia|]. unfold zindex in H. lia. Qed.

Lemma zindex_range x l : zindex x l = -1 \/ 0 <= zindex x l < Z.of_nat (length l).
Proof.
  unfold zindex. assert (H : forall i, zindex_from i x l = -1 \/ i <= zindex_from i x l < i + Z.of_nat (length l)).
  { induction l as [|y r IH]; intros i; simpl; [now left|].
    destruct (x =? y); [right; lia|]. destruct (IH (i + 1)) as [E|E]; [now left| right; lia]. }
  destruct (H 0) as [E|E]; [now left| right; lia].
Qed.

(* with distinct groups, the i-th group's code is i *)
Lemma zindex_NoDup l : NoDup l -> forall k x, nth_error l k = Some x -> zindex x l = Z.of_nat k.
Proof.
  intros Hnd k x Hk.
  destruct (zindex_range x l) as [E|E].
  - apply zindex_notin in E. exfalso. apply E. eapply nth_error_In; eauto.
  - destruct (zindex_nth x l (Z.to_nat (zindex x l))) as [H1 _]; [lia|].
    rewrite NoDup_nth_error in Hnd.
    assert (Hlt : (Z.to_nat (zindex x l) < length l)%nat) by lia.
    specialize (Hnd (Z.to_nat (zindex x l)) k Hlt). rewrite H1, Hk in Hnd. specialize (Hnd eq_refl). lia.
Qed.

(* ---------- codes ---------- *)
Theorem code_missing gs : code_of gs None = -1.
Proof. reflexivity. Qed.

Theorem code_unrequested gs x : ~ In x gs -> code_of gs (Some x) = -1.
Proof. intros H. simpl. now apply zindex_notin. Qed.

Theorem code_requested gs : NoDup gs -> forall k x, nth_error gs k = Some x ->
  code_of gs (Some x) = Z.of_nat k.
Proof. intros Hnd k x H. simpl. now apply zindex_NoDup. Qed.

Theorem code_sound gs l k : code_of gs l = Z.of_nat k -> exists x, l = Some x /\ nth_error gs k = Some x.
Proof.
  destruct l as [x|]; simpl; [|lia]. intros H. exists x. split; [reflexivity|].
  now destruct (zindex_nth x gs k H).
Qed.

(* the members selected for slot k are exactly the elements labelled with the k-th group *)
Definition labelled (x : Z) (labels : list (option Z)) (vals : list xval) : list xval :=
  map snd (filter (fun p => match fst p with Some y => y =? x | None => false end) (combine labels vals)).

Theorem members_of_slot gs : NoDup gs -> forall k x, nth_error gs k = Some x ->
  forall labels vals,
    vals_of (Z.of_nat k) (map (code_of gs) labels) vals = labelled x labels vals.
Proof.
  intros Hnd k x Hk labels. induction labels as [|l ls IH]; intros vals; [reflexivity|].
  destruct vals as [|v vs]; [reflexivity|].
  unfold vals_of, labelled in *. simpl. specialize (IH vs).
  destruct (Z.eqb_spec (code_of gs l) (Z.of_nat k)) as [E|E].
  - destruct (code_sound gs l k E) as [y [-> Hy]]. rewrite Hk in Hy. inversion Hy; subst y.
    simpl. rewrite Z.eqb_refl. simpl. f_equal. exact IH.
  - destruct l as [y|]; simpl.
    + destruct (Z.eqb_spec y x) as [->|Hne]; [|exact IH].
      exfalso. apply E. now apply code_requested.
    + exact IH.
Qed.

(* ---------- sorting ---------- *)
Lemma zinsert_perm x l : Permutation (x :: l) (zinsert x l).
Proof.
  induction l as [|y r IH]; simpl; [reflexivity|]. destruct (x <=? y); [reflexivity|].
  rewrite perm_swap. now constructor.
Qed.

Lemma zsort_perm l : Permutation l (zsort l).
Proof.
  induction l as [|x r IH]; simpl; [constructor|].
  rewrite <- zinsert_perm. now constructor.
Qed.

Lemma zinsert_sorted x l : Sorted Z.le l -> Sorted Z.le (zinsert x l).
Proof.
  induction 1 as [|y r Hs IH Hhd]; simpl; [repeat constructor|].
  destruct (Z.leb_spec x y).
  - constructor; [constructor; assumption| constructor; assumption].
  - constructor; [exact IH|]. destruct r as [|z r']; simpl in *.
    + constructor. lia.
    + destruct (x <=? z); constructor; try lia. now inversion Hhd.
Qed.

Lemma zsort_sorted l : Sorted Z.le (zsort l).
Proof. induction l; simpl; [constructor| now apply zinsert_sorted]. Qed.

Lemma zsort_NoDup l : NoDup l -> NoDup (zsort l).
Proof. intros H. eapply Permutation_NoDup; [apply zsort_perm| exact H]. Qed.

(* sorted + no duplicates = strictly ascending *)
Lemma sorted_nodup_strict l : Sorted Z.le l -> NoDup l -> StronglySorted Z.lt l.
Proof.
  intros Hs Hn. apply Sorted_StronglySorted in Hs; [|intros a b c; lia].
  induction Hs as [|x r Hs IH Hall]; [constructor|]. inversion Hn; subst.
  constructor; [now apply IH|]. rewrite Forall_forall in *. intros y Hy.
  specialize (Hall y Hy). assert (x <> y) by (intros ->; contradiction). lia.
Qed.

(* ---------- first-appearance order ---------- *)
Lemma zmem_In x l : zmem x l = true <-> In x l.
Proof.
  induction l as [|y r IH]; simpl; [split; [discriminate|tauto]|].
  rewrite orb_true_iff, IH, Z.eqb_eq. split; intros [H|H]; auto.
Qed.

Lemma zuniq_acc_spec seen l :
  NoDup (zuniq_acc seen l) /\ (forall x, In x (zuniq_acc seen l) <-> In x l /\ ~ In x seen).
Proof.
  revert seen. induction l as [|y r IH]; intros seen; simpl.
  - split; [constructor| intros x; tauto].
  - destruct (zmem y seen) eqn:Hm.
    + destruct (IH seen) as [H1 H2]. split; [exact H1|]. intros x. rewrite H2.
      apply zmem_In in Hm. split; [tauto|]. intros [[->|H] Hn]; [contradiction| tauto].
    + destruct (IH (y :: seen)) as [H1 H2]. split.
      * constructor; [|exact H1]. rewrite H2. simpl. tauto.
      * intros x. simpl. rewrite H2. simpl.
        assert (Hny : ~ In y seen) by (intros Hc; apply zmem_In in Hc; congruence).
        split.
        -- intros [->|[Hx Hn]]; [tauto|]. tauto.
        -- intros [[->|Hx] Hn]; [now left|]. destruct (Z.eq_dec y x) as [->|Hne]; [now left|]. right. tauto.
Qed.

Lemma zuniq_NoDup l : NoDup (zuniq l).
Proof. apply (zuniq_acc_spec [] l). Qed.

Lemma zuniq_In l x : In x (zuniq l) <-> In x l.
Proof. unfold zuniq. rewrite (proj2 (zuniq_acc_spec [] l)). simpl. tauto. Qed.

(* the groups returned are always free of duplicates when the request is *)
Theorem groups_NoDup sort expected labels :
  (forall ex, expected = Some ex -> NoDup ex) -> NoDup (groups_of sort expected labels).
Proof.
  intros H. unfold groups_of. destruct expected as [ex|].
  - destruct sort; [apply zsort_NoDup|]; now apply H.
  - destruct sort; [apply zsort_NoDup|]; apply zuniq_NoDup.
Qed.

Theorem groups_sorted expected labels :
  (forall ex, expected = Some ex -> NoDup ex) ->
  StronglySorted Z.lt (groups_of true expected labels).
Proof.
  intros H. apply sorted_nodup_strict; [|now apply groups_NoDup].
  unfold groups_of. destruct expected; apply zsort_sorted.
Qed.

Theorem groups_unsorted_given ex labels : groups_of false (Some ex) labels = ex.
Proof. reflexivity. Qed.
