From Coq Require Import ZArith String List Bool Lia.
From Flox Require Import ListX Val Agg ValAlg Hom Spec Pipeline Engines EnginesLaw C01Proofs.
Import ListNotations.
Open Scope Z_scope.

Lemma fold_max_pinf l : In PInf l -> has_nan l = false ->
  fold_right (fun x acc => xmax x acc) NInf l = PInf.
Proof.
  induction l as [|x r IH]; intros Hin Hn; [destruct Hin|]. simpl in Hn. apply orb_false_iff in Hn. destruct Hn as [Hx Hr].
  cbn [fold_right]. destruct Hin as [->|Hin].
  - assert (Hnn : is_nan (fold_right (fun x acc => xmax x acc) NInf r) = false).
    { clear - Hr. induction r as [|y q IHq]; [reflexivity|]. simpl in Hr. apply orb_false_iff in Hr. destruct Hr as [Hy Hq].
      cbn [fold_right]. apply xmax_notnan; auto. }
    destruct (fold_right (fun x acc => xmax x acc) NInf r); try discriminate; reflexivity.
  - rewrite IH by assumption. destruct x; try discriminate; reflexivity.
Qed.

Lemma fold_min_ninf l : In NInf l -> has_nan l = false ->
  fold_right (fun x acc => xmin x acc) PInf l = NInf.
Proof.
  induction l as [|x r IH]; intros Hin Hn; [destruct Hin|]. simpl in Hn. apply orb_false_iff in Hn. destruct Hn as [Hx Hr].
  cbn [fold_right]. destruct Hin as [->|Hin].
  - assert (Hnn : is_nan (fold_right (fun x acc => xmin x acc) PInf r) = false).
    { clear - Hr. induction r as [|y q IHq]; [reflexivity|]. simpl in Hr. apply orb_false_iff in Hr. destruct Hr as [Hy Hq].
      cbn [fold_right]. apply xmin_notnan; auto. }
    destruct (fold_right (fun x acc => xmin x acc) PInf r); try discriminate; reflexivity.
  - rewrite IH by assumption. destruct x; try discriminate; reflexivity.
Qed.

Lemma dropnan_nonan l : has_nan l = false -> dropnan l = l.
Proof.
  intros H. unfold dropnan. apply forallb_filter_id'. apply forallb_forall. intros x Hx.
  unfold notnan. destruct (is_nan x) eqn:E; [|reflexivity]. exfalso.
  assert (has_nan l = true) by (apply existsb_exists; exists x; auto). congruence.
Qed.

Lemma max_with_pinf l : In PInf l -> has_nan l = false -> kern OMax l = PInf /\ kern ONanmax l = PInf.
Proof.
  intros Hin Hn. unfold kern. cbn [red_of]. rewrite !run_red_unfold. cbn [r_skip]. rewrite (dropnan_nonan l Hn).
  unfold fold_red. cbn [r_m r_pre m_op pre_fn m_unit]. split; now apply fold_max_pinf.
Qed.

Lemma min_with_ninf l : In NInf l -> has_nan l = false -> kern OMin l = NInf /\ kern ONanmin l = NInf.
Proof.
  intros Hin Hn. unfold kern. cbn [red_of]. rewrite !run_red_unfold. cbn [r_skip]. rewrite (dropnan_nonan l Hn).
  unfold fold_red. cbn [r_m r_pre m_op pre_fn m_unit]. split; now apply fold_min_ninf.
Qed.

Lemma wrap_signed_id w total : 0 < w -> - 2 ^ (w - 1) <= total < 2 ^ (w - 1) -> wrap_signed w total = total.
Proof.
  intros Hw H. unfold wrap_signed.
  assert (E : 2 ^ w = 2 * 2 ^ (w - 1)) by (replace w with (Z.succ (w - 1)) at 1 by lia; rewrite Z.pow_succ_r by lia; lia).
  assert (P : 0 < 2 ^ (w - 1)) by (apply Z.pow_pos_nonneg; lia).
  destruct (Z_lt_le_dec total 0) as [Hneg|Hpos].
  - assert (Hm : total mod 2 ^ w = total + 2 ^ w).
    { symmetry. apply Z.mod_unique with (q := -1); lia. }
    rewrite Hm. destruct (Z.ltb_spec (total + 2 ^ w) (2 ^ (w - 1))); lia.
  - rewrite Z.mod_small by lia. destruct (Z.ltb_spec total (2 ^ (w - 1))); lia.
Qed.

Lemma wrap_unsigned_id w total : 0 <= w -> 0 <= total < 2 ^ w -> wrap_unsigned w total = total.
Proof. intros _ H. unfold wrap_unsigned. now apply Z.mod_small. Qed.
