(* C07 / C08 lemmas: digitize-based bin codes = pandas.cut; mixed-radix ravel of several groupers is
   injective on in-range codes and keeps -1; offset codes separate rows. *)
From Coq Require Import ZArith String List Bool Lia Sorted.
From Flox Require Import ListX Val Pipeline Binning.
Import ListNotations.
Open Scope Z_scope.

Definition strict_incr (l : list Z) : Prop := StronglySorted Z.lt l.

Lemma filter_none_lt right edges v : Forall (fun e => v < e) edges ->
  filter (fun e => edge_before right e (Fin v)) edges = [].
Proof.
  intros H. apply filter_all_false. intros e He. rewrite Forall_forall in H. specialize (H e He).
  simpl. destruct right; [apply Z.ltb_ge| apply Z.leb_gt]; lia.
Qed.

Lemma last_cons_cons {A} (a b : A) r d : last (a :: b :: r) d = last (b :: r) d.
Proof. reflexivity. Qed.

Lemma strict_last_ge e r : strict_incr (e :: r) -> e <= last (e :: r) 0.
Proof.
  revert e. induction r as [|x r IH]; intros e H; [simpl; lia|].
  rewrite last_cons_cons. inversion H as [|? ? Hs Hall]; subst. inversion Hall; subst.
  specialize (IH x Hs). lia.
Qed.

(* finite values, closed on the left:  [e_j, e_{j+1}) *)
Lemma cut_left_spec : forall edges j v, strict_incr edges ->
  cut_from false j edges (Fin v)
  = match edges with
    | [] => -1
    | e0 :: _ => if (e0 <=? v) && (v <? last edges 0)
                 then j + zlen' (filter (fun e => e <=? v) edges) - 1 else -1
    end.
Proof.
  induction edges as [|e0 r IH]; intros j v Hs; [reflexivity|].
  destruct r as [|e1 r'].
  - simpl. destruct (e0 <=? v) eqn:E; simpl; [|reflexivity]. destruct (Z.ltb_spec v e0); [lia| reflexivity].
  - inversion Hs as [|? ? Hs' Hall]; subst. inversion Hall as [|? ? H01 Hall']; subst.
    change (cut_from false j (e0 :: e1 :: r') (Fin v))
      with (if in_interval false e0 e1 (Fin v) then j else cut_from false (j + 1) (e1 :: r') (Fin v)).
    rewrite (IH (j + 1) v Hs'). rewrite !last_cons_cons.
    pose proof (strict_last_ge e1 r' Hs') as Hlast. unfold zlen'. cbn [in_interval filter].
    destruct (Z.leb_spec e0 v) as [H0|H0]; cbn [andb].
    + destruct (Z.ltb_spec v e1) as [H1|H1]; cbn [andb].
      * (* e0 <= v < e1 *)
        destruct (Z.leb_spec e1 v); [lia|].
        assert (Hf : filter (fun e => e <=? v) r' = []).
        { apply filter_all_false. intros e He. apply Z.leb_gt. rewrite Forall_forall in Hall'.
          inversion Hs' as [|? ? _ Hall1]; subst. rewrite Forall_forall in Hall1. specialize (Hall1 e He). lia. }
        rewrite Hf. destruct (Z.ltb_spec v (last (e1 :: r') 0)); [simpl; lia| lia].
      * destruct (Z.leb_spec e1 v); [|lia]. cbn [andb length].
        destruct (Z.ltb_spec v (last (e1 :: r') 0)); [|reflexivity].
        rewrite !Nat2Z.inj_succ. lia.
    + (* v < e0 *)
      destruct (Z.leb_spec e1 v); [lia|]. reflexivity.
Qed.

(* closed on the right:  (e_j, e_{j+1}] *)
Lemma cut_right_spec : forall edges j v, strict_incr edges ->
  cut_from true j edges (Fin v)
  = match edges with
    | [] => -1
    | e0 :: _ => if (e0 <? v) && (v <=? last edges 0)
                 then j + zlen' (filter (fun e => e <? v) edges) - 1 else -1
    end.
Proof.
  induction edges as [|e0 r IH]; intros j v Hs; [reflexivity|].
  destruct r as [|e1 r'].
  - simpl. destruct (e0 <? v) eqn:E; simpl; [|reflexivity]. destruct (Z.leb_spec v e0); [apply Z.ltb_lt in E; lia| reflexivity].
  - inversion Hs as [|? ? Hs' Hall]; subst. inversion Hall as [|? ? H01 Hall']; subst.
    change (cut_from true j (e0 :: e1 :: r') (Fin v))
      with (if in_interval true e0 e1 (Fin v) then j else cut_from true (j + 1) (e1 :: r') (Fin v)).
    rewrite (IH (j + 1) v Hs'). rewrite !last_cons_cons.
    pose proof (strict_last_ge e1 r' Hs') as Hlast. unfold zlen'. cbn [in_interval filter].
    destruct (Z.ltb_spec e0 v) as [H0|H0]; cbn [andb].
    + destruct (Z.leb_spec v e1) as [H1|H1]; cbn [andb].
      * destruct (Z.ltb_spec e1 v); [lia|].
        assert (Hf : filter (fun e => e <? v) r' = []).
        { apply filter_all_false. intros e He. apply Z.ltb_ge.
          inversion Hs' as [|? ? _ Hall1]; subst. rewrite Forall_forall in Hall1. specialize (Hall1 e He). lia. }
        rewrite Hf. destruct (Z.leb_spec v (last (e1 :: r') 0)); [simpl; lia| lia].
      * destruct (Z.ltb_spec e1 v); [|lia]. cbn [andb length].
        destruct (Z.leb_spec v (last (e1 :: r') 0)); [|reflexivity].
        rewrite !Nat2Z.inj_succ. lia.
    + destruct (Z.ltb_spec e1 v); [lia|]. reflexivity.
Qed.

(* the digitize-based code IS pandas.cut, for every strictly increasing edge list and every value
   (on an edge, outside, NaN, +-inf), both closed sides *)
Theorem bin_code_is_cut right edges x : strict_incr edges -> bin_code right edges x = cut_spec right edges x.
Proof.
  intros Hs. unfold cut_spec.
  destruct edges as [|e0 r]; [reflexivity|]. destruct r as [|e1 r']; [reflexivity|].
  destruct x as [v| | |].
  - destruct right.
    + rewrite (cut_right_spec _ 0 v Hs). unfold bin_code, within, digitize. cbn [edge_before].
      inversion Hs as [|? ? Hs' Hall]; subst.
      destruct (Z.leb_spec v (last (e0 :: e1 :: r') 0)); destruct (Z.ltb_spec e0 v); cbn [andb]; try reflexivity; try lia.
      (* v <= e0 : no edge is strictly below v *)
      rewrite (filter_all_false (fun e => e <? v)); [reflexivity|]. intros e [<-|He]; apply Z.ltb_ge; [lia|].
      rewrite Forall_forall in Hall. specialize (Hall e He). lia.
    + rewrite (cut_left_spec _ 0 v Hs). unfold bin_code, within, digitize. cbn [edge_before].
      inversion Hs as [|? ? Hs' Hall]; subst.
      destruct (Z.ltb_spec v (last (e0 :: e1 :: r') 0)); destruct (Z.leb_spec e0 v); cbn [andb]; try reflexivity; try lia.
      rewrite (filter_all_false (fun e => e <=? v)); [reflexivity|]. intros e [<-|He]; apply Z.leb_gt; [lia|].
      rewrite Forall_forall in Hall. specialize (Hall e He). lia.
  - (* NaN *) unfold bin_code, within. 
    assert (H : forall l j, cut_from right j l NaN = -1).
    { induction l as [|a [|b l'] IH]; intros j; try reflexivity. simpl. apply IH. }
    now rewrite H.
  - (* +inf *) unfold bin_code, within.
    assert (H : forall l j, cut_from right j l PInf = -1).
    { induction l as [|a [|b l'] IH]; intros j; try reflexivity. simpl. apply IH. }
    now rewrite H.
  - (* -inf : within, digitize = 0 *)
    unfold bin_code, within, digitize. cbn [edge_before].
    rewrite (filter_all_false (fun _ : Z => false)) by reflexivity.
    assert (H : forall l j, cut_from right j l NInf = -1).
    { induction l as [|a [|b l'] IH]; intros j; try reflexivity. simpl. apply IH. }
    now rewrite H.
Qed.

(* ---------- several groupers ---------- *)
Definition in_range (cn : Z * Z) : Prop := 0 <= fst cn < snd cn.

Lemma zprod_pos l : Forall (fun n => 0 < n) l -> 0 < zprod l.
Proof. induction 1; simpl; [lia| nia]. Qed.

Lemma ravel_range cs : Forall in_range cs -> 0 <= ravel cs < zprod (map snd cs).
Proof.
  induction 1 as [|[c n] r [Hc1 Hc2] Hr IH]; simpl in *; [lia|].
  rewrite Z.mod_small by lia. nia.
Qed.

(* mixed radix: equal raveled codes <-> equal code tuples (in-range codes, same sizes) *)
Theorem ravel_injective : forall cs cs', Forall in_range cs -> Forall in_range cs' ->
  map snd cs = map snd cs' -> ravel cs = ravel cs' -> map fst cs = map fst cs'.
Proof.
  induction cs as [|[c n] r IH]; intros [|[c' n'] r'] H H' Hs He; simpl in *; try discriminate; [reflexivity|].
  inversion H as [|? ? [Hc1 Hc2] Hr]; inversion H' as [|? ? [Hc1' Hc2'] Hr']; subst. simpl in *.
  inversion Hs as [[Hn Hsz]]. subst n'. rewrite <- Hsz in He.
  rewrite !Z.mod_small in He by lia.
  pose proof (ravel_range r Hr) as R1. pose proof (ravel_range r' Hr') as R2. rewrite <- Hsz in R2.
  set (P := zprod (map snd r)) in *.
  assert (c = c') by nia. subst c'. f_equal. apply IH; auto. lia.
Qed.

Theorem ravel_keeps_missing cs : existsb (fun cn => fst cn =? -1) cs = true -> ravel_codes cs = -1.
Proof. intros H. unfold ravel_codes. now rewrite H. Qed.

Theorem ravel_codes_in_range cs : Forall in_range cs -> ravel_codes cs = ravel cs /\ 0 <= ravel cs.
Proof.
  intros H. split; [|apply ravel_range; exact H]. unfold ravel_codes.
  replace (existsb (fun cn => fst cn =? -1) cs) with false; [reflexivity|].
  symmetry. apply not_true_is_false. intros Hex. apply existsb_exists in Hex. destruct Hex as [cn [Hin Heq]].
  rewrite Forall_forall in H. specialize (H cn Hin). unfold in_range in H. apply Z.eqb_eq in Heq. lia.
Qed.

(* two groupers, the common case: entry (i, j) of the result is slot i*n2 + j *)
Corollary ravel2 c1 n1 c2 n2 : 0 <= c1 < n1 -> 0 <= c2 < n2 -> ravel [(c1, n1); (c2, n2)] = c1 * n2 + c2.
Proof. intros H1 H2. simpl. rewrite !Z.mod_small by lia. lia. Qed.

(* ---------- offsets: rows cannot leak into each other ---------- *)
Theorem offset_code_spec ng row row' c g :
  0 < ng -> 0 <= row -> 0 <= row' -> -1 <= c < ng -> 0 <= g < ng ->
  (offset_code ng row c = g + row' * ng <-> row = row' /\ c = g).
Proof.
  intros Hng Hr Hr' Hc Hg. unfold offset_code. destruct (Z.eqb_spec c (-1)) as [->|Hne].
  - split; [nia| lia].
  - split; [intros H; assert (row = row') by nia; subst; lia| intros [-> ->]; reflexivity].
Qed.

Theorem offset_code_missing ng row : offset_code ng row (-1) = -1.
Proof. reflexivity. Qed.
