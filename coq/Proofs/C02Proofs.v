From Coq Require Import ZArith String List Bool.
From Flox Require Import ListX Val Agg Hom Spec Pipeline PipelineLaw Registry C04Proofs.
Import ListNotations.
Open Scope Z_scope.

Lemma in_registry_lawful a : In a aggregations -> lawful_dec a = true.
Proof. intros H. pose proof registry_lawful as HL. rewrite forallb_forall in HL. now apply HL. Qed.

Lemma simple_any_tree :
  forall a, In a aggregations -> a_rtype a = Reduce ->
  forall chs cbs, a_chunk a = Some chs -> a_combine a = Some cbs ->
  forall kws mc fill (t : tree block) g,
    chunked_simple a kws mc fill t g
    = finalize_group a kws mc fill (tuple_of (eff_chunk a mc) (tree_vals g t)).
Proof.
  intros a Hin Hr chs cbs Hc Hb kws mc fill t g.
  now apply (chunked_simple_any_tree a kws mc fill chs cbs Hr Hc Hb (in_registry_lawful a Hin)).
Qed.

Lemma grouped_any_tree :
  forall a, In a aggregations -> a_rtype a = Reduce ->
  forall chs cbs, a_chunk a = Some chs -> a_combine a = Some cbs ->
  forall kws mc fill (t : tree block) g,
    chunked_grouped a kws mc fill t g
    = match tree_vals g t with
      | [] => option_map Plain fill
      | X => finalize_group a kws mc fill (tuple_of (eff_chunk a mc) X)
      end.
Proof.
  intros a Hin Hr chs cbs Hc Hb kws mc fill t g.
  now apply (chunked_grouped_any_tree a kws mc fill chs cbs Hr Hc Hb (in_registry_lawful a Hin)).
Qed.

Lemma chunking_independent :
  forall a, In a aggregations -> a_rtype a = Reduce ->
  forall chs cbs, a_chunk a = Some chs -> a_combine a = Some cbs ->
  forall kws mc fill codes vals sizes sizes' (t t' : tree block) g,
    length codes = length vals ->
    sum_nat sizes = length codes -> sum_nat sizes' = length codes ->
    leaves t = cut_blocks sizes 0 codes vals -> leaves t' = cut_blocks sizes' 0 codes vals ->
    chunked_simple a kws mc fill t g = chunked_simple a kws mc fill t' g.
Proof.
  intros a Hin Hr chs cbs Hc Hb kws mc fill codes vals sizes sizes' t t' g.
  now apply (chunked_simple_chunking_independent a kws mc fill chs cbs Hr Hc Hb (in_registry_lawful a Hin)).
Qed.

Lemma simple_eq_grouped :
  forall a, In a aggregations -> a_rtype a = Reduce ->
  forall chs cbs, a_chunk a = Some chs -> a_combine a = Some cbs ->
  forall kws mc fill (t : tree block) g, tree_vals g t <> [] ->
    chunked_grouped a kws mc fill t g = chunked_simple a kws mc fill t g.
Proof.
  intros a Hin Hr chs cbs Hc Hb kws mc fill t g Hne.
  rewrite (grouped_any_tree a Hin Hr chs cbs Hc Hb), (simple_any_tree a Hin Hr chs cbs Hc Hb).
  destruct (tree_vals g t); [congruence|reflexivity].
Qed.

(* non-vacuity: a 3-block layout with a group missing from the middle block *)
Example c02_example :
  let bs := cut_blocks [2;1;2]%nat 0 [0;1;1;0;1] [Fin 5; Fin (-1); NaN; PInf; Fin 2] in
  (map (blk_vals 0) bs, map (blk_vals 1) bs)
  = ([[Fin 5]; []; [PInf]], [[Fin (-1)]; [NaN]; [Fin 2]]).
Proof. reflexivity. Qed.
