(* Soundness of the certificate checker of EffIR.v: every alias fact derivable from the statements of
   a function (least solution of the constraints, any order / any number of executions) is contained
   in a certificate accepted by [stmt_closed]; hence a checked function with an empty [f_stores] never
   writes into an object that may be one of its parameters. *)
From Coq Require Import String List Bool Arith.
From Flox Require Import EffIR.
Import ListNotations.

Inductive fact : Type := FP (x : string) (o : loc) | FC (o o' : loc).

Section Sound.
  Variable S : summary.
  Variable f : fndef.
  Notation body := (f_body f).

  Inductive Der : fact -> Prop :=
  | D_param x i : In (SParam x i) body -> Der (FP x (LParam i))
  | D_param_c x i : In (SParam x i) body -> Der (FC (LParam i) (LParam i))
  | D_fresh x : In (SFresh x) body -> Der (FP x (LFresh x))
  | D_copy x : In (SCopy x) body -> Der (FP x (LFresh x))
  | D_alias x ys y o : In (SAlias x ys) body -> In y ys -> Der (FP y o) -> Der (FP x o)
  | D_load1 x ys y o : In (SLoad x ys) body -> In y ys -> Der (FP y o) -> Der (FP x o)
  | D_load2 x ys y o o' : In (SLoad x ys) body -> In y ys -> Der (FP y o) -> Der (FC o o') -> Der (FP x o')
  | D_put1 c v o o' : In (SPut c v) body -> Der (FP c o) -> Der (FP v o') -> Der (FC o o')
  | D_put2 c v o o' o'' : In (SPut c v) body -> Der (FP c o) -> Der (FP v o') -> Der (FC o' o'') -> Der (FC o o'')
  | D_call_site x g args : In (SCall x g args) body -> Der (FP x (LFresh x))
  | D_call_ret x g args i a o st ret retc :
      In (SCall x g args) body -> In (i, a) args -> S g = Some (st, ret, retc) -> mem_nat i ret = true ->
      Der (FP a o) -> Der (FP x o)
  | D_call_retc1 x g args i a o st ret retc :
      In (SCall x g args) body -> In (i, a) args -> S g = Some (st, ret, retc) -> mem_nat i retc = true ->
      Der (FP a o) -> Der (FC (LFresh x) o)
  | D_call_retc2 x g args i a o o' st ret retc :
      In (SCall x g args) body -> In (i, a) args -> S g = Some (st, ret, retc) -> mem_nat i retc = true ->
      Der (FP a o) -> Der (FC o o') -> Der (FC (LFresh x) o')
  | D_call_unk1 x g args i a o :
      In (SCall x g args) body -> In (i, a) args -> S g = None -> Der (FP a o) -> Der (FP x o)
  | D_call_unk2 x g args i a o o' :
      In (SCall x g args) body -> In (i, a) args -> S g = None -> Der (FP a o) -> Der (FC o o') -> Der (FP x o').

  Definition holds (fa : fact) : bool :=
    match fa with
    | FP x o => mem_loc o (pts_of f x)
    | FC o o' => mem_loc o' (cont_of f o)
    end.

  Lemma mem_loc_In o l : mem_loc o l = true <-> In o l.
  Proof.
    unfold mem_loc. rewrite existsb_exists. split.
    - intros [x [Hx He]]. apply loc_eqb_eq in He. now subst.
    - intros H. exists o. split; [exact H| now apply loc_eqb_eq].
  Qed.

  Lemma sub_loc_mem a b o : sub_loc a b = true -> mem_loc o a = true -> mem_loc o b = true.
  Proof.
    unfold sub_loc. rewrite forallb_forall. intros H Ho. apply H. now apply mem_loc_In.
  Qed.

  Lemma reach_pts x o : mem_loc o (pts_of f x) = true -> mem_loc o (reach_of f x) = true.
  Proof. intros H. apply mem_loc_In. unfold reach_of. apply in_or_app. left. now apply mem_loc_In. Qed.

  Lemma reach_cont x o o' : mem_loc o (pts_of f x) = true -> mem_loc o' (cont_of f o) = true ->
    mem_loc o' (reach_of f x) = true.
  Proof.
    intros H H'. apply mem_loc_In. unfold reach_of. apply in_or_app. right. apply in_flat_map.
    exists o. split; now apply mem_loc_In.
  Qed.

  Hypothesis closed : forallb (stmt_closed S f) body = true.

  Lemma stmt_ok s : In s body -> stmt_closed S f s = true.
  Proof. intros H. rewrite forallb_forall in closed. now apply closed. Qed.

  Theorem certificate_sound : forall fa, Der fa -> holds fa = true.
  Proof.
    induction 1 as
      [x i Hin | x i Hin | x Hin | x Hin | x ys y o Hin Hy _ IH | x ys y o Hin Hy _ IH | x ys y o o' Hin Hy _ IH1 _ IH2
      | c v o o' Hin _ IH1 _ IH2 | c v o o' o'' Hin _ IH1 _ IH2 _ IH3 | x g args Hin
      | x g args i a o st ret retc Hin Ha HS Hm _ IH | x g args i a o st ret retc Hin Ha HS Hm _ IH
      | x g args i a o o' st ret retc Hin Ha HS Hm _ IH1 _ IH2
      | x g args i a o Hin Ha HS _ IH | x g args i a o o' Hin Ha HS _ IH1 _ IH2];
      pose proof (stmt_ok _ Hin) as Hc; cbn [stmt_closed holds] in *.
    - apply andb_prop in Hc. tauto.
    - apply andb_prop in Hc. tauto.
    - exact Hc.
    - exact Hc.
    - rewrite forallb_forall in Hc. eapply sub_loc_mem; [apply Hc; exact Hy| exact IH].
    - rewrite forallb_forall in Hc. eapply sub_loc_mem; [apply Hc; exact Hy|]. now apply reach_pts.
    - rewrite forallb_forall in Hc. eapply sub_loc_mem; [apply Hc; exact Hy|]. eapply reach_cont; eassumption.
    - rewrite forallb_forall in Hc. eapply sub_loc_mem; [apply Hc; now apply mem_loc_In|]. now apply reach_pts.
    - rewrite forallb_forall in Hc. eapply sub_loc_mem; [apply Hc; now apply mem_loc_In|]. eapply reach_cont; eassumption.
    - apply andb_prop in Hc. tauto.
    - apply andb_prop in Hc. destruct Hc as [_ Hc]. rewrite forallb_forall in Hc. specialize (Hc _ Ha). cbn [fst snd] in Hc.
      rewrite HS in Hc. apply andb_prop in Hc. destruct Hc as [Hc _]. rewrite Hm in Hc. cbn [negb orb] in Hc.
      eapply sub_loc_mem; eassumption.
    - apply andb_prop in Hc. destruct Hc as [_ Hc]. rewrite forallb_forall in Hc. specialize (Hc _ Ha). cbn [fst snd] in Hc.
      rewrite HS in Hc. apply andb_prop in Hc. destruct Hc as [_ Hc]. rewrite Hm in Hc. cbn [negb orb] in Hc.
      eapply sub_loc_mem; [exact Hc|]. now apply reach_pts.
    - apply andb_prop in Hc. destruct Hc as [_ Hc]. rewrite forallb_forall in Hc. specialize (Hc _ Ha). cbn [fst snd] in Hc.
      rewrite HS in Hc. apply andb_prop in Hc. destruct Hc as [_ Hc]. rewrite Hm in Hc. cbn [negb orb] in Hc.
      eapply sub_loc_mem; [exact Hc|]. eapply reach_cont; eassumption.
    - apply andb_prop in Hc. destruct Hc as [_ Hc]. rewrite forallb_forall in Hc. specialize (Hc _ Ha). cbn [fst snd] in Hc.
      rewrite HS in Hc. eapply sub_loc_mem; [exact Hc|]. now apply reach_pts.
    - apply andb_prop in Hc. destruct Hc as [_ Hc]. rewrite forallb_forall in Hc. specialize (Hc _ Ha). cbn [fst snd] in Hc.
      rewrite HS in Hc. eapply sub_loc_mem; [exact Hc|]. eapply reach_cont; eassumption.
  Qed.
End Sound.

Lemma params_in_nil l i : params_in l = [] -> mem_loc (LParam i) l = false.
Proof.
  induction l as [|o r IH]; intros H; [reflexivity|]. simpl in *. destruct o as [j|s]; simpl in H; [discriminate|].
  simpl. now apply IH.
Qed.

Lemma sub_nat_nil l : sub_nat l [] = true -> l = [].
Proof. destruct l; [reflexivity| simpl; discriminate]. Qed.

(* a checked function that declares no stored parameter never writes (directly) into an object
   that may be one of its parameters, in ANY execution order of its statements *)
Theorem checked_fn_never_stores_into_params S f :
  check_fn S f = true -> f_stores f = [] ->
  forall x, (In (SStore x) (f_body f) \/ exists a, In (SStoreAttr x a) (f_body f)) ->
  forall i, ~ Der S f (FP x (LParam i)).
Proof.
  intros Hc Hs x Hx i Hd. unfold check_fn in Hc.
  apply andb_prop in Hc. destruct Hc as [Hc _]. apply andb_prop in Hc. destruct Hc as [Hc _].
  apply andb_prop in Hc. destruct Hc as [Hclosed Hst]. rewrite Hs in Hst. apply sub_nat_nil in Hst.
  pose proof (certificate_sound S f Hclosed _ Hd) as Hh. simpl in Hh.
  assert (Hnil : params_in (pts_of f x) = []).
  { destruct Hx as [Hx|[a Hx]].
    - assert (Hin : incl (stmt_stores S f (SStore x)) (flat_map (stmt_stores S f) (f_body f))).
      { intros n Hn. apply in_flat_map. exists (SStore x). split; assumption. }
      rewrite Hst in Hin. simpl in Hin. destruct (params_in (pts_of f x)) as [|n r]; [reflexivity|]. exfalso. apply (Hin n). now left.
    - assert (Hin : incl (stmt_stores S f (SStoreAttr x a)) (flat_map (stmt_stores S f) (f_body f))).
      { intros n Hn. apply in_flat_map. exists (SStoreAttr x a). split; assumption. }
      rewrite Hst in Hin. simpl in Hin. destruct (params_in (pts_of f x)) as [|n r]; [reflexivity|]. exfalso. apply (Hin n). now left. }
  rewrite (params_in_nil _ i Hnil) in Hh. discriminate.
Qed.
