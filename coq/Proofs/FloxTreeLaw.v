(* the tree built by _tree_reduce covers every block of the cohort, once and in order, exactly when the depth suffices
   (n <= k^depth); one level too few and whole partitions are overwritten. *)
From Coq Require Import List Arith Bool Lia.
From Flox Require Import ListX FloxTree.
Import ListNotations.

Lemma parts_concat {A} k : forall fuel (l : list A), concat (parts fuel k l) = l.
Proof.
  induction fuel as [|f IH]; intros l; destruct l as [|x r]; simpl; try reflexivity; [now rewrite app_nil_r|].
  change (firstn k (x :: r) ++ concat (parts f k (skipn k (x :: r))) = x :: r). rewrite IH. apply firstn_skipn.
Qed.

Lemma parts_len_le {A} k : 1 <= k -> forall fuel (l : list A) q,
  length l <= fuel -> length l <= q * k -> length (parts fuel k l) <= q.
Proof.
  intros Hk. induction fuel as [|f IH]; intros l q Hf Hq; destruct l as [|x r]; simpl in *; try lia.
  destruct q as [|q]; [simpl in Hq; lia|].
  apply le_n_S. apply IH.
  - destruct k as [|k]; [lia|]. simpl. rewrite skipn_length. lia.
  - destruct k as [|k]; [lia|]. simpl. rewrite skipn_length. simpl in Hq. nia.
Qed.

Lemma parts_single {A} k fuel (l : list A) : l <> [] -> length l <= k -> 1 <= fuel -> parts fuel k l = [l].
Proof.
  intros Hne Hl Hf. destruct l as [|x r]; [contradiction|]. destruct fuel as [|f]; [lia|].
  simpl parts. rewrite firstn_all2 by exact Hl. rewrite skipn_all2 by exact Hl. destruct f; reflexivity.
Qed.

Lemma parts_nonnil {A} k fuel (l : list A) : l <> [] -> parts fuel k l <> [].
Proof. destruct l; [contradiction|]. destruct fuel; simpl; discriminate. Qed.

Definition all_leaves {A} (nodes : list (tree A)) : list A := concat (map leaves nodes).

Lemma all_leaves_level {A} k (nodes : list (tree A)) : all_leaves (level k nodes) = all_leaves nodes.
Proof.
  unfold all_leaves, level. rewrite map_map.
  pose proof (parts_concat k (length nodes) nodes) as HP.
  set (P := parts (length nodes) k nodes) in *.
  transitivity (concat (map leaves (concat P))); [|now rewrite HP].
  rewrite concat_map, concat_concat, map_map. reflexivity.
Qed.

Lemma all_leaves_levels {A} k d : forall (nodes : list (tree A)), all_leaves (levels d k nodes) = all_leaves nodes.
Proof. induction d as [|d IH]; intros nodes; simpl; [reflexivity|]. now rewrite IH, all_leaves_level. Qed.

Lemma level_length {A} k (nodes : list (tree A)) q : 1 <= k -> length nodes <= q * k -> length (level k nodes) <= q.
Proof. intros Hk H. unfold level. rewrite map_length. apply parts_len_le; auto. Qed.

Lemma levels_length {A} k d : 1 <= k -> forall (nodes : list (tree A)) q,
  length nodes <= q * k ^ d -> length (levels d k nodes) <= q.
Proof.
  intros Hk. induction d as [|d IH]; intros nodes q H; simpl in *; [lia|].
  apply IH. apply level_length; [exact Hk|]. lia.
Qed.

Lemma level_nonnil {A} k (nodes : list (tree A)) : nodes <> [] -> level k nodes <> [].
Proof. intros H. unfold level. intro E. apply map_eq_nil in E. revert E. now apply parts_nonnil. Qed.

Lemma levels_nonnil {A} k d : forall (nodes : list (tree A)), nodes <> [] -> levels d k nodes <> [].
Proof. induction d as [|d IH]; intros nodes H; simpl; [exact H|]. apply IH. now apply level_nonnil. Qed.

(* THE TREE THEOREM: with depth levels such that n <= k^depth the single output of the cohort reduces every block, in order *)
Theorem flox_tree_covers {A} depth k (bs : list A) :
  1 <= k -> 1 <= depth -> bs <> [] -> length bs <= k ^ depth -> leaves (flox_tree depth k bs) = bs.
Proof.
  intros Hk Hd Hne Hn. unfold flox_tree, final.
  set (nodes := levels (depth - 1) k (map Leaf bs)).
  assert (Hlen : length nodes <= k).
  { unfold nodes. replace k with (k * 1) at 2 by lia. rewrite Nat.mul_comm.
    apply levels_length; [exact Hk|]. rewrite map_length.
    replace depth with (S (depth - 1)) in Hn by lia. simpl in Hn. lia. }
  assert (Hnn : nodes <> []).
  { unfold nodes. apply levels_nonnil. destruct bs; [contradiction| discriminate]. }
  unfold level. rewrite parts_single; [|exact Hnn|exact Hlen|destruct nodes; [contradiction| simpl; lia]].
  cbn [map last leaves].
  change (concat (map leaves nodes)) with (all_leaves nodes). unfold nodes. rewrite all_leaves_levels.
  unfold all_leaves. rewrite map_map. cbn [leaves]. clear. induction bs as [|b r IH]; simpl; [reflexivity| now rewrite IH].
Qed.

(* one level too few: 17 blocks, fan-in 4, depth 2 (the floor-division depth of seeded change R3-C09): the output keeps only block 16 *)
Example too_shallow_loses_blocks : leaves (flox_tree 2 4 (seq 0 17)) = [16] /\ leaves (flox_tree 3 4 (seq 0 17)) = seq 0 17.
Proof. vm_compute. split; reflexivity. Qed.
