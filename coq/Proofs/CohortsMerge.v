(* C09, the containment-merging stage of find_group_cohorts: whatever rows the thresholded containment
   matrix has and in whatever order they are visited, the merged cohorts
     - list every present label exactly once (given the code's own final count check), and
     - carry a block set that contains every block of every one of their labels.
   Together with CohortsLaw (exact cohorts) this covers every branch of the planner. *)
From Coq Require Import ZArith String List Bool Lia Permutation.
From Flox Require Import Factorize FactorizeLaw Rechunk Cohorts CohortsLaw.
Import ListNotations.
Open Scope Z_scope.

(* the block set of a cohort contains every block of each of its labels *)
Definition covers (lc : list (Z * list Z)) (gs : list (list Z * list Z)) : Prop :=
  forall k xs x c, In (k, xs) gs -> In x xs -> In c (lookup_chunks lc x) -> In c k.

(* ---------- zunion ---------- *)
Lemma zunion_In a : forall b c, In c (zunion b a) <-> In c b \/ In c a.
Proof.
  induction a as [|x r IH]; intros b c; simpl; [tauto|].
  destruct (zmem x b) eqn:E.
  - rewrite IH. apply zmem_In in E. split; [tauto|]. intros [H|[<-|H]]; auto.
  - rewrite IH, in_app_iff. simpl. tauto.
Qed.

Lemma fold_zunion_mono lc cohort : forall acc c, In c acc ->
  In c (fold_left (fun acc x => zunion acc (lookup_chunks lc x)) cohort acc).
Proof.
  induction cohort as [|x r IH]; intros acc c H; simpl; [exact H|].
  apply IH. apply zunion_In. now left.
Qed.

Lemma fold_zunion_in lc cohort : forall acc x c, In x cohort -> In c (lookup_chunks lc x) ->
  In c (fold_left (fun acc x => zunion acc (lookup_chunks lc x)) cohort acc).
Proof.
  induction cohort as [|y r IH]; intros acc x c Hx Hc; simpl; [destruct Hx|].
  destruct Hx as [->|Hx].
  - apply fold_zunion_mono. apply zunion_In. now right.
  - now apply (IH _ x).
Qed.

Lemma zsort_In l x : In x (zsort l) <-> In x l.
Proof.
  split; intros H.
  - apply (Permutation_in x (Permutation_sym (zsort_perm l))). exact H.
  - apply (Permutation_in x (zsort_perm l)). exact H.
Qed.

(* ---------- dict_set ---------- *)
Lemma dict_set_labels key v d : Permutation (all_labels (dict_set key v d)) (all_labels d ++ v).
Proof.
  unfold all_labels. induction d as [|[k w] r IH]; simpl; [now rewrite app_nil_r|].
  destruct (list_eqb k key); simpl.
  - rewrite <- (zsort_perm (w ++ v)). rewrite <- !app_assoc. apply Permutation_app_head. apply Permutation_app_comm.
  - rewrite IH. now rewrite app_assoc.
Qed.

Lemma dict_set_covers lc key v d :
  covers lc d -> (forall x c, In x v -> In c (lookup_chunks lc x) -> In c key) -> covers lc (dict_set key v d).
Proof.
  intros Hd Hv. induction d as [|[k w] r IH]; intros k' xs x c Hin Hx Hc; simpl in Hin.
  - destruct Hin as [[= <- <-]|[]]. eapply Hv; eauto.
  - destruct (list_eqb k key) eqn:E.
    + apply list_eqb_eq in E. subst k. destruct Hin as [[= <- <-]|Hin].
      * apply (proj1 (zsort_In _ _)) in Hx. apply in_app_or in Hx. destruct Hx as [Hx|Hx].
        -- eapply Hd; [left; reflexivity| exact Hx| exact Hc].
        -- eapply Hv; eauto.
      * eapply Hd; [right; exact Hin| exact Hx| exact Hc].
    + destruct Hin as [[= <- <-]|Hin].
      * eapply Hd; [left; reflexivity| exact Hx| exact Hc].
      * apply (IH (fun k0 xs0 x0 c0 H1 => Hd k0 xs0 x0 c0 (or_intror H1)) k' xs x c Hin Hx Hc).
Qed.

(* ---------- the loop invariant ---------- *)
Record inv (lc : list (Z * list Z)) (st : loop_state) : Prop := mkInv {
  inv_perm : Permutation (all_labels (merged st)) (merged_keys st);
  inv_nodup : NoDup (merged_keys st);
  inv_cov : covers lc (merged st);
  inv_incl : incl (merged_keys st) (map fst lc)
}.

Lemma filter_NoDup {A} (P : A -> bool) l : NoDup l -> NoDup (filter P l).
Proof.
  induction 1 as [|x l Hx Hl IH]; simpl; [constructor|].
  destruct (P x); [constructor; [rewrite filter_In; tauto| exact IH]| exact IH].
Qed.

(* NoDup of an append (stdlib's NoDup_app is not in 8.16) *)
Lemma NoDup_app_intro {A} (a b : list A) :
  NoDup a -> NoDup b -> (forall x, In x b -> ~ In x a) -> NoDup (a ++ b).
Proof.
  induction a as [|x a IH]; intros Ha Hb Hd; simpl; [exact Hb|].
  inversion Ha; subst. constructor.
  - rewrite in_app_iff. intros [H|H]; [contradiction|]. apply (Hd x H). now left.
  - apply IH; [assumption| assumption|]. intros y Hy Hya. apply (Hd y Hy). now right.
Qed.

Lemma merge_step_inv lc st row :
  NoDup (snd row) -> incl (snd row) (map fst lc) -> inv lc st -> inv lc (merge_step lc st row).
Proof.
  destruct row as [r cols]. simpl. intros Hnd Hincl [Hp Hn Hc Hi].
  unfold merge_step. destruct (zmem r (merged_keys st)); [now constructor|].
  set (cohort := filter (fun x => negb (zmem x (merged_keys st))) cols).
  assert (Hnew : forall x, In x cohort -> ~ In x (merged_keys st) /\ In x cols).
  { intros x Hx. unfold cohort in Hx. apply filter_In in Hx. destruct Hx as [H1 H2]. split; [|exact H1].
    intros Hm. apply zmem_In in Hm. rewrite Hm in H2. discriminate. }
  assert (Hcn : NoDup cohort) by (apply filter_NoDup; exact Hnd).
  destruct cohort as [|y ys] eqn:Eco; [now constructor|]. rewrite <- Eco in *.
  constructor; simpl.
  - rewrite dict_set_labels. now apply Permutation_app_tail.
  - apply NoDup_app_intro; [exact Hn| exact Hcn|]. intros x Hx. now apply Hnew.
  - apply dict_set_covers; [exact Hc|]. intros x c Hx Hxc. apply zsort_In. now apply (fold_zunion_in lc cohort [] x c).
  - intros x Hx. apply in_app_or in Hx. destruct Hx as [Hx|Hx]; [now apply Hi|]. apply Hincl. now apply Hnew.
Qed.

Lemma merge_fold_inv lc rows : forall st,
  Forall (fun row => NoDup (snd row) /\ incl (snd row) (map fst lc)) rows ->
  inv lc st -> inv lc (fold_left (merge_step lc) rows st).
Proof.
  induction rows as [|row r IH]; intros st Hr Hi; simpl; [exact Hi|].
  inversion Hr; subst. apply IH; [assumption|]. apply merge_step_inv; tauto.
Qed.

(* ---------- sorting the cohorts does not change them ---------- *)
Lemma insert_by_perm {A} (le : A -> A -> bool) x l : Permutation (insert_by le x l) (x :: l).
Proof.
  induction l as [|y r IH]; simpl; [reflexivity|]. destruct (le x y); [reflexivity|].
  rewrite IH. apply perm_swap.
Qed.

Lemma sort_by_perm {A} (le : A -> A -> bool) l : Permutation (sort_by le l) l.
Proof. induction l as [|x r IH]; simpl; [reflexivity|]. rewrite insert_by_perm. now constructor. Qed.

Lemma all_labels_perm gs gs' : Permutation gs gs' -> Permutation (all_labels gs) (all_labels gs').
Proof.
  unfold all_labels. induction 1 as [| [k x] l l' _ IH | [k x] [k' y] l | l l' l'' _ IH1 _ IH2]; simpl.
  - reflexivity.
  - now apply Permutation_app_head.
  - rewrite !app_assoc. apply Permutation_app_tail. apply Permutation_app_comm.
  - now rewrite IH1.
Qed.

Lemma covers_perm lc gs gs' : Permutation gs gs' -> covers lc gs -> covers lc gs'.
Proof.
  intros Hp Hc k xs x c Hin. apply (Hc k xs x c). apply (Permutation_in _ (Permutation_sym Hp)). exact Hin.
Qed.

(* ---------- counting ---------- *)
Lemma fold_len_all_labels gs : forall acc,
  fold_left (fun acc kv => acc + zlength (snd kv)) gs acc = acc + zlength (all_labels gs).
Proof.
  unfold all_labels, zlength. induction gs as [|[k v] r IH]; intros acc; simpl; [lia|].
  rewrite IH, app_length. lia.
Qed.

(* ---------- the present labels are distinct ---------- *)
Lemma zrangeZ_lt s n x : In x (zrangeZ s n) -> s <= x.
Proof. revert s. induction n as [|n IH]; intros s; simpl; [tauto|]. intros [<-|H]; [lia|]. apply IH in H. lia. Qed.

Lemma zrangeZ_NoDup n : forall s, NoDup (zrangeZ s n).
Proof.
  induction n as [|n IH]; intros s; simpl; constructor; [|apply IH].
  intros H. apply zrangeZ_lt in H. lia.
Qed.

Lemma map_fst_filter_NoDup {A B} (P : A * B -> bool) l : NoDup (map fst l) -> NoDup (map fst (filter P l)).
Proof.
  induction l as [|[a b] r IH]; simpl; intros H; [constructor|]. inversion H; subst.
  destruct (P (a, b)); simpl; [|now apply IH]. constructor; [|now apply IH].
  intros Hin. apply H2. apply in_map_iff in Hin. destruct Hin as [[a' b'] [Ha Hin]]. simpl in Ha. subst a'.
  apply filter_In in Hin. apply in_map_iff. exists (a, b'). split; [reflexivity| tauto].
Qed.

Lemma label_chunks_NoDup blocks nlabels : NoDup (map fst (label_chunks blocks nlabels)).
Proof.
  unfold label_chunks. apply map_fst_filter_NoDup. rewrite map_map. simpl. rewrite map_id. apply zrangeZ_NoDup.
Qed.

Lemma lookup_chunks_in lc x k : NoDup (map fst lc) -> In (x, k) lc -> lookup_chunks lc x = k.
Proof.
  unfold lookup_chunks. induction lc as [|[y ky] r IH]; simpl; intros Hnd Hin; [destruct Hin|].
  inversion Hnd; subst. destruct Hin as [[= -> ->]|Hin].
  - now rewrite Z.eqb_refl.
  - destruct (Z.eqb_spec y x) as [->|Hne]; [|now apply IH].
    exfalso. apply H1. apply in_map_iff. exists (x, k). split; [reflexivity| exact Hin].
Qed.

(* exact cohorts cover *)
Lemma exact_covers lc : NoDup (map fst lc) -> covers lc (group_by_chunks lc).
Proof.
  intros Hnd k xs x c Hin Hx Hc. destruct (group_by_chunks_spec lc) as [_ [_ He]].
  specialize (He k xs x Hin Hx). rewrite (lookup_chunks_in lc x k Hnd He) in Hc. exact Hc.
Qed.

(* ---------- the planner, every multi-block branch ---------- *)
Theorem find_group_cohorts_sound blocks nlabels one merge m cs :
  (1 < length blocks)%nat ->
  find_group_cohorts blocks nlabels one merge = Some (m, cs) -> cs <> [] ->
  let lc := label_chunks blocks nlabels in
  Permutation (all_labels cs) (map fst lc) /\ covers lc cs.
Proof.
  intros Hnb Hf Hne lc.
  pose proof (label_chunks_NoDup blocks nlabels) as Hnd. fold lc in Hnd.
  destruct (group_by_chunks_spec lc) as [_ [Hperm _]].
  pose proof (exact_covers lc Hnd) as Hcov.
  unfold find_group_cohorts in Hf. fold lc in Hf.
  destruct (Nat.eqb_spec (length blocks) 1) as [E|_]; [lia|].
  destruct (Nat.eqb (length lc) 0); [inversion Hf; subst; congruence|].
  destruct (forallb _ lc); [inversion Hf; subst; auto|].
  destruct (Nat.eqb (length (group_by_chunks lc)) 1).
  { inversion Hf; subst. destruct merge; [auto| congruence]. }
  match type of Hf with (if ?c then _ else _) = _ => destruct c end; [inversion Hf; subst; auto|].
  match type of Hf with (if ?c then _ else _) = _ => destruct c end; [inversion Hf; subst; congruence|].
  match type of Hf with (if ?c then _ else _) = _ => destruct c eqn:Echeck end; [|discriminate].
  inversion Hf as [[Hm Hcs]]. clear Hf Hm. subst cs.
  match type of Echeck with context [fold_left (merge_step lc) ?rs ?st0] => set (rows := rs) in *; set (st := fold_left (merge_step lc) rows st0) in * end.
  assert (Hinv : inv lc st).
  { unfold st. apply merge_fold_inv; [|constructor; simpl; [reflexivity| constructor| intros k xs x c []| intros x []]].
    unfold rows. apply Forall_forall. intros row Hrow. apply in_map_iff in Hrow. destruct Hrow as [[i [lab cols]] [<- Hrow]].
    simpl. apply (Permutation_in _ (sort_by_perm _ _)) in Hrow. apply filter_In in Hrow. destruct Hrow as [Hrow _].
    apply in_map_iff in Hrow. destruct Hrow as [[i' l'] [Heq _]]. inversion Heq; subst. clear Heq.
    destruct (zmem (fst l') _).
    - split; [apply map_fst_filter_NoDup; exact Hnd|]. intros x Hx. apply in_map_iff in Hx. destruct Hx as [p [<- Hp]].
      apply filter_In in Hp. apply in_map. tauto.
    - split; [constructor| intros x []]. }
  destruct Hinv as [Hp Hn Hc Hi].
  apply andb_prop in Echeck. destruct Echeck as [E1 E2]. apply Z.eqb_eq in E1, E2.
  rewrite fold_len_all_labels in E1, E2.
  split.
  - apply (Permutation_trans (l' := all_labels (merged st))); [apply all_labels_perm, sort_by_perm|].
    apply NoDup_Permutation_bis.
    + apply (Permutation_NoDup (Permutation_sym Hp)). exact Hn.
    + rewrite map_length. unfold zlength in E2. lia.
    + intros x Hx. apply Hi. apply (Permutation_in _ Hp). exact Hx.
  - apply (covers_perm lc (merged st)); [apply Permutation_sym, sort_by_perm| exact Hc].
Qed.

(* 'blockwise' is proposed for several blocks only if every present label lives in exactly one block *)
Theorem blockwise_only_if_confined blocks nlabels one merge cs :
  (1 < length blocks)%nat ->
  find_group_cohorts blocks nlabels one merge = Some (Blockwise, cs) ->
  forall x ch, In (x, ch) (label_chunks blocks nlabels) -> length ch = 1%nat.
Proof.
  intros Hnb Hf x ch Hin. unfold find_group_cohorts in Hf.
  destruct (Nat.eqb_spec (length blocks) 1) as [E|_]; [lia|].
  set (lc := label_chunks blocks nlabels) in *.
  destruct (Nat.eqb (length lc) 0); [discriminate|].
  destruct (forallb (fun l => Nat.eqb (length (snd l)) 1) lc) eqn:Ef.
  - rewrite forallb_forall in Ef. specialize (Ef _ Hin). simpl in Ef. now apply Nat.eqb_eq in Ef.
  - destruct (Nat.eqb (length (group_by_chunks lc)) 1); [discriminate|].
    repeat match type of Hf with (if ?c then _ else _) = _ => destruct c; try discriminate end.
    all: try (inversion Hf as [[Hm Hcs]]; match type of Hm with (if ?d then _ else _) = _ => destruct d; discriminate end).
Qed.
