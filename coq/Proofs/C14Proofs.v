From Coq Require Import String List Bool.
From Flox Require Import TokensGen Tokens.
Import ListNotations.

Lemma tokens_cover : tokens_ok = true.
Proof. vm_compute. reflexivity. Qed.

(* ---- API entry points: no write into an argument, none into module-level state (T4, regenerated every run) ---- *)
From Flox Require Import EffIR EffLaw Effects.

Lemma api_certs_ok : check_all api_functions = true.
Proof. vm_compute. reflexivity. Qed.

Definition api_root_pure_b (f : fndef) : bool :=
  negb (existsb (String.eqb (f_name f)) api_roots) || pure_fn f.

Lemma api_roots_pure_b : forallb api_root_pure_b api_functions = true.
Proof. vm_compute. reflexivity. Qed.

Lemma api_roots_pure :
  forall f, In f api_functions -> In (f_name f) api_roots -> f_stores f = [].
Proof.
  intros f Hin Hroot. pose proof api_roots_pure_b as H. rewrite forallb_forall in H. specialize (H f Hin).
  unfold api_root_pure_b in H. apply orb_prop in H. destruct H as [H|H].
  - exfalso. apply negb_true_iff in H. assert (existsb (String.eqb (f_name f)) api_roots = true); [|congruence].
    apply existsb_exists. exists (f_name f). split; [exact Hroot| apply String.eqb_refl].
  - unfold pure_fn in H. destruct (f_stores f); [reflexivity| discriminate].
Qed.

(* every entry point is present in the generated list (a root that disappears from the source is not silently dropped) *)
Definition root_present_b (r : string) : bool := existsb (fun f => String.eqb (f_name f) r) api_functions.
Lemma api_roots_present : forallb root_present_b api_roots = true /\ Nat.leb 8 (length api_roots) = true.
Proof. split; vm_compute; reflexivity. Qed.

(* the module-level state is a pseudo-parameter (the last one) of every function, so "no stored parameter" includes it *)
Definition has_globals_param (f : fndef) : bool :=
  existsb (fun s => match s with SParam x i => String.eqb x globals_param && Nat.eqb (S i) (f_nparams f) | _ => false end) (f_body f).
Lemma globals_is_a_parameter : forallb has_globals_param api_functions = true.
Proof. vm_compute. reflexivity. Qed.

Lemma api_entry_points_write_nothing :
  (forall r, In r api_roots -> exists f, In f api_functions /\ f_name f = r) /\
  (forall f, In f api_functions -> existsb (fun s => match s with SParam x i => String.eqb x globals_param && Nat.eqb (S i) (f_nparams f) | _ => false end) (f_body f) = true) /\
  (forall f, In f api_functions -> In (f_name f) api_roots -> f_stores f = []).
Proof.
  split; [|split].
  - intros r Hr. destruct api_roots_present as [H _]. rewrite forallb_forall in H. specialize (H r Hr).
    unfold root_present_b in H. apply existsb_exists in H. destruct H as [f [Hf He]]. exists f. split; [exact Hf|].
    now apply String.eqb_eq in He.
  - intros f Hf. pose proof globals_is_a_parameter as H. rewrite forallb_forall in H. exact (H f Hf).
  - exact api_roots_pure.
Qed.
