From Coq Require Import String List Bool.
From Flox Require Import TokensGen Tokens.
Import ListNotations.

Lemma tokens_cover : tokens_ok = true.
Proof. vm_compute. reflexivity. Qed.
