From Coq Require Import ZArith String List Bool.
From Flox Require Import Tables Dtype.
Import ListNotations.

Lemma rows_ok_b : forallb dtype_row_ok final_dtype_rows = true.
Proof. vm_compute. reflexivity. Qed.

Lemma rows_ok : forall r, In r final_dtype_rows -> dtype_row_ok r = true.
Proof. apply forallb_forall. exact rows_ok_b. Qed.

Lemma sanity :
  (forall f d, class_of f = CountLike -> base_dtype f d = DI64) /\
  (forall f d, class_of f = Preserve -> base_dtype f d = d) /\
  (forall f d fill, class_of f = MeanLike -> In (expected_dtype f d None fill) [DF32; DF64; DDatetime; DTimedelta]).
Proof.
  repeat split.
  - intros f d H. unfold base_dtype. now rewrite H.
  - intros f d H. unfold base_dtype. now rewrite H.
  - intros f d fill H. unfold expected_dtype, base_dtype. rewrite H.
    destruct d, fill; simpl; auto 10.
Qed.
