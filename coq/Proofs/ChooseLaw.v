(* C19: the decision function _choose_method, tabulated by T2 on EVERY point of its abstracted domain
   (aggregation kind x requested method x planner's preference x (nax == by.ndim)), obeys the rules
   that make the automatic choice safe.  Finite domain: vm_compute + forallb_forall is a proof. *)
From Coq Require Import ZArith String List Bool.
From Flox Require Import Tables.
Import ListNotations.

Definition meth_eqb (a b : meth) : bool :=
  match a, b with
  | MMapReduce, MMapReduce | MCohorts, MCohorts | MBlockwise, MBlockwise | MOther, MOther => true
  | _, _ => false
  end.

Lemma meth_eqb_eq a b : meth_eqb a b = true <-> a = b.
Proof. destruct a, b; simpl; split; congruence. Qed.

Definition crow : Type := (string * bool * bool * option meth * meth * bool * choice)%type.

Definition row_ok (r : crow) : bool :=
  let '(_, is_arg, bw_only, req, pref, nax_eq, out) := r in
  match req with
  | Some m => match out with CRet m' => meth_eqb m m' | CRaise _ => false end       (* an explicit request is kept *)
  | None =>
      if bw_only then
        (* blockwise-only aggregations: blockwise when the chunking allows it, else a clean ValueError *)
        match out with
        | CRet m' => meth_eqb pref MBlockwise && meth_eqb m' MBlockwise
        | CRaise EValue => negb (meth_eqb pref MBlockwise)
        | CRaise _ => false
        end
      else
        match out with
        | CRet m' =>
            (* reducing over a subset of the label axes: only map-reduce is implemented *)
            (nax_eq || meth_eqb m' MMapReduce)
            (* arg reductions are never sent to blockwise *)
            && (negb is_arg || negb (meth_eqb m' MBlockwise))
            (* otherwise the planner's preference, or cohorts instead of blockwise for arg reductions *)
            && (negb nax_eq || meth_eqb m' pref || (is_arg && meth_eqb pref MBlockwise && meth_eqb m' MCohorts))
            && negb (meth_eqb m' MOther)
        | CRaise _ => false
        end
  end.

(* the table covers the whole abstracted domain: every (request, preference, nax==ndim) for plain
   reductions, arg reductions and blockwise-only aggregations *)
Definition covers_domain (rows : list crow) : bool :=
  forallb (fun key : bool * bool * option meth * meth * bool =>
             let '(ia, bo, req, pref, ne) := key in
             existsb (fun r : crow => let '(_, ia', bo', req', pref', ne', _) := r in
                        Bool.eqb ia ia' && Bool.eqb bo bo' && meth_eqb pref pref' && Bool.eqb ne ne' &&
                        match req, req' with None, None => true | Some a, Some b => meth_eqb a b | _, _ => false end) rows)
          (flat_map (fun kind : bool * bool =>
             flat_map (fun req => flat_map (fun pref => map (fun ne => (fst kind, snd kind, req, pref, ne)) [true; false])
                                           [MMapReduce; MCohorts; MBlockwise])
                      [None; Some MMapReduce; Some MCohorts; Some MBlockwise])
             [(false, false); (true, false); (false, true)]).

Lemma choose_rows_ok : forallb row_ok choose_method_rows = true.
Proof. vm_compute. reflexivity. Qed.

Lemma choose_rows_cover : covers_domain choose_method_rows = true.
Proof. vm_compute. reflexivity. Qed.

Theorem choose_method_rules :
  forall r, In r choose_method_rows -> row_ok r = true.
Proof. apply forallb_forall. exact choose_rows_ok. Qed.

(* consequences in readable form *)
Theorem explicit_method_kept name ia bo m pref ne out :
  In (name, ia, bo, Some m, pref, ne, out) choose_method_rows -> out = CRet m.
Proof.
  intros H. apply choose_method_rules in H. simpl in H. destruct out as [m'|e]; [|discriminate].
  apply meth_eqb_eq in H. now subst.
Qed.

Theorem auto_partial_axes_is_map_reduce name ia pref out :
  In (name, ia, false, None, pref, false, out) choose_method_rows -> out = CRet MMapReduce.
Proof.
  intros H. apply choose_method_rules in H. simpl in H. destruct out as [m'|e]; [|discriminate].
  destruct m'; simpl in H; try discriminate; try reflexivity;
    repeat (rewrite ?andb_false_r, ?andb_false_l in H; simpl in H); try discriminate.
Qed.

Theorem auto_arg_reduction_never_blockwise name pref ne out :
  In (name, true, false, None, pref, ne, out) choose_method_rows -> out <> CRet MBlockwise /\ exists m, out = CRet m.
Proof.
  intros H. apply choose_method_rules in H. simpl in H. destruct out as [m'|e]; [|discriminate].
  split; [|eauto]. intros E. inversion E; subst. simpl in H.
  destruct ne; simpl in H; discriminate.
Qed.

(* ---------- _validate_reindex: when may the block stage reindex to the full set of groups? ---------- *)
Definition rrow : Type := (string * bool * bool * option bool * option meth * bool * bool * bool * rchoice)%type.

Definition opt_bool_eqb (a b : option bool) : bool :=
  match a, b with None, None => true | Some x, Some y => Bool.eqb x y | _, _ => false end.
Definition is_meth (m : option meth) (x : meth) : bool := match m with Some y => meth_eqb x y | None => false end.

Definition rrow_ok (r : rrow) : bool :=
  let '(_, is_arg, first_last, reindex, method, expected, by_dask, arr_dask, out) := r in
  let all_eager := negb arr_dask && negb by_dask in
  match out with
  | RRaise EValue | RRaise ENotImplemented =>
      (* only an explicit reindex=True on chunked input is ever refused, and only for the documented reasons *)
      opt_bool_eqb reindex (Some true) && negb all_eager
      && (is_arg || is_meth method MCohorts || (is_meth method MBlockwise && negb by_dask) || first_last)
  | RRaise _ => false
  | RStrategy bw =>
      match reindex with
      | Some b => opt_bool_eqb bw (Some b)                                  (* an explicit choice is honoured *)
                  && (negb b || all_eager
                      || negb (is_arg || is_meth method MCohorts || (is_meth method MBlockwise && negb by_dask) || first_last))
      | None =>
          match method with
          | None => opt_bool_eqb bw None                                     (* decided later, once the method is chosen *)
          | Some m =>
              match bw with
              | None => false                                                  (* a concrete method always gets a concrete strategy *)
              | Some true =>
                  (* the simple combine needs every block reindexed to KNOWN groups with a neutral fill *)
                  all_eager
                  || (negb first_last
                      && (if meth_eqb m MBlockwise then by_dask
                          else negb is_arg && negb (meth_eqb m MCohorts) && (expected || negb by_dask)))
              | Some false => negb all_eager
              end
          end
      end
  end.

Lemma reindex_rows_ok : forallb rrow_ok validate_reindex_rows = true.
Proof. vm_compute. reflexivity. Qed.

Theorem validate_reindex_rules : forall r, In r validate_reindex_rows -> rrow_ok r = true.
Proof. apply forallb_forall. exact reindex_rows_ok. Qed.

(* readable consequence: with reindex unset and a concrete method on chunked input, the block stage reindexes
   (simple combine) only if no first/last fill problem exists, the reduction is not an arg reduction routed
   through cohorts/map-reduce, the method is not cohorts, and the groups are known up front *)
Theorem auto_reindex_true_only_when_safe name is_arg first_last m expected by_dask arr_dask :
  In (name, is_arg, first_last, None, Some m, expected, by_dask, arr_dask, RStrategy (Some true)) validate_reindex_rows ->
  (arr_dask || by_dask) = true -> m <> MBlockwise ->
  first_last = false /\ is_arg = false /\ m <> MCohorts /\ (expected = true \/ by_dask = false).
Proof.
  intros H Hd Hm. apply validate_reindex_rules in H. simpl in H.
  destruct arr_dask, by_dask; simpl in Hd; try discriminate; simpl in H;
    destruct first_last, is_arg, m, expected; simpl in H; try discriminate; try congruence;
    repeat split; try congruence; auto.
Qed.
