(* Batch (leading) dimensions: plumbing an array whose shape is lead ++ s over axes that all lie in s (shifted by |lead|)
   is, for every leading index li, the plumbing of the sub-array a[li] over the unshifted axes. *)
From Coq Require Import List Arith Bool Lia.
From Flox Require Import NdShape NdShapeLaw.
Import ListNotations.

Lemma memn_shift d x axis : memn (d + x) (map (Nat.add d) axis) = memn x axis.
Proof.
  unfold memn. induction axis as [|a r IH]; simpl; [reflexivity|]. rewrite IH. f_equal.
  destruct (Nat.eqb_spec x a), (Nat.eqb_spec (d + x) (d + a)); try reflexivity; lia.
Qed.

Lemma memn_low d x axis : x < d -> memn x (map (Nat.add d) axis) = false.
Proof.
  intros H. unfold memn. induction axis as [|a r IH]; simpl; [reflexivity|]. rewrite IH.
  destruct (Nat.eqb_spec x (d + a)); [lia| reflexivity].
Qed.

Lemma filter_map_comm {A B} (p : B -> bool) (f : A -> B) l : filter p (map f l) = map f (filter (fun x => p (f x)) l).
Proof. induction l as [|x r IH]; simpl; [reflexivity|]. destruct (p (f x)); simpl; now rewrite IH. Qed.

Lemma seq_shift_add d n : seq d n = map (Nat.add d) (seq 0 n).
Proof.
  revert d. induction n as [|n IH]; intros d; simpl; [reflexivity|]. rewrite Nat.add_0_r. f_equal.
  rewrite (IH (S d)), <- seq_shift, map_map. apply map_ext. intros x. lia.
Qed.

Lemma filter_all_true {A} (p : A -> bool) l : (forall x, In x l -> p x = true) -> filter p l = l.
Proof.
  induction l as [|x r IH]; intros H; simpl; [reflexivity|]. rewrite (H x) by now left. f_equal. apply IH. intros y Hy. apply H. now right.
Qed.

Lemma kept_axes_shift d n axis :
  kept_axes (d + n) (map (Nat.add d) axis) = seq 0 d ++ map (Nat.add d) (kept_axes n axis).
Proof.
  unfold kept_axes. rewrite seq_app, filter_app. cbn [plus]. f_equal.
  - apply filter_all_true. intros x Hx. apply in_seq in Hx. rewrite memn_low by lia. reflexivity.
  - rewrite seq_shift_add, filter_map_comm. f_equal. apply filter_ext. intros x. now rewrite memn_shift.
Qed.

Lemma move_order_shift d n axis :
  move_order (d + n) (map (Nat.add d) axis) = seq 0 d ++ map (Nat.add d) (move_order n axis).
Proof. unfold move_order. rewrite kept_axes_shift, map_app, app_assoc. reflexivity. Qed.

Lemma index_of_seq d l : forall s x, s <= x < s + d -> index_of x (seq s d ++ l) = x - s.
Proof.
  induction d as [|d IH]; intros s x H; [lia|]. simpl.
  destruct (Nat.eqb_spec x s) as [->|Hne]; [lia|]. rewrite (IH (S s) x) by lia. lia.
Qed.

Lemma index_of_low d l x : x < d -> index_of x (seq 0 d ++ l) = x.
Proof. intros H. rewrite index_of_seq by lia. lia. Qed.

Lemma index_of_app_notin x l1 l2 : ~ In x l1 -> index_of x (l1 ++ l2) = length l1 + index_of x l2.
Proof.
  induction l1 as [|y r IH]; intros H; simpl; [reflexivity|].
  destruct (Nat.eqb_spec x y) as [->|_]; [exfalso; apply H; now left|]. f_equal. apply IH. intros Hin. apply H. now right.
Qed.

Lemma index_of_map_add d x l : index_of (d + x) (map (Nat.add d) l) = index_of x l.
Proof.
  induction l as [|y r IH]; simpl; [reflexivity|].
  destruct (Nat.eqb_spec x y), (Nat.eqb_spec (d + x) (d + y)); try lia; rewrite ?IH; reflexivity.
Qed.

(* the key fact: with the leading axes kept in front, the old index of (li ++ rest) is li ++ (old index of rest) *)
Theorem unperm_shift d order' li rest :
  length li = d ->
  unperm (seq 0 d ++ map (Nat.add d) order') (li ++ rest) = li ++ unperm order' rest.
Proof.
  intros Hl. unfold unperm. rewrite app_length, seq_length, map_length, seq_app, map_app. cbn [plus]. f_equal.
  - (* axes below d *)
    apply nth_ext with (d := 0) (d' := 0); [rewrite map_length, seq_length; lia|].
    intros k Hk. rewrite map_length, seq_length in Hk.
    rewrite (nth_map_seq 0) by exact Hk. rewrite index_of_low by exact Hk. rewrite app_nth1 by lia. reflexivity.
  - rewrite (seq_shift_add d), map_map. apply map_ext. intros x.
    rewrite index_of_app_notin by (rewrite in_seq; lia). rewrite seq_length, index_of_map_add.
    rewrite app_nth2 by lia. f_equal. lia.
Qed.

Lemma in_range_nth s : forall idx,
  in_range s idx <-> length idx = length s /\ forall j, j < length s -> nth j idx 0 < nth j s 0.
Proof.
  induction s as [|n r IH]; intros [|i ir]; simpl; split; try tauto; try (intros [H _]; discriminate).
  - intros _. split; [reflexivity| intros j Hj; lia].
  - intros [Hi H]. apply IH in H. destruct H as [Hl Hn]. split; [now f_equal|]. intros [|j] Hj; [exact Hi| apply Hn; lia].
  - intros [Hl Hn]. split; [apply (Hn 0); lia|]. apply IH. split; [now injection Hl|]. intros j Hj. apply (Hn (S j)). lia.
Qed.

Lemma index_of_spec x l : In x l -> index_of x l < length l /\ nth (index_of x l) l 0 = x.
Proof.
  induction l as [|y r IH]; intros H; [contradiction|]. simpl.
  destruct (Nat.eqb_spec x y) as [->|Hne]; [split; [lia| reflexivity]|].
  destruct H as [H|H]; [congruence|]. destruct (IH H) as [H1 H2]. split; [lia| exact H2].
Qed.

Lemma nth_perm_shape order s : forall j, j < length order -> nth j (perm_shape order s) 0 = nth (nth j order 0) s 0.
Proof.
  induction order as [|x r IH]; intros j H; simpl in *; [lia|]. destruct j as [|j]; [reflexivity| apply IH; lia].
Qed.

Lemma unperm_in_range order s idx' :
  (forall ax, In ax order <-> ax < length s) -> length order = length s ->
  in_range (perm_shape order s) idx' -> in_range s (unperm order idx').
Proof.
  intros Hin Hlen Hr. apply in_range_nth in Hr. destruct Hr as [Hl Hn]. rewrite perm_shape_length in Hl, Hn.
  apply in_range_nth. unfold unperm. split; [rewrite map_length, seq_length; exact Hlen|].
  intros p Hp. rewrite (nth_map_seq 0) by lia.
  destruct (index_of_spec p order) as [Hj Hv]; [apply Hin; exact Hp|].
  specialize (Hn _ Hj). rewrite nth_perm_shape in Hn by exact Hj. now rewrite Hv in Hn.
Qed.

Lemma nth_skipn_add {A} (d : A) off : forall l k, nth k (skipn off l) d = nth (off + k) l d.
Proof.
  induction off as [|off IH]; intros l k; [reflexivity|]. destruct l as [|x l]; simpl; [now destruct k| apply IH].
Qed.

Lemma nth_firstn_lt {A} (d : A) M : forall l k, k < M -> nth k (firstn M l) d = nth k l d.
Proof.
  induction M as [|M IH]; intros l k H; [lia|]. destruct l as [|x l]; simpl; [reflexivity|].
  destruct k as [|k]; [reflexivity| apply IH; lia].
Qed.

Section Batch.
  Variable A : Type.
  Variable dflt : A.

  (* a[li] for an array of shape lead ++ s *)
  Definition sub (lead s : list nat) (a : nd A) (li : list nat) : nd A :=
    mkNd s (firstn (nprod s) (skipn (ravel lead li * nprod s) (data a))).

  Lemma get_sub lead s a li idx :
    shape a = lead ++ s -> length li = length lead -> in_range s idx ->
    get A dflt (sub lead s a li) idx = get A dflt a (li ++ idx).
  Proof.
    intros Hs Hl Hi. unfold get, sub. cbn [shape data]. rewrite Hs, ravel_app by exact Hl.
    rewrite nth_firstn_lt by (apply ravel_lt; exact Hi). apply nth_skipn_add.
  Qed.

  (* BATCH THEOREM: for every leading index li, the rows of the plumbed big array that belong to li are the rows of the
     plumbed sub-array a[li]: element (li ++ ki, col) of plumb(shifted axes)(a) = element (ki, col) of plumb(axes)(a[li]) *)
  Theorem plumb_batch lead s (a : nd A) axis li ki ri :
    shape a = lead ++ s -> length li = length lead -> in_range lead li ->
    NoDup axis -> (forall ax, In ax axis -> ax < length s) ->
    let d := length lead in
    let n := length s in
    in_range (perm_shape (kept_axes n axis) s) ki ->
    in_range (perm_shape axis s) ri ->
    get A dflt (plumb A dflt (map (Nat.add d) axis) a) ((li ++ ki) ++ [ravel (perm_shape axis s) ri])
    = get A dflt (plumb A dflt axis (sub lead s a li)) (ki ++ [ravel (perm_shape axis s) ri]).
  Proof.
    intros Hs Hl Hli Hnd Hax d n Hk Hr.
    (* shapes seen through the shifted axes *)
    assert (Hps : forall l, perm_shape (map (Nat.add d) l) (lead ++ s) = perm_shape l s).
    { intros l. unfold perm_shape. rewrite map_map. apply map_ext. intros x. rewrite app_nth2 by (unfold d; lia).
      f_equal. unfold d. lia. }
    assert (Hlow : perm_shape (seq 0 d) (lead ++ s) = lead).
    { unfold perm_shape. apply nth_ext with (d := 0) (d' := 0); [rewrite map_length, seq_length; reflexivity|].
      intros k Hk'. rewrite map_length, seq_length in Hk'. rewrite (nth_map_seq 0) by exact Hk'.
      rewrite app_nth1 by (unfold d in Hk'; lia). reflexivity. }
    assert (Hkept : perm_shape (kept_axes (length (shape a)) (map (Nat.add d) axis)) (shape a)
                    = lead ++ perm_shape (kept_axes n axis) s).
    { rewrite Hs, app_length. fold d n. rewrite kept_axes_shift, perm_shape_app, Hps, Hlow. reflexivity. }
    assert (Hred : perm_shape (map (Nat.add d) axis) (shape a) = perm_shape axis s) by (rewrite Hs; apply Hps).
    pose proof (plumb_get A dflt a (map (Nat.add d) axis) (li ++ ki) ri) as H1. cbv zeta in H1.
    rewrite Hkept, Hred in H1. rewrite H1 by (try exact Hr; apply in_range_app; assumption).
    pose proof (plumb_get A dflt (sub lead s a li) axis ki ri) as H2. cbv zeta in H2. cbn [sub shape] in H2.
    rewrite H2 by assumption.
    rewrite Hs, app_length. fold d n. rewrite move_order_shift, <- app_assoc, unperm_shift by exact Hl.
    symmetry. apply get_sub; [exact Hs| exact Hl|].
    (* the old index of (ki ++ ri) is in range of s *)
    destruct (move_order_perm n axis Hnd Hax) as [Hnd' [Hin' Hlen']].
    apply unperm_in_range; [exact Hin'| exact Hlen'|].
    unfold move_order. rewrite perm_shape_app. now apply in_range_app.
  Qed.
End Batch.
