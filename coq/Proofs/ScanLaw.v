(* C10: the chunked grouped scan equals the sequential per-group scan for every chunking. *)
From Coq Require Import ZArith String List Bool Lia.
From Flox Require Import ListX Val Agg ValAlg Hom Spec Pipeline PipelineLaw Scan.
Import ListNotations.
Open Scope Z_scope.

Lemma scan_red_wf f : red_wf (scan_red f).
Proof. destruct f; exact I. Qed.

Lemma block_from_eq r : red_wf r -> forall codes vals pc pv lc lv,
  length pc = length pv -> length lc = length lv ->
  block_from r (fun g => run_red r (vals_of g pc pv)) lc lv codes vals
  = scan_from r (pc ++ lc) (pv ++ lv) codes vals.
Proof.
  intros Hwf. induction codes as [|c cs IH]; intros vals pc pv lc lv Hp Hl; [reflexivity|].
  destruct vals as [|v vs]; [reflexivity|]. cbn [block_from scan_from]. f_equal.
  - rewrite <- run_red_app by assumption. f_equal.
    rewrite <- !app_assoc. rewrite (vals_of_app c pc (lc ++ [c]) pv (lv ++ [v])) by assumption. reflexivity.
  - rewrite IH; [|assumption| rewrite !app_length; simpl; lia]. now rewrite !app_assoc.
Qed.

Lemma scan_from_app r : forall c1 v1 c2 v2 pc pv, length c1 = length v1 ->
  scan_from r pc pv (c1 ++ c2) (v1 ++ v2)
  = scan_from r pc pv c1 v1 ++ scan_from r (pc ++ c1) (pv ++ v1) c2 v2.
Proof.
  induction c1 as [|c cs IH]; intros v1 c2 v2 pc pv Hlen.
  - destruct v1; [|discriminate]. simpl. now rewrite !app_nil_r.
  - destruct v1 as [|v vs]; [discriminate|]. cbn [app scan_from]. f_equal.
    rewrite IH by (simpl in Hlen; lia). now rewrite <- !app_assoc.
Qed.

Lemma scan_blocks_eq r : red_wf r -> forall sizes codes vals pc pv,
  length pc = length pv -> length codes = length vals -> sum_nat sizes = length codes ->
  scan_blocks r pc pv (cut_pairs sizes codes vals) = scan_from r pc pv codes vals.
Proof.
  intros Hwf. induction sizes as [|n rest IH]; intros codes vals pc pv Hp Hlen Hsum; simpl in *.
  - destruct codes; [|discriminate]. reflexivity.
  - rewrite (block_from_eq r Hwf (firstn n codes) (firstn n vals) pc pv [] []); [|assumption|reflexivity].
    rewrite !app_nil_r. rewrite IH.
    + rewrite <- scan_from_app by (now apply firstn_length_eq). now rewrite !firstn_skipn.
    + rewrite !app_length, !firstn_length. lia.
    + now apply skipn_length_eq.
    + rewrite skipn_length. lia.
Qed.

Theorem scan_chunked_eq_seq f sizes codes vals :
  length codes = length vals -> sum_nat sizes = length codes ->
  scan_chunked f sizes codes vals = scan_seq f codes vals.
Proof. intros. apply scan_blocks_eq; auto using scan_red_wf. Qed.

(* the carried state may be assembled along ANY bracketing of the earlier blocks (Blelloch) *)
Theorem scan_state_any_tree f (t : tree (list xval)) :
  teval (run_red (scan_red f)) (fun l => fold_right (m_op (r_m (scan_red f))) (m_unit (r_m (scan_red f))) l) t
  = run_red (scan_red f) (concat (leaves t)).
Proof.
  set (R := run_red (scan_red f)).
  set (F := fun l : list xval => fold_right (m_op (r_m (scan_red f))) (m_unit (r_m (scan_red f))) l).
  induction t as [b|ts IH] using tree_ind'.
  - simpl. now rewrite app_nil_r.
  - cbn [teval leaves].
    assert (Hmap : map (teval R F) ts = map R (map (fun t => concat (leaves t)) ts)).
    { rewrite map_map. apply map_ext_in. intros t Hin. rewrite Forall_forall in IH. now apply IH. }
    rewrite Hmap. unfold F, R. rewrite run_red_concat by apply scan_red_wf.
    f_equal. rewrite concat_concat, map_map. reflexivity.
Qed.

(* what a position holds: the NumPy scan of its own group's members so far *)
Lemma nancumsum_value l : run_red (scan_red Nancumsum) l = np_sum (dropnan l).
Proof.
  rewrite run_red_unfold. simpl. unfold fold_red, np_sum. cbn [r_m r_pre m_op pre_fn m_unit].
  symmetry. apply fold_symmetric; [intros; apply xadd_assoc| intros; apply xadd_comm].
Qed.

Example scan_example :
  scan_seq Nancumsum [0; 1; 0; 1; 0] [Fin 1; Fin 5; NaN; Fin 2; Fin 3] = [Fin 1; Fin 5; Fin 1; Fin 7; Fin 4] /\
  scan_chunked Ffill [2; 1; 2]%nat [0; 1; 0; 1; 0] [Fin 1; NaN; NaN; Fin 2; NaN] = [Fin 1; NaN; Fin 1; Fin 2; Fin 1].
Proof. split; reflexivity. Qed.
