(* C01 lemmas: the sort/segment/scatter kernel of engine="flox" and the wrapped numpy_groupies
   kernels compute, per group, the reducer on the group's members in ORIGINAL order. *)
From Coq Require Import ZArith String List Bool Lia Sorted.
From Flox Require Import ListX Val Agg ValAlg Hom Spec Pipeline PipelineLaw Engines.
Import ListNotations.
Open Scope Z_scope.

Definition keyis (g : Z) (p : Z * xval) : bool := fst p =? g.

(* stable sort keeps, for every code, the subsequence of its elements *)
Lemma filter_pinsert g x l :
  filter (keyis g) (pinsert x l) = if keyis g x then x :: filter (keyis g) l else filter (keyis g) l.
Proof.
  induction l as [|y r IH]; simpl; [destruct (keyis g x); reflexivity|].
  destruct (Z.leb_spec (fst x) (fst y)); simpl.
  - destruct (keyis g x); reflexivity.
  - rewrite IH. unfold keyis in *. destruct (Z.eqb_spec (fst x) g), (Z.eqb_spec (fst y) g); try reflexivity. lia.
Qed.

Theorem filter_psort g l : filter (keyis g) (psort l) = filter (keyis g) l.
Proof.
  induction l as [|x r IH]; [reflexivity|]. simpl. rewrite filter_pinsert, IH. reflexivity.
Qed.

Definition ksorted (l : list (Z * xval)) : Prop := Sorted (fun a b => fst a <= fst b) l.

Lemma pinsert_sorted x l : ksorted l -> ksorted (pinsert x l).
Proof.
  unfold ksorted. induction 1 as [|y r Hs IH Hhd]; simpl; [repeat constructor|].
  destruct (Z.leb_spec (fst x) (fst y)).
  - constructor; [constructor; assumption| constructor; assumption].
  - constructor; [exact IH|]. destruct r as [|z r']; simpl in *; [constructor; lia|].
    destruct (fst x <=? fst z); constructor; try lia. now inversion Hhd.
Qed.

Lemma psort_sorted l : ksorted (psort l).
Proof. induction l; simpl; [constructor| now apply pinsert_sorted]. Qed.

(* segments of a sorted list: slot g holds exactly the values whose code is g *)
Lemma segments_head l k vs s : segments l = (k, vs) :: s -> exists v r, l = (k, v) :: r.
Proof.
  destruct l as [|[k0 v0] r]; simpl; [discriminate|].
  destruct (segments r) as [|[k' vs'] s']; [intros [= <- _ _]; eauto|].
  destruct (k0 =? k'); intros [= <- _ _]; eauto.
Qed.

Lemma find_segments g l : ksorted l ->
  find (fun kv => fst kv =? g) (segments l)
  = match filter (keyis g) l with [] => None | f => Some (g, map snd f) end.
Proof.
  unfold ksorted. intros Hs. apply Sorted_StronglySorted in Hs; [|intros a b c; lia].
  induction Hs as [|[k v] r Hs IH Hall]; [reflexivity|].
  simpl. unfold keyis at 1. simpl.
  destruct (segments r) as [|[k' vs] s] eqn:Es.
  - (* r = [] *)
    assert (r = []) by (destruct r as [|[a b] r']; [reflexivity|]; simpl in Es; destruct (segments r') as [|[? ?] ?]; [discriminate| destruct (a =? z); discriminate]).
    subst r. simpl. destruct (Z.eqb_spec k g) as [->|]; reflexivity.
  - destruct (segments_head r k' vs s Es) as [v' [r' ->]].
    rewrite Forall_forall in Hall. assert (Hk : k <= k') by (apply (Hall (k', v')); now left).
    destruct (Z.eqb_spec k k') as [->|Hne].
    + (* same run *)
      simpl in IH |- *. unfold keyis in IH at 1. simpl in IH.
      destruct (Z.eqb_spec k' g) as [->|Hg].
      * simpl in IH. inversion IH as [Hvs]. unfold keyis. simpl. rewrite Z.eqb_refl. simpl. reflexivity.
      * simpl in IH. assert (Hf : keyis g (k', v') = false) by (unfold keyis; simpl; now apply Z.eqb_neq).
        rewrite Hf. exact IH.
    + simpl. destruct (Z.eqb_spec k g) as [->|Hg].
      * (* g = k < k' : nothing else carries g *)
        assert (Hnone : filter (keyis g) ((k', v') :: r') = []).
        { clear - Hall Hne Hk Hs.
          assert (Hf : forall p, In p ((k', v') :: r') -> keyis g p = false).
          { intros p Hp. unfold keyis. apply Z.eqb_neq.
            inversion Hs as [|? ? Hs' Hall']; subst. rewrite Forall_forall in Hall'.
            destruct Hp as [<-|Hp]; simpl; [lia|]. specialize (Hall' p Hp). simpl in Hall'. lia. }
          now apply filter_all_false. }
        change (if keyis g (k', v') then (k', v') :: filter (keyis g) r' else filter (keyis g) r')
          with (filter (keyis g) ((k', v') :: r')). rewrite Hnone. reflexivity.
      * simpl in IH. exact IH.
Qed.

(* engine="flox" plain kernels: sort + reduceat + scatter == reducer on the members, fill if absent *)
Theorem flox_plain_correct o fill codes vals g :
  flox_plain o fill codes vals g
  = match vals_of g codes vals with [] => fill | m => kern o m end.
Proof.
  unfold flox_plain, scatter_get.
  set (segs := segments (psort (combine codes vals))).
  assert (Hf : find (fun kv => fst kv =? g) (map (fun kv => (fst kv, kern o (snd kv))) segs)
               = option_map (fun kv => (fst kv, kern o (snd kv))) (find (fun kv => fst kv =? g) segs)).
  { clear. induction segs as [|[k vs] r IH]; [reflexivity|]. simpl. destruct (k =? g); [reflexivity| exact IH]. }
  rewrite Hf. unfold segs. rewrite (find_segments g _ (psort_sorted _)), filter_psort.
  unfold vals_of. fold (keyis g).
  destruct (filter (keyis g) (combine codes vals)) as [|p q]; reflexivity.
Qed.

(* ---------- NaN-substitution wrappers ---------- *)
Lemma vals_of_map g codes vals (f : xval -> xval) :
  vals_of g codes (map f vals) = map f (vals_of g codes vals).
Proof.
  unfold vals_of. revert vals. induction codes as [|c cs IH]; intros vals; [reflexivity|].
  destruct vals as [|v vs]; [reflexivity|]. simpl. destruct (c =? g); simpl; [f_equal|]; apply IH.
Qed.

Lemma fold_subst (op : xval -> xval -> xval) (u : xval) m : (forall y, op u y = y) ->
  fold_right (fun x acc => op x acc) u (map (subst_nan u) m) = fold_right (fun x acc => op x acc) u (dropnan m).
Proof.
  intros Hu. induction m as [|x r IH]; [reflexivity|]. unfold dropnan in *. cbn [map fold_right filter].
  unfold subst_nan at 1, notnan. destruct (is_nan x); cbn [negb fold_right]; rewrite IH; [apply Hu| reflexivity].
Qed.

Lemma subst_sum m : kern OSum (map (subst_nan (Fin 0)) m) = kern ONansum m.
Proof.
  unfold kern. simpl. rewrite !run_red_unfold. simpl. unfold fold_red. cbn [r_m r_pre m_op pre_fn m_unit].
  apply (fold_subst xadd (Fin 0) m xadd_0_l).
Qed.

Lemma subst_prod m : kern OProd (map (subst_nan (Fin 1)) m) = kern ONanprod m.
Proof.
  unfold kern. simpl. rewrite !run_red_unfold. simpl. unfold fold_red. cbn [r_m r_pre m_op pre_fn m_unit].
  apply (fold_subst xmul (Fin 1) m xmul_1_l).
Qed.

Lemma subst_max m : kern OMax (map (subst_nan NInf) m) = kern ONanmax m.
Proof.
  unfold kern. simpl. rewrite !run_red_unfold. simpl. unfold fold_red. cbn [r_m r_pre m_op pre_fn m_unit].
  apply (fold_subst xmax NInf m xmax_ninf_l).
Qed.

Lemma subst_min m : kern OMin (map (subst_nan PInf) m) = kern ONanmin m.
Proof.
  unfold kern. simpl. rewrite !run_red_unfold. simpl. unfold fold_red. cbn [r_m r_pre m_op pre_fn m_unit].
  apply (fold_subst xmin PInf m xmin_pinf_l).
Qed.

Lemma count_valid m : kern OSum (map (fun x => of_bool (notnan x)) m) = Fin (zlen (dropnan m)).
Proof.
  unfold kern. simpl. rewrite run_red_unfold. simpl. unfold fold_red, zlen. cbn [r_m r_pre m_op pre_fn m_unit].
  induction m as [|x r IH]; [reflexivity|]. cbn [map fold_right]. rewrite IH. unfold dropnan. cbn [filter].
  unfold notnan. destruct (is_nan x); cbn [negb of_bool xadd length]; f_equal; lia.
Qed.

Lemma kern_nanlen_count X : kern ONanlen X = Fin (zlen (dropnan X)).
Proof.
  unfold kern. simpl. rewrite run_red_unfold. simpl. unfold zlen.
  induction (dropnan X) as [|x r IH]; [reflexivity|].
  unfold fold_red in *. cbn [fold_right r_m r_pre m_op pre_fn m_unit] in *. rewrite IH.
  cbn [xadd length]. f_equal. lia.
Qed.

(* the reference every engine is compared with: reducer on the members, fill when the group is
   absent, and for nanmax/nanmin also when it holds only NaNs (numpy_groupies' convention, which
   flox's min_count=1 default for these two turns into NaN) *)
Definition ref_kernel (o : opname) (fill : xval) (codes : list Z) (vals : list xval) (g : Z) : xval :=
  match vals_of g codes vals with
  | [] => fill
  | m => match o with
         | ONanmax | ONanmin => match dropnan m with [] => fill | _ => kern o m end
         | _ => kern o m
         end
  end.

Lemma map_nil_iff {A B} (f : A -> B) l : map f l = [] <-> l = [].
Proof. destruct l; simpl; split; congruence. Qed.

Theorem flox_kernel_correct o fill codes vals g :
  In o [OSum; OProd; OMax; OMin; ONansum; ONanprod; ONanlen] ->
  flox_kernel o fill codes vals g = ref_kernel o fill codes vals g.
Proof.
  intros Ho. unfold ref_kernel.
  destruct Ho as [<-|[<-|[<-|[<-|[<-|[<-|[<-|[]]]]]]]]; cbn [flox_kernel];
    try (apply flox_plain_correct).
  - unfold flox_nan. rewrite flox_plain_correct, vals_of_map.
    destruct (vals_of g codes vals) as [|x r]; [reflexivity|]. cbn [map]. rewrite <- subst_sum. reflexivity.
  - unfold flox_nan. rewrite flox_plain_correct, vals_of_map.
    destruct (vals_of g codes vals) as [|x r]; [reflexivity|]. cbn [map]. rewrite <- subst_prod. reflexivity.
  - rewrite flox_plain_correct, vals_of_map.
    destruct (vals_of g codes vals) as [|x r]; [reflexivity|]. cbn [map].
    change (of_bool (notnan x) :: map (fun x0 => of_bool (notnan x0)) r) with (map (fun x0 => of_bool (notnan x0)) (x :: r)).
    rewrite count_valid. symmetry. apply kern_nanlen_count.
Qed.

Lemma kern_nanmax_notfill m : dropnan m <> [] -> is_nan (kern ONanmax m) = false.
Proof. intros _. unfold kern. simpl. apply image_nanfree_sound; reflexivity. Qed.

(* nanmax / nanmin of engine="flox" after the repair: the group is reset to the fill only when it
   has no valid member; a genuine -inf / +inf extreme is kept *)
Theorem flox_nanmax_correct fill codes vals g :
  flox_kernel ONanmax fill codes vals g = ref_kernel ONanmax fill codes vals g.
Proof.
  cbn [flox_kernel]. unfold flox_nan, ref_kernel. rewrite !flox_plain_correct, !vals_of_map.
  destruct (vals_of g codes vals) as [|x r] eqn:Em; [cbn [map]; destruct (xval_eqb fill NInf && xval_eqb (Fin 0) (Fin 0)); reflexivity|].
  cbn [map].
  change (subst_nan NInf x :: map (subst_nan NInf) r) with (map (subst_nan NInf) (x :: r)).
  change (of_bool (notnan x) :: map (fun x0 => of_bool (notnan x0)) r) with (map (fun x0 => of_bool (notnan x0)) (x :: r)).
  rewrite subst_max, count_valid.
  destruct (dropnan (x :: r)) as [|y q] eqn:Ed.
  - (* all NaN *)
    assert (E : kern ONanmax (x :: r) = NInf).
    { unfold kern. cbn [red_of]. rewrite run_red_unfold. cbn [r_skip]. rewrite Ed. reflexivity. }
    rewrite E. reflexivity.
  - unfold zlen. simpl length.
    assert (Hf : xval_eqb (Fin (Z.of_nat (S (length q)))) (Fin 0) = false) by (cbn [xval_eqb]; apply Z.eqb_neq; lia).
    rewrite Hf. now rewrite andb_false_r.
Qed.

Theorem flox_nanmin_correct fill codes vals g :
  flox_kernel ONanmin fill codes vals g = ref_kernel ONanmin fill codes vals g.
Proof.
  cbn [flox_kernel]. unfold flox_nan, ref_kernel. rewrite !flox_plain_correct, !vals_of_map.
  destruct (vals_of g codes vals) as [|x r] eqn:Em; [cbn [map]; destruct (xval_eqb fill PInf && xval_eqb (Fin 0) (Fin 0)); reflexivity|].
  cbn [map].
  change (subst_nan PInf x :: map (subst_nan PInf) r) with (map (subst_nan PInf) (x :: r)).
  change (of_bool (notnan x) :: map (fun x0 => of_bool (notnan x0)) r) with (map (fun x0 => of_bool (notnan x0)) (x :: r)).
  rewrite subst_min, count_valid.
  destruct (dropnan (x :: r)) as [|y q] eqn:Ed.
  - assert (E : kern ONanmin (x :: r) = PInf).
    { unfold kern. cbn [red_of]. rewrite run_red_unfold. cbn [r_skip]. rewrite Ed. reflexivity. }
    rewrite E. reflexivity.
  - unfold zlen. simpl length.
    assert (Hf : xval_eqb (Fin (Z.of_nat (S (length q)))) (Fin 0) = false) by (cbn [xval_eqb]; apply Z.eqb_neq; lia).
    rewrite Hf. now rewrite andb_false_r.
Qed.

(* numpy_groupies as wrapped by aggregate_npg *)
Theorem npg_kernel_correct o fill codes vals g :
  In o [OSum; OProd; OMax; OMin; ONansum; ONanprod; ONanlen; ONanmax; ONanmin; OSumSq; ONansumSq; OAll; OAny; ONanfirst; ONanlast] ->
  npg_kernel o fill codes vals g = ref_kernel o fill codes vals g.
Proof.
  intros Ho. unfold ref_kernel, npg_kernel, npg_plain.
  repeat (destruct Ho as [<-|Ho]); try destruct Ho; try reflexivity.
  - rewrite vals_of_map. destruct (vals_of g codes vals) as [|x r]; [reflexivity|]. cbn [map]. rewrite <- subst_sum. reflexivity.
  - rewrite vals_of_map. destruct (vals_of g codes vals) as [|x r]; [reflexivity|]. cbn [map]. rewrite <- subst_prod. reflexivity.
  - destruct (vals_of g codes vals) as [|x r]; [reflexivity|].
    destruct (dropnan (x :: r)) as [|y q] eqn:Ed; [reflexivity|].
    unfold kern. cbn [red_of]. rewrite !run_red_unfold. cbn [r_skip]. rewrite Ed.
    replace (dropnan (y :: q)) with (y :: q); [reflexivity|].
    symmetry. rewrite <- Ed. unfold dropnan. apply forallb_filter_id'. apply forallb_forall.
    intros z Hz. apply filter_In in Hz. tauto.
  - destruct (vals_of g codes vals) as [|x r]; [reflexivity|].
    destruct (dropnan (x :: r)) as [|y q] eqn:Ed; [reflexivity|].
    unfold kern. cbn [red_of]. rewrite !run_red_unfold. cbn [r_skip]. rewrite Ed.
    replace (dropnan (y :: q)) with (y :: q); [reflexivity|].
    symmetry. rewrite <- Ed. unfold dropnan. apply forallb_filter_id'. apply forallb_forall.
    intros z Hz. apply filter_In in Hz. tauto.
Qed.
