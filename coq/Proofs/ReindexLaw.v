(* laws of the reindex model: one slot per label of [to], in the order of [to]; each slot holds the value paired with its label,
   or the fill; reindexing to the same labels is the identity (the "trivial case" shortcut of reindex_), and reindexing to a
   permutation keeps every label paired with its own value. *)
From Coq Require Import ZArith List Bool Lia Permutation.
From Flox Require Import Factorize Reindex.
Import ListNotations.
Open Scope Z_scope.

Lemma reindex_length {A} from_ to (fill : A) vals : length (reindex from_ to fill vals) = length to.
Proof. unfold reindex. apply map_length. Qed.

Lemma reindex_nth {A} from_ to (fill : A) vals : forall j l d,
  nth_error to j = Some l -> nth j (reindex from_ to fill vals) d = lookup l from_ vals fill.
Proof.
  unfold reindex. induction to as [|x r IH]; intros j l d H; [destruct j; discriminate|].
  destruct j as [|j]; simpl in *; [now injection H as ->| now apply IH].
Qed.

Lemma lookup_absent {A} l from_ (vals : list A) fill : ~ In l from_ -> lookup l from_ vals fill = fill.
Proof.
  revert vals. induction from_ as [|x fr IH]; intros vals H; simpl; [reflexivity|].
  destruct vals as [|v vr]; [reflexivity|].
  destruct (Z.eqb_spec x l) as [->|_]; [exfalso; apply H; now left|]. apply IH. intro Hin. apply H. now right.
Qed.

Lemma lookup_present {A} from_ : forall (vals : list A) fill i l v,
  NoDup from_ -> nth_error from_ i = Some l -> nth_error vals i = Some v -> lookup l from_ vals fill = v.
Proof.
  induction from_ as [|x fr IH]; intros vals fill i l v Hnd Hl Hv; [destruct i; discriminate|].
  destruct vals as [|w vr]; [destruct i; discriminate|]. simpl.
  destruct i as [|i]; simpl in Hl, Hv.
  - injection Hl as ->. injection Hv as ->. now rewrite Z.eqb_refl.
  - inversion Hnd as [|? ? Hx Hnd']; subst.
    destruct (Z.eqb_spec x l) as [->|_]; [exfalso; apply Hx; eapply nth_error_In; eauto|].
    eapply IH; eauto.
Qed.

(* the trivial case: same labels in the same order -> the values themselves *)
Lemma reindex_same {A} from_ : forall (vals : list A) fill, NoDup from_ -> length vals = length from_ -> reindex from_ from_ fill vals = vals.
Proof.
  intros vals fill Hnd Hl. apply nth_ext with (d := fill) (d' := fill); [now rewrite reindex_length|].
  intros j Hj. rewrite reindex_length in Hj.
  destruct (nth_error from_ j) as [l|] eqn:El; [|apply nth_error_None in El; lia].
  rewrite (reindex_nth _ _ _ _ _ _ _ El).
  assert (Hv : nth_error vals j = Some (nth j vals fill)) by (apply nth_error_nth'; lia).
  eapply lookup_present; eauto.
Qed.

(* THE REINDEX LAW *)
Theorem reindex_slot {A} from_ to (fill : A) vals j l :
  NoDup from_ -> length vals = length from_ -> nth_error to j = Some l ->
  (forall i, nth_error from_ i = Some l -> nth j (reindex from_ to fill vals) fill = nth i vals fill) /\
  (~ In l from_ -> nth j (reindex from_ to fill vals) fill = fill).
Proof.
  intros Hnd Hlen Hj. rewrite (reindex_nth _ _ _ _ _ _ _ Hj). split.
  - intros i Hi. assert (Hv : nth_error vals i = Some (nth i vals fill)).
    { apply nth_error_nth'. rewrite Hlen. apply nth_error_Some. congruence. }
    eapply lookup_present; eauto.
  - apply lookup_absent.
Qed.

Example reindex_example : reindex [30; 10; 20] [10; 20; 30; 40] (-1) [3; 1; 2] = [1; 2; 3; -1].
Proof. reflexivity. Qed.
