(* C08: the n-d plumbing (move the reduced axes last, collapse them, offset the codes row by row, reduce the flattened
   array) is the slice-by-slice 1-D grouped reduction, for arrays of ANY number of dimensions and ANY subset of axes in
   ANY order. *)
From Coq Require Import ZArith List Bool Lia.
From Flox Require Import ListX Val Agg Spec Pipeline PipelineLaw Binning BinningLaw C08Proofs NdShape NdShapeLaw.
Import ListNotations.

Lemma Forall_nth_default {A} (P : A -> Prop) l d k : Forall P l -> P d -> P (nth k l d).
Proof.
  intros Hl Hd. destruct (Nat.lt_ge_cases k (length l)) as [H|H].
  - rewrite Forall_forall in Hl. apply Hl. now apply nth_In.
  - now rewrite nth_overflow.
Qed.

Lemma Forall_firstn {A} (P : A -> Prop) n : forall l, Forall P l -> Forall P (firstn n l).
Proof. induction n as [|n IH]; intros [|x l] H; simpl; try constructor; inversion H; subst; auto. Qed.
Lemma Forall_skipn {A} (P : A -> Prop) n : forall l, Forall P l -> Forall P (skipn n l).
Proof. induction n as [|n IH]; intros [|x l] H; simpl; auto. inversion H; subst; auto. Qed.

Lemma Forall_rows {A} (P : A -> Prop) R C : forall l, Forall P l -> Forall (Forall P) (rows R C l).
Proof.
  induction R as [|R IH]; intros l H; simpl; constructor.
  - now apply Forall_firstn.
  - apply IH. now apply Forall_skipn.
Qed.

Lemma Forall2_row_lengths {A B} C : forall (l1 : list (list A)) (l2 : list (list B)),
  length l1 = length l2 -> Forall (fun r => length r = C) l1 -> Forall (fun r => length r = C) l2 ->
  Forall2 (fun x y => length x = length y) l1 l2.
Proof.
  induction l1 as [|x r IH]; intros [|y r2] Hl H1 H2; simpl in *; try discriminate; constructor.
  - inversion H1; inversion H2; subst. congruence.
  - inversion H1; inversion H2; subst. apply IH; auto.
Qed.

Open Scope Z_scope.

Theorem partial_axis_slicewise :
  forall ng (a : nd xval) (c : nd Z) axis ki g dv,
    0 < ng -> 0 <= g < ng ->
    shape c = shape a ->
    Forall (fun x => -1 <= x < ng) (data c) ->
    let n := length (shape a) in
    let kept := perm_shape (kept_axes n axis) (shape a) in
    let red := perm_shape axis (shape a) in
    in_range kept ki ->
    vals_of (g + Z.of_nat (ravel kept ki) * ng)
            (offset_all ng 0 (rows (nprod kept) (nprod red) (data (plumb Z 0 axis c))))
            (concat (rows (nprod kept) (nprod red) (data (plumb xval dv axis a))))
    = vals_of g (slice Z 0 axis c ki) (slice xval dv axis a ki).
Proof.
  intros ng a c axis ki g dv Hng Hg Hsh Hcodes n kept red Hk.
  assert (HlenC : length (data (plumb Z 0 axis c)) = (nprod kept * nprod red)%nat).
  { rewrite plumb_wf, plumb_shape, Hsh, nprod_app. fold n kept red. cbn [nprod]. lia. }
  assert (HlenA : length (data (plumb xval dv axis a)) = (nprod kept * nprod red)%nat).
  { rewrite plumb_wf, plumb_shape, nprod_app. fold n kept red. cbn [nprod]. lia. }
  rewrite flattened_slicewise; try assumption.
  - pose proof (plumb_row xval dv a axis ki) as Ha. cbv zeta in Ha. fold n kept red in Ha. rewrite Ha by exact Hk.
    pose proof (plumb_row Z 0 c axis ki) as Hc. cbv zeta in Hc. rewrite Hsh in Hc. fold n kept red in Hc.
    rewrite Hc by exact Hk. reflexivity.
  - apply Forall_rows. unfold plumb, collapse_axis, move_reduce_dims_to_end, transpose. cbn [data].
    apply Forall_forall. intros x Hx. apply in_map_iff in Hx. destruct Hx as [k [<- _]].
    unfold get. apply Forall_nth_default; [exact Hcodes| lia].
  - now rewrite !rows_length.
  - apply (Forall2_row_lengths (nprod red)).
    + now rewrite !rows_length.
    + now apply rows_row_length.
    + now apply rows_row_length.
  - rewrite rows_length. apply ravel_lt. exact Hk.
Qed.

(* non-vacuity: a 2 x 3 x 2 array reduced over axes (2, 0) [given in that order] *)
Example plumbing_example :
  let a := mkNd [2; 3; 2]%nat (map Fin [0; 1; 2; 3; 4; 5; 6; 7; 8; 9; 10; 11]) in
  slice xval NaN [2; 0]%nat a [1%nat] = map Fin [2; 8; 3; 9] /\
  data (plumb xval NaN [2; 0]%nat a) = map Fin [0; 6; 1; 7; 2; 8; 3; 9; 4; 10; 5; 11].
Proof. vm_compute. split; reflexivity. Qed.
