(* C09 lemmas about the cohort planner model. *)
From Coq Require Import ZArith String List Bool Lia Permutation.
From Flox Require Import Factorize FactorizeLaw Rechunk Cohorts.
Import ListNotations.
Open Scope Z_scope.

(* ---------- the incidence relation is exact ---------- *)
Lemma zenum_from_In {A} (l : list A) : forall i k x,
  In (k, x) (zenum_from i l) <-> exists n, k = i + Z.of_nat n /\ nth_error l n = Some x.
Proof.
  induction l as [|y r IH]; intros i k x; simpl.
  - split; [tauto| intros [n [_ H]]; destruct n; discriminate].
  - rewrite IH. split.
    + intros [[= <- <-]|[n [-> Hn]]]; [exists 0%nat; split; [lia|reflexivity]| exists (S n); split; [lia| exact Hn]].
    + intros [[|n] [-> Hn]]; simpl in Hn.
      * left. inversion Hn. f_equal. lia.
      * right. exists n. split; [lia| exact Hn].
Qed.

Theorem chunks_of_label_spec blocks x n :
  In (Z.of_nat n) (chunks_of_label blocks x) <-> exists b, nth_error blocks n = Some b /\ In x b.
Proof.
  unfold chunks_of_label. rewrite in_map_iff. split.
  - intros [[k b] [Hk Hin]]. simpl in Hk. subst k. apply filter_In in Hin. destruct Hin as [Hin Hm].
    apply zenum_from_In in Hin. destruct Hin as [m [Hm' Hb]]. assert (m = n) by lia. subst m.
    exists b. split; [exact Hb| now apply zmem_In].
  - intros [b [Hb Hx]]. exists (Z.of_nat n, b). split; [reflexivity|]. apply filter_In. split.
    + apply zenum_from_In. exists n. split; [lia| exact Hb].
    + simpl. now apply zmem_In.
Qed.

(* ---------- exact cohorts (toolz.groupby) ---------- *)
Lemma list_eqb_eq a b : list_eqb a b = true <-> a = b.
Proof.
  revert b. induction a as [|x a IH]; intros [|y b]; simpl; try (split; [discriminate|congruence]); [split; reflexivity|].
  rewrite andb_true_iff, Z.eqb_eq, IH. split; [intros [-> ->]; reflexivity| intros [= -> ->]; auto].
Qed.

Definition keys_distinct (gs : list (list Z * list Z)) : Prop := NoDup (map fst gs).
Definition all_labels (gs : list (list Z * list Z)) : list Z := concat (map snd gs).

Lemma add_to_group_labels key x gs : Permutation (all_labels (add_to_group key x gs)) (x :: all_labels gs).
Proof.
  unfold all_labels. induction gs as [|[k xs] r IH]; simpl; [reflexivity|].
  destruct (list_eqb k key); simpl.
  - rewrite <- app_assoc. simpl. rewrite <- Permutation_middle. reflexivity.
  - rewrite IH. rewrite Permutation_middle. reflexivity.
Qed.

Lemma add_to_group_keys key x gs k : In k (map fst (add_to_group key x gs)) <-> k = key \/ In k (map fst gs).
Proof.
  induction gs as [|[k0 xs] r IH]; simpl; [split; [intros [<-|[]]; auto| intros [->|[]]; auto]|].
  destruct (list_eqb k0 key) eqn:E; simpl.
  - apply list_eqb_eq in E. subst k0. split; [intros [->|H]; auto| intros [->|[->|H]]; auto].
  - rewrite IH. split; [intros [->|[->|H]]; auto| intros [->|[->|H]]; auto].
Qed.

Lemma add_to_group_distinct key x gs : keys_distinct gs -> keys_distinct (add_to_group key x gs).
Proof.
  unfold keys_distinct. induction gs as [|[k xs] r IH]; simpl; intros H; [constructor; [tauto|constructor]|].
  inversion H; subst. destruct (list_eqb k key) eqn:E; simpl; [now constructor|].
  constructor; [|now apply IH]. rewrite add_to_group_keys. intros [->|Hin]; [|contradiction].
  assert (list_eqb key key = true) by now apply list_eqb_eq. congruence.
Qed.

(* every member of a group has exactly the group's key as its block list *)
Definition groups_exact (lc : list (Z * list Z)) (gs : list (list Z * list Z)) : Prop :=
  forall k xs x, In (k, xs) gs -> In x xs -> In (x, k) lc.

Lemma add_to_group_exact lc key x gs : In (x, key) lc -> groups_exact lc gs -> groups_exact lc (add_to_group key x gs).
Proof.
  intros Hx. induction gs as [|[k0 xs0] r IH]; intros HG k xs y Hin Hy; simpl in Hin.
  - destruct Hin as [[= <- <-]|[]]. destruct Hy as [<-|[]]. exact Hx.
  - destruct (list_eqb k0 key) eqn:E.
    + apply list_eqb_eq in E. subst k0. destruct Hin as [[= <- <-]|Hin].
      * apply in_app_or in Hy. destruct Hy as [Hy|[<-|[]]]; [|exact Hx]. eapply HG; [left; reflexivity| exact Hy].
      * eapply HG; [right; exact Hin| exact Hy].
    + destruct Hin as [[= <- <-]|Hin]; [eapply HG; [left; reflexivity| exact Hy]|].
      apply (IH (fun k' xs' x' H1 H2 => HG k' xs' x' (or_intror H1) H2) k xs y Hin Hy).
Qed.

Theorem group_by_chunks_spec lc :
  let gs := group_by_chunks lc in
  keys_distinct gs /\ Permutation (all_labels gs) (map fst lc) /\ groups_exact lc gs.
Proof.
  unfold group_by_chunks.
  assert (H : forall lc' gs0, (forall l, In l lc' -> In l lc) ->
             keys_distinct gs0 -> groups_exact lc gs0 ->
             let gs := fold_left (fun gs l => add_to_group (snd l) (fst l) gs) lc' gs0 in
             keys_distinct gs /\ Permutation (all_labels gs) (all_labels gs0 ++ map fst lc') /\ groups_exact lc gs).
  { induction lc' as [|[x key] r IH]; intros gs0 Hsub Hd He; simpl.
    - rewrite app_nil_r. auto.
    - destruct (IH (add_to_group key x gs0)) as [H1 [H2 H3]].
      + intros l Hl. apply Hsub. now right.
      + now apply add_to_group_distinct.
      + apply add_to_group_exact; [apply Hsub; now left| exact He].
      + split; [exact H1|]. split; [|exact H3]. simpl in H2. rewrite H2, add_to_group_labels.
        simpl. rewrite <- Permutation_middle. reflexivity. }
  destruct (H lc [] (fun l Hl => Hl)) as [H1 [H2 H3]]; [constructor| intros k xs x []|].
  auto.
Qed.
