(* _normalize_indexes selects, on every axis, exactly the requested blocks (sorted, without repetition),
   whichever of its three output forms (int / slice / list) it picks. *)
From Coq Require Import ZArith String List Bool Lia.
From Flox Require Import Factorize FactorizeLaw NormIdx.
Import ListNotations.
Open Scope Z_scope.

Lemma list_zeqb_eq a : forall b, list_zeqb a b = true -> a = b.
Proof.
  induction a as [|x a IH]; intros [|y b]; simpl; try discriminate; [reflexivity|].
  intros H. apply andb_prop in H. destruct H as [H1 H2]. apply Z.eqb_eq in H1. subst. f_equal. now apply IH.
Qed.

Lemma last_in_nonempty (l : list Z) d : l <> [] -> In (last l d) l.
Proof.
  induction l as [|x r IH]; [congruence|]. intros _. destruct r as [|y r']; [now left|].
  right. apply IH. discriminate.
Qed.

Theorem normalize_axis_selects idx n :
  idx <> [] -> (forall i, In i idx -> 0 <= i < n) ->
  select (normalize_axis idx n) n = zsort (zuniq idx).
Proof.
  intros Hne Hrange. unfold normalize_axis.
  set (u := zsort (zuniq idx)).
  assert (Hu : forall i, In i u -> 0 <= i < n).
  { intros i Hi. apply Hrange. unfold u in Hi.
    apply (Permutation.Permutation_in i (Permutation.Permutation_sym (zsort_perm _))) in Hi. apply (proj1 (zuniq_In _ _)) in Hi. exact Hi. }
  assert (Hune : u <> []).
  { destruct idx as [|x r]; [congruence|]. intros E.
    assert (In x u). { unfold u. apply (Permutation.Permutation_in x (zsort_perm _)). apply (proj2 (zuniq_In _ _)). now left. }
    rewrite E in H. destruct H. }
  destruct u as [|x [|y r]] eqn:Eu; [congruence| reflexivity|].
  rewrite <- Eu in *.
  destruct ((Z.of_nat (length u) =? n) && list_zeqb u (zrange_from 0 (Z.to_nat n))) eqn:E1.
  - apply andb_prop in E1. destruct E1 as [_ E1]. apply list_zeqb_eq in E1. simpl. rewrite Z.sub_0_r. now rewrite <- E1.
  - destruct (list_zeqb u (zrange_from (hd 0 u) (Z.to_nat (last u 0 + 1 - hd 0 u)))) eqn:E2; [|reflexivity].
    apply list_zeqb_eq in E2.
    assert (Hf : 0 <= hd 0 u < n) by (apply Hu; rewrite Eu; now left).
    assert (Hl : 0 <= last u 0 < n) by (apply Hu; apply last_in_nonempty; exact Hune).
    unfold select.
    destruct (Z.eqb_spec (hd 0 u) 0) as [E0|E0]; destruct (Z.eqb_spec (last u 0 + 1) n) as [En|En].
    + rewrite E0 in E2. rewrite En in E2. rewrite Z.sub_0_r in *. now rewrite <- E2.
    + rewrite E0 in E2. rewrite Z.sub_0_r in *. now rewrite <- E2.
    + rewrite En in E2. now rewrite <- E2.
    + now rewrite <- E2.
Qed.

Example normalize_examples :
  normalize_axis [3; 1; 2; 2] 5 = ISlice (Some 1) (Some 4) /\
  normalize_axis [0; 2; 3; 6] 7 = IList [0; 2; 3; 6] /\
  normalize_axis [2; 0; 1] 3 = ISlice None None /\ normalize_axis [4; 4] 6 = IInt 4.
Proof. repeat split; reflexivity. Qed.
