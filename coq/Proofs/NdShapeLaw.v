(* Laws of the n-d plumbing model (NdShape.v): C-order ravel/unravel are inverse, and after
   _move_reduce_dims_to_end + _collapse_axis the element at (kept index ki, column ravel(ri)) is the element of the original
   array whose index has ki on the kept axes and ri on the reduced axes. *)
From Coq Require Import List Arith Bool Lia.
From Flox Require Import NdShape.
Import ListNotations.

Lemma nprod_app s1 s2 : nprod (s1 ++ s2) = nprod s1 * nprod s2.
Proof. induction s1 as [|n r IH]; simpl; [lia|]. rewrite IH. lia. Qed.

Lemma in_range_length s : forall idx, in_range s idx -> length idx = length s.
Proof.
  induction s as [|n r IH]; intros [|i ir] H; simpl in *; try contradiction; [reflexivity|].
  destruct H as [_ H]. f_equal. now apply IH.
Qed.

Lemma in_range_app s1 : forall s2 i1 i2, in_range s1 i1 -> in_range s2 i2 -> in_range (s1 ++ s2) (i1 ++ i2).
Proof.
  induction s1 as [|n r IH]; intros s2 [|i ir] i2 H1 H2; simpl in *; try contradiction; [exact H2|].
  destruct H1 as [Hi H1]. split; [exact Hi| now apply IH].
Qed.

Lemma ravel_lt s : forall idx, in_range s idx -> ravel s idx < nprod s.
Proof.
  induction s as [|n r IH]; intros [|i ir] H; simpl in *; try contradiction; [lia|].
  destruct H as [Hi H]. specialize (IH _ H). nia.
Qed.

Lemma nprod_pos_of_range s : forall idx, in_range s idx -> 0 < nprod s.
Proof. intros idx H. pose proof (ravel_lt s idx H). lia. Qed.

Lemma unravel_ravel s : forall idx, in_range s idx -> unravel s (ravel s idx) = idx.
Proof.
  induction s as [|n r IH]; intros [|i ir] H; simpl in *; try contradiction; [reflexivity|].
  destruct H as [Hi H]. pose proof (ravel_lt r ir H) as Hlt.
  assert (Hpos : nprod r <> 0) by lia.
  f_equal.
  - rewrite Nat.div_add_l by exact Hpos. rewrite Nat.div_small by exact Hlt. lia.
  - rewrite Nat.add_comm, Nat.mod_add by exact Hpos. rewrite Nat.mod_small by exact Hlt. now apply IH.
Qed.

Lemma unravel_in_range s : forall k, k < nprod s -> in_range s (unravel s k).
Proof.
  induction s as [|n r IH]; intros k Hk; simpl in *; [exact I|].
  assert (Hpos : nprod r <> 0) by (intro E; rewrite E in Hk; lia).
  split.
  - apply Nat.div_lt_upper_bound; [exact Hpos| lia].
  - apply IH. apply Nat.mod_upper_bound. exact Hpos.
Qed.

Lemma ravel_unravel s : forall k, k < nprod s -> ravel s (unravel s k) = k.
Proof.
  induction s as [|n r IH]; intros k Hk; simpl in *; [lia|].
  assert (Hpos : nprod r <> 0) by (intro E; rewrite E in Hk; lia).
  rewrite IH by (apply Nat.mod_upper_bound; exact Hpos).
  pose proof (Nat.div_mod k (nprod r) Hpos). lia.
Qed.

Lemma ravel_app s1 : forall s2 i1 i2, length i1 = length s1 ->
  ravel (s1 ++ s2) (i1 ++ i2) = ravel s1 i1 * nprod s2 + ravel s2 i2.
Proof.
  induction s1 as [|n r IH]; intros s2 [|i ir] i2 H; simpl in *; try discriminate; [lia|].
  injection H as H. rewrite IH by exact H. rewrite nprod_app. lia.
Qed.

Lemma nth_map_seq {A} (d : A) (f : nat -> A) N k : k < N -> nth k (map f (seq 0 N)) d = f k.
Proof.
  intros H. rewrite nth_indep with (d' := f 0) by (rewrite map_length, seq_length; exact H).
  rewrite map_nth. now rewrite seq_nth by exact H.
Qed.

Section Laws.
  Variable A : Type.
  Variable d : A.

  (* transpose: the element at new index idx' is the old element at unperm order idx' *)
  Lemma get_transpose order (a : nd A) idx' :
    in_range (perm_shape order (shape a)) idx' ->
    get A d (transpose A d order a) idx' = get A d a (unperm order idx').
  Proof.
    intros H. unfold get at 1. unfold transpose. cbn [shape data].
    rewrite nth_map_seq by (apply ravel_lt; exact H).
    now rewrite unravel_ravel by exact H.
  Qed.

  (* collapse: C-order reshape of the trailing axes *)
  Lemma get_collapse (a : nd A) s1 s2 i1 i2 :
    shape a = s1 ++ s2 -> length i1 = length s1 -> 
    get A d (collapse_axis A (length s2) a) (i1 ++ [ravel s2 i2]) = get A d a (i1 ++ i2).
  Proof.
    intros Hs Hl. unfold get, collapse_axis. cbn [shape data]. rewrite Hs.
    replace (length (s1 ++ s2) - length s2) with (length s1) by (rewrite app_length; lia).
    rewrite firstn_app, Nat.sub_diag, firstn_all, firstn_O, app_nil_r.
    rewrite skipn_app, Nat.sub_diag, skipn_all, skipn_O. cbn [app].
    rewrite !ravel_app by exact Hl. f_equal. cbn [ravel nprod]. lia.
  Qed.

  Lemma perm_shape_app o1 o2 s : perm_shape (o1 ++ o2) s = perm_shape o1 s ++ perm_shape o2 s.
  Proof. unfold perm_shape. apply map_app. Qed.

  Lemma perm_shape_length o s : length (perm_shape o s) = length o.
  Proof. unfold perm_shape. apply map_length. Qed.

  (* THE PLUMBING THEOREM: row ki, column ravel(ri) of the collapsed array is the original element whose index is
     unperm (kept ++ axis) (ki ++ ri), i.e. has ki on the kept axes and ri on the reduced axes (see unperm_spec) *)
  Theorem plumb_get (a : nd A) axis ki ri :
    let n := length (shape a) in
    in_range (perm_shape (kept_axes n axis) (shape a)) ki ->
    in_range (perm_shape axis (shape a)) ri ->
    get A d (plumb A d axis a) (ki ++ [ravel (perm_shape axis (shape a)) ri])
    = get A d a (unperm (move_order n axis) (ki ++ ri)).
  Proof.
    intros n Hk Hr. unfold plumb, move_reduce_dims_to_end. fold n.
    set (t := transpose A d (move_order n axis) a).
    assert (Hst : shape t = perm_shape (kept_axes n axis) (shape a) ++ perm_shape axis (shape a)).
    { unfold t, transpose. cbn [shape]. unfold move_order. apply perm_shape_app. }
    replace (length axis) with (length (perm_shape axis (shape a))) by apply perm_shape_length.
    rewrite (get_collapse t _ _ ki ri Hst) by (now apply in_range_length).
    unfold t. apply get_transpose. unfold move_order. rewrite perm_shape_app. now apply in_range_app.
  Qed.

  (* the plumbed array is well formed: as many data as its shape says, and the same number as before *)
  Lemma plumb_wf (a : nd A) axis :
    length (data (plumb A d axis a)) = nprod (shape (plumb A d axis a)).
  Proof.
    unfold plumb, collapse_axis, move_reduce_dims_to_end, transpose. cbn [shape data].
    rewrite map_length, seq_length. rewrite nprod_app. cbn [nprod]. rewrite Nat.mul_1_r.
    rewrite <- nprod_app. now rewrite firstn_skipn.
  Qed.
End Laws.

(* what unperm means: the old index carries idx'[j] on axis order[j] *)
Lemma index_of_nth order : NoDup order -> forall j, j < length order -> index_of (nth j order 0) order = j.
Proof.
  induction 1 as [|x r Hx _ IH]; intros j Hj; simpl in *; [lia|].
  destruct j as [|j].
  - now rewrite Nat.eqb_refl.
  - destruct (Nat.eqb_spec (nth j r 0) x) as [E|_].
    + exfalso. apply Hx. rewrite <- E. apply nth_In. lia.
    + f_equal. apply IH. lia.
Qed.

Theorem unperm_spec order idx' j :
  NoDup order -> j < length order -> nth j order 0 < length order ->
  nth (nth j order 0) (unperm order idx') 0 = nth j idx' 0.
Proof.
  intros Hnd Hj Hp. unfold unperm. rewrite nth_map_seq by exact Hp. now rewrite index_of_nth.
Qed.

(* move_order is a permutation of 0..n-1 when the axes are distinct and in range *)
Lemma kept_axes_spec n axis ax : In ax (kept_axes n axis) <-> ax < n /\ ~ In ax axis.
Proof.
  unfold kept_axes. rewrite filter_In, in_seq, negb_true_iff. unfold memn.
  split; intros [H1 H2]; (split; [lia|]).
  - intro Hin. assert (existsb (Nat.eqb ax) axis = true); [|congruence].
    apply existsb_exists. exists ax. split; [exact Hin| apply Nat.eqb_refl].
  - destruct (existsb (Nat.eqb ax) axis) eqn:E; [|reflexivity]. exfalso. apply H2.
    apply existsb_exists in E. destruct E as [y [Hy Ey]]. apply Nat.eqb_eq in Ey. now subst.
Qed.

Lemma NoDup_app_disjoint {T} (l1 l2 : list T) :
  NoDup l1 -> NoDup l2 -> (forall x, In x l1 -> ~ In x l2) -> NoDup (l1 ++ l2).
Proof.
  induction 1 as [|x r Hx _ IH]; intros H2 Hd; simpl; [exact H2|].
  constructor.
  - rewrite in_app_iff. intros [H|H]; [contradiction| apply (Hd x); [now left| exact H]].
  - apply IH; [exact H2|]. intros y Hy. apply Hd. now right.
Qed.

Theorem move_order_perm n axis :
  NoDup axis -> (forall ax, In ax axis -> ax < n) ->
  NoDup (move_order n axis) /\ (forall ax, In ax (move_order n axis) <-> ax < n) /\ length (move_order n axis) = n.
Proof.
  intros Hnd Hr. unfold move_order.
  assert (Hnd2 : NoDup (kept_axes n axis ++ axis)).
  { apply NoDup_app_disjoint; [apply NoDup_filter, seq_NoDup| exact Hnd|].
    intros x Hx Hx'. apply kept_axes_spec in Hx. tauto. }
  assert (Hin : forall ax, In ax (kept_axes n axis ++ axis) <-> ax < n).
  { intros ax. rewrite in_app_iff, kept_axes_spec. split.
    - intros [[H _]|H]; [exact H| now apply Hr].
    - intros H. destruct (in_dec Nat.eq_dec ax axis) as [Hi|Hi]; [now right| left; tauto]. }
  split; [exact Hnd2|]. split; [exact Hin|].
  (* a duplicate-free list whose elements are exactly 0..n-1 has length n *)
  assert (Hincl1 : incl (kept_axes n axis ++ axis) (seq 0 n)) by (intros x Hx; apply in_seq; apply Hin in Hx; lia).
  assert (Hincl2 : incl (seq 0 n) (kept_axes n axis ++ axis)) by (intros x Hx; apply Hin; apply in_seq in Hx; lia).
  pose proof (NoDup_incl_length Hnd2 Hincl1) as L1. pose proof (NoDup_incl_length (seq_NoDup n 0) Hincl2) as L2.
  rewrite seq_length in *. lia.
Qed.

(* ---- the collapsed array seen as a list of rows ---- *)
Fixpoint rows {A} (R C : nat) (l : list A) : list (list A) :=
  match R with 0 => [] | S R' => firstn C l :: rows R' C (skipn C l) end.

Lemma rows_length {A} R C (l : list A) : length (rows R C l) = R.
Proof. revert l; induction R as [|R IH]; intros l; simpl; [reflexivity| now rewrite IH]. Qed.

Lemma rows_row_length {A} R C : forall (l : list A), length l = R * C -> Forall (fun r => length r = C) (rows R C l).
Proof.
  induction R as [|R IH]; intros l H; simpl; constructor.
  - rewrite firstn_length. simpl in H. lia.
  - apply IH. rewrite skipn_length. simpl in H. lia.
Qed.

Lemma concat_rows {A} R C : forall (l : list A), length l = R * C -> concat (rows R C l) = l.
Proof.
  induction R as [|R IH]; intros l H; simpl in *.
  - destruct l; [reflexivity| discriminate].
  - rewrite IH by (rewrite skipn_length; lia). apply firstn_skipn.
Qed.

Lemma nth_rows {A} (d : A) R C : forall (l : list A) r, length l = R * C -> r < R ->
  nth r (rows R C l) [] = map (fun col => nth (r * C + col) l d) (seq 0 C).
Proof.
  induction R as [|R IH]; intros l r H Hr; [lia|]. simpl rows. destruct r as [|r].
  - cbn [nth]. simpl Nat.mul. cbn [plus].
    apply nth_ext with (d := d) (d' := d).
    + rewrite firstn_length, map_length, seq_length. simpl in H. lia.
    + intros k Hk. rewrite firstn_length in Hk. assert (k < C) by lia.
      rewrite nth_map_seq by assumption. rewrite <- (firstn_skipn C l) at 2.
      rewrite app_nth1 by (rewrite firstn_length; lia). reflexivity.
  - cbn [nth]. rewrite (IH (skipn C l) r) by (try rewrite skipn_length; simpl in H; lia).
    apply map_ext. intros col. rewrite <- (firstn_skipn C l) at 2.
    rewrite app_nth2 by (rewrite firstn_length; simpl in H; nia).
    rewrite firstn_length. f_equal. simpl in H. replace (Nat.min C (length l)) with C by lia. simpl. lia.
Qed.

Lemma collapse_shape (s1 s2 : list nat) :
  firstn (length (s1 ++ s2) - length s2) (s1 ++ s2) ++ [nprod (skipn (length (s1 ++ s2) - length s2) (s1 ++ s2))] = s1 ++ [nprod s2].
Proof.
  replace (length (s1 ++ s2) - length s2) with (length s1) by (rewrite app_length; lia).
  rewrite firstn_app, skipn_app, Nat.sub_diag, firstn_all, skipn_all, firstn_O, skipn_O. now rewrite app_nil_r.
Qed.

Section Rows.
  Variable A : Type.
  Variable d : A.

  (* the slice of a at kept index ki: its elements in C order of the reduced axes as listed *)
  Definition slice (axis : list nat) (a : nd A) (ki : list nat) : list A :=
    let n := length (shape a) in
    let red := perm_shape axis (shape a) in
    map (fun col => get A d a (unperm (move_order n axis) (ki ++ unravel red col))) (seq 0 (nprod red)).

  Lemma plumb_shape (a : nd A) axis :
    shape (plumb A d axis a)
    = perm_shape (kept_axes (length (shape a)) axis) (shape a) ++ [nprod (perm_shape axis (shape a))].
  Proof.
    unfold plumb, collapse_axis, move_reduce_dims_to_end, transpose. cbn [shape]. unfold move_order.
    rewrite perm_shape_app.
    replace (length axis) with (length (perm_shape axis (shape a))) by apply perm_shape_length.
    apply collapse_shape.
  Qed.

  Theorem plumb_row (a : nd A) axis ki :
    let n := length (shape a) in
    let kept := perm_shape (kept_axes n axis) (shape a) in
    let red := perm_shape axis (shape a) in
    in_range kept ki ->
    nth (ravel kept ki) (rows (nprod kept) (nprod red) (data (plumb A d axis a))) [] = slice axis a ki.
  Proof.
    intros n kept red Hk.
    pose proof (plumb_shape a axis) as Hs. fold n in Hs. fold kept red in Hs.
    assert (Hlen : length (data (plumb A d axis a)) = nprod kept * nprod red).
    { rewrite plumb_wf, Hs, nprod_app. cbn [nprod]. lia. }
    rewrite (nth_rows d) by (try exact Hlen; apply ravel_lt; exact Hk).
    unfold slice. fold n red. apply map_ext_in. intros col Hc. apply in_seq in Hc.
    assert (Hcr : in_range red (unravel red col)) by (apply unravel_in_range; lia).
    pose proof (plumb_get A d a axis ki (unravel red col) Hk Hcr) as Hg. cbv zeta in Hg. fold n red in Hg.
    rewrite ravel_unravel in Hg by lia. rewrite <- Hg.
    unfold get. f_equal. rewrite Hs.
    rewrite ravel_app by (now apply in_range_length). cbn [ravel nprod]. lia.
  Qed.
End Rows.

Lemma ravel_unravel_inverse :
  forall s, (forall idx, in_range s idx -> unravel s (ravel s idx) = idx) /\
            (forall k, k < nprod s -> ravel s (unravel s k) = k /\ in_range s (unravel s k)).
Proof.
  intros s. split; [apply unravel_ravel|]. intros k Hk. split; [now apply ravel_unravel| now apply unravel_in_range].
Qed.
