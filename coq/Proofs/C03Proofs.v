From Coq Require Import ZArith String List Bool.
From Flox Require Import FloxTree FloxTreeLaw ListX Val Agg Hom Spec Pipeline PipelineLaw Registry C04Proofs C02Proofs.
Import ListNotations.
Open Scope Z_scope.

Lemma tree_vals_leaves g (t t' : tree block) : leaves t = leaves t' -> tree_vals g t = tree_vals g t'.
Proof. unfold tree_vals. now intros ->. Qed.

Lemma tree_shape_simple :
  forall a, In a aggregations -> a_rtype a = Reduce ->
  forall chs cbs, a_chunk a = Some chs -> a_combine a = Some cbs ->
  forall kws mc fill (t t' : tree block) g, leaves t = leaves t' ->
    chunked_simple a kws mc fill t g = chunked_simple a kws mc fill t' g.
Proof.
  intros a Hin Hr chs cbs Hc Hb kws mc fill t t' g Hl.
  rewrite !(simple_any_tree a Hin Hr chs cbs Hc Hb). now rewrite (tree_vals_leaves g t t' Hl).
Qed.

Lemma tree_shape_grouped :
  forall a, In a aggregations -> a_rtype a = Reduce ->
  forall chs cbs, a_chunk a = Some chs -> a_combine a = Some cbs ->
  forall kws mc fill (t t' : tree block) g, leaves t = leaves t' ->
    chunked_grouped a kws mc fill t g = chunked_grouped a kws mc fill t' g.
Proof.
  intros a Hin Hr chs cbs Hc Hb kws mc fill t t' g Hl.
  rewrite !(grouped_any_tree a Hin Hr chs cbs Hc Hb). now rewrite (tree_vals_leaves g t t' Hl).
Qed.

(* serialisation of a tree shape, used by the K4 correspondence *)
Fixpoint ser (t : tree nat) : list nat :=
  match t with
  | Leaf a => [0; a]%nat
  | Node ts => (1 :: length ts :: concat (map ser ts))%nat
  end.

Fixpoint list_nat_eqb (a b : list nat) : bool :=
  match a, b with
  | [], [] => true
  | x :: a', y :: b' => Nat.eqb x y && list_nat_eqb a' b'
  | _, _ => false
  end.

Definition model_tree_ser (n k : nat) : list nat := ser (build_tree n k (map Leaf (seq 0 n))).
Definition tree_case_ok (c : nat * nat * list nat) : bool :=
  let '(n, k, real) := c in list_nat_eqb (model_tree_ser n k) real.

Example tree_7_2 : model_tree_ser 3 2 = [1;2; 1;2; 0;0; 0;1; 1;1; 0;2]%nat.
Proof. reflexivity. Qed.

(* K2 for flox's own tree builder: (number of blocks n, fan-in k, number of levels the REAL _tree_reduce used, the tree it wired):
   the depth suffices (n <= k^depth, the hypothesis of flox_tree_covers) and the wiring is the model's *)
Definition floxtree_case_ok (c : nat * nat * nat * list nat) : bool :=
  let '(n, k, depth, real) := c in
  N.leb (N.of_nat n) (N.of_nat k ^ N.of_nat depth) && Nat.leb 1 depth && list_nat_eqb (ser (flox_tree depth k (seq 0 n))) real.
