(* C17 lemmas: the rechunk heuristics always return well-formed chunks, and every new
   boundary of the blockwise helper is a position where the label changes. *)
From Coq Require Import ZArith String List Bool Lia.
From Flox Require Import Factorize FactorizeLaw Rechunk.
Import ListNotations.
Open Scope Z_scope.

Fixpoint zsum (l : list Z) : Z := match l with [] => 0 | x :: r => x + zsum r end.

(* strictly increasing *)
Fixpoint incr (l : list Z) : Prop :=
  match l with
  | a :: ((b :: _) as r) => a < b /\ incr r
  | _ => True
  end.

Lemma diffs_pos l : incr l -> Forall (fun d => 0 < d) (diffs l).
Proof.
  induction l as [|a r IH]; [constructor|]. destruct r as [|b r']; [constructor|].
  intros [Hab Hr]. simpl. constructor; [lia|]. apply IH. exact Hr.
Qed.

Lemma diffs_sum l : l <> [] -> zsum (diffs l) = last l 0 - hd 0 l.
Proof.
  induction l as [|a r IH]; [congruence|]. intros _. destruct r as [|b r']; [simpl; lia|].
  assert (IH' : zsum (diffs (b :: r')) = last (b :: r') 0 - hd 0 (b :: r')) by (apply IH; discriminate).
  change (diffs (a :: b :: r')) with ((b - a) :: diffs (b :: r')).
  change (zsum ((b - a) :: diffs (b :: r'))) with ((b - a) + zsum (diffs (b :: r'))).
  rewrite IH'. change (last (a :: b :: r') 0) with (last (b :: r') 0). cbn [hd]. lia.
Qed.

(* ---------- cumsum ---------- *)
Lemma cumsum_from_last acc l : l <> [] -> last (cumsum_from acc l) 0 = acc + zsum l.
Proof.
  revert acc. induction l as [|x r IH]; [congruence|]. intros acc _. destruct r as [|y r'].
  - simpl. lia.
  - change (cumsum_from acc (x :: y :: r')) with ((acc + x) :: cumsum_from (acc + x) (y :: r')).
    assert (E : cumsum_from (acc + x) (y :: r') <> []) by (simpl; discriminate).
    destruct (cumsum_from (acc + x) (y :: r')) as [|z zs] eqn:EE; [congruence|].
    change (last ((acc + x) :: z :: zs) 0) with (last (z :: zs) 0). rewrite <- EE.
    rewrite IH by discriminate. simpl. lia.
Qed.

Lemma last_map {A B} (f : A -> B) l d d' : l <> [] -> last (map f l) d' = f (last l d).
Proof.
  induction l as [|x r IH]; [congruence|]. intros _. destruct r as [|y r']; [reflexivity|].
  change (map f (x :: y :: r')) with (f x :: f y :: map f r').
  change (last (f x :: f y :: map f r') d') with (last (map f (y :: r')) d').
  change (last (x :: y :: r') d) with (last (y :: r') d). apply IH. discriminate.
Qed.

Lemma chunk_last_idx_last chunks : chunks <> [] -> last (chunk_last_idx chunks) 0 + 1 = zsum chunks.
Proof.
  intros H. unfold chunk_last_idx, cumsum.
  assert (Hc : cumsum_from 0 chunks <> []) by (destruct chunks; [congruence| simpl; discriminate]).
  rewrite (last_map (fun c => c - 1) _ 0 0 Hc), cumsum_from_last by assumption. lia.
Qed.

(* ---------- the optimisation loop ---------- *)
Definition triple_ok (n : Z) (t : Z * Z * Z) : Prop := let '(c, f, l) := t in f < n /\ l < n.

Lemma opt_loop_spec n ts : Forall (triple_ok n) ts -> forall cur,
  let tail := opt_loop ts cur in
  incr (cur :: tail) /\ Forall (fun p => cur < p <= n) tail.
Proof.
  induction 1 as [|[[c f] l] r [Hf Hl] _ IH]; intros cur; simpl; [split; [exact I| constructor]|].
  destruct ((c =? 0) || (l <? cur)) eqn:E1; [apply IH|].
  apply orb_false_iff in E1. destruct E1 as [_ E1]. apply Z.ltb_ge in E1.
  destruct ((Z.abs (c - f) <? Z.abs (c - l)) && (cur <? f)) eqn:E2.
  - apply andb_prop in E2. destruct E2 as [_ E2]. apply Z.ltb_lt in E2.
    destruct (IH f) as [H1 H2]. split.
    + simpl. split; [exact E2| exact H1].
    + constructor; [lia|]. eapply Forall_impl; [|exact H2]. simpl. intros; lia.
  - destruct (IH (l + 1)) as [H1 H2]. split.
    + simpl. split; [lia| exact H1].
    + constructor; [lia|]. eapply Forall_impl; [|exact H2]. simpl. intros; lia.
Qed.

Lemma incr_app_last l x : incr l -> (forall y, In y l -> y < x) -> incr (l ++ [x]).
Proof.
  induction l as [|a r IH]; intros Hi Hx; [exact I|]. destruct r as [|b r'].
  - simpl. split; [apply Hx; now left| exact I].
  - destruct Hi as [Hab Hr]. change ((a :: b :: r') ++ [x]) with (a :: ((b :: r') ++ [x])).
    simpl. split; [exact Hab|]. apply IH; [exact Hr|]. intros y Hy. apply Hx. now right.
Qed.

Lemma incr_last_max l d : incr l -> forall y, In y l -> y <= last l d.
Proof.
  induction l as [|a r IH]; intros Hi y Hy; [destruct Hy|]. destruct r as [|b r'].
  - destruct Hy as [->|[]]. simpl. lia.
  - destruct Hi as [Hab Hr]. change (last (a :: b :: r') d) with (last (b :: r') d).
    destruct Hy as [->|Hy]; [|now apply IH].
    assert (b <= last (b :: r') d) by (apply IH; [exact Hr| now left]). lia.
Qed.

(* ---------- first / last occurrence ---------- *)
Lemma zlast_from_range i x l best : 0 <= i -> 0 <= best < i \/ (best = 0 /\ i = 0) ->
  let r := zlast_from i x l best in (0 <= r < i + zlength l) \/ (r = 0 /\ i + zlength l = 0).
Proof.
  unfold zlength. revert i best. induction l as [|y r IH]; intros i best Hi Hb; simpl.
  - destruct Hb as [Hb|[-> ->]]; [left; lia| right; lia].
  - destruct (x =? y).
    + destruct (IH (i + 1) i) as [H|H]; [lia|left; lia| left; lia | lia].
    + destruct (IH (i + 1) best) as [H|H]; [lia| left; lia | left; lia | lia].
Qed.

Lemma zlast_index_lt x l : l <> [] -> 0 <= zlast_index x l < zlength l.
Proof.
  intros H. unfold zlast_index.
  destruct (zlast_from_range 0 x l 0) as [E|[_ E]]; [lia| right; auto | lia |].
  unfold zlength in E. destruct l; [congruence| simpl in E; lia].
Qed.

Lemma zfirst_index_lt x l : l <> [] -> 0 <= zfirst_index x l < zlength l.
Proof.
  intros H. unfold zfirst_index, zlength. destruct (zindex_range x l) as [E|E]; [|lia].
  rewrite E. destruct l; [congruence| simpl; lia].
Qed.

Lemma zip3_triples n (a b c : list Z) :
  Forall (fun f => f < n) b -> Forall (fun l => l < n) c -> Forall (triple_ok n) (zip3 a b c).
Proof.
  revert b c. induction a as [|x a IH]; intros b c Hb Hc; [constructor|].
  destruct b as [|y b]; [constructor|]. destruct c as [|z c]; [constructor|].
  inversion Hb; inversion Hc; subst. simpl. constructor; [split; assumption| now apply IH].
Qed.

(* ---------- T1: well-formedness of the blockwise helper, all inputs ---------- *)
Theorem optimal_chunks_wf chunks labels :
  chunks <> [] -> Forall (fun c => 0 < c) chunks -> zlength labels = zsum chunks ->
  Forall (fun c => 0 < c) (optimal_chunks chunks labels) /\
  zsum (optimal_chunks chunks labels) = zsum chunks.
Proof.
  intros Hne Hpos Hlen. unfold optimal_chunks.
  set (chunkidx := chunk_last_idx chunks).
  set (bl := zsort (zuniq (map (znth labels) chunkidx))).
  destruct (list_eqb chunkidx (map (fun x => zlast_index x labels) bl)); [split; [exact Hpos| reflexivity]|].
  set (n := zsum chunks).
  assert (Hn : 0 < n).
  { unfold n. destruct chunks as [|c cs]; [congruence|]. inversion Hpos; subst. simpl.
    assert (0 <= zsum cs). { clear - H2. induction H2; simpl; lia. } lia. }
  assert (Hlne : labels <> []). { intros ->. unfold zlength in Hlen. simpl in Hlen. lia. }
  assert (Htot : last chunkidx 0 + 1 = n) by (apply chunk_last_idx_last; exact Hne).
  rewrite Htot.
  set (ts := zip3 chunkidx (map (fun x => zfirst_index x labels) bl) (map (fun x => zlast_index x labels) bl)).
  assert (Hts : Forall (triple_ok n) ts).
  { apply zip3_triples; apply Forall_forall; intros y Hy; apply in_map_iff in Hy; destruct Hy as [x [<- _]];
      unfold n; rewrite <- Hlen; [apply zfirst_index_lt | apply zlast_index_lt]; exact Hlne. }
  destruct (opt_loop_spec n ts Hts 0) as [Hinc Hrange]. simpl in Hinc, Hrange.
  set (tail := opt_loop ts 0) in *.
  set (idx := 0 :: tail).
  assert (Hfinal : exists idx', (if last idx 0 =? n then idx else idx ++ [n]) = idx' /\ incr idx' /\ hd 0 idx' = 0 /\ last idx' 0 = n /\ idx' <> []).
  { destruct (Z.eqb_spec (last idx 0) n) as [E|E].
    - exists idx. repeat split; auto. unfold idx. discriminate.
    - exists (idx ++ [n]). split; [reflexivity|]. split; [|split; [|split]].
      + apply incr_app_last; [exact Hinc|]. intros y Hy.
        assert (y <= last idx 0) by (apply incr_last_max; assumption).
        assert (last idx 0 <= n).
        { unfold idx. destruct tail as [|t tl] eqn:Et; [simpl; lia|].
          assert (In (last (0 :: t :: tl) 0) (t :: tl)).
          { change (last (0 :: t :: tl) 0) with (last (t :: tl) 0). clear. revert t. induction tl as [|u tl IH]; intros t; [now left|].
            change (last (t :: u :: tl) 0) with (last (u :: tl) 0). right. apply IH. }
          rewrite Forall_forall in Hrange. specialize (Hrange _ H0). lia. }
        lia.
      + reflexivity.
      + rewrite last_last. reflexivity.
      + destruct idx; discriminate. }
  destruct Hfinal as [idx' [-> [Hi [Hh [Hl Hne']]]]].
  split; [now apply diffs_pos|]. rewrite diffs_sum by assumption. lia.
Qed.

(* ---------- rechunk_for_cohorts ---------- *)
Lemma cohort_loop_spec force oldbreaks chunksize ign : forall rest idx counter,
  let ds := cohort_loop force oldbreaks chunksize ign idx counter rest in
  Forall (fun p => idx <= p < idx + zlength rest) ds /\ incr ds.
Proof.
  unfold zlength. induction rest as [|lab r IH]; intros idx counter; simpl; [split; [constructor| exact I]|].
  assert (Hcons : forall c,
    Forall (fun p => idx <= p < idx + Z.pos (Pos.of_succ_nat (length r)))
           (idx :: cohort_loop force oldbreaks chunksize ign (idx + 1) c r)
    /\ incr (idx :: cohort_loop force oldbreaks chunksize ign (idx + 1) c r)).
  { intros c. destruct (IH (idx + 1) c) as [H1 H2]. split.
    - constructor; [lia|]. eapply Forall_impl; [|exact H1]. simpl. intros; lia.
    - destruct (cohort_loop force oldbreaks chunksize ign (idx + 1) c r) as [|d ds] eqn:E; [exact I|].
      simpl. split; [|exact H2]. inversion H1; subst. lia. }
  assert (Hskip : forall c,
    Forall (fun p => idx <= p < idx + Z.pos (Pos.of_succ_nat (length r)))
           (cohort_loop force oldbreaks chunksize ign (idx + 1) c r)
    /\ incr (cohort_loop force oldbreaks chunksize ign (idx + 1) c r)).
  { intros c. destruct (IH (idx + 1) c) as [H1 H2]. split; [|exact H2].
    eapply Forall_impl; [|exact H1]. simpl. intros; lia. }
  destruct (zmem lab force || (idx =? 0)); [apply Hcons|].
  match goal with |- context [if ?b then _ else _] => destruct b end; [apply Hcons| apply Hskip].
Qed.

Lemma cohort_loop_head force oldbreaks chunksize ign lab r counter :
  exists tl, cohort_loop force oldbreaks chunksize ign 0 counter (lab :: r) = 0 :: tl.
Proof. simpl. rewrite orb_true_r. eexists; reflexivity. Qed.

Theorem cohort_chunks_wf force oldchunks chunksize ign labels : labels <> [] ->
  Forall (fun c => 0 < c) (cohort_chunks force oldchunks chunksize ign labels) /\
  zsum (cohort_chunks force oldchunks chunksize ign labels) = zlength labels.
Proof.
  intros Hne. unfold cohort_chunks, cohort_divisions.
  set (ob := 0 :: cumsum oldchunks).
  destruct (cohort_loop_spec force ob chunksize ign labels 0 1) as [Hr Hi].
  destruct labels as [|lab r]; [congruence|].
  destruct (cohort_loop_head force ob chunksize ign lab r 1) as [tl Etl].
  rewrite Etl in *.
  assert (Hinc : incr ((0 :: tl) ++ [zlength (lab :: r)])).
  { apply incr_app_last; [exact Hi|]. intros y Hy. rewrite Forall_forall in Hr. specialize (Hr y Hy). lia. }
  split; [now apply diffs_pos|]. rewrite diffs_sum by discriminate.
  rewrite last_last. cbn [hd app]. lia.
Qed.

(* every occurrence of a forced label starts a chunk; old boundaries are kept unless ignored *)
Lemma cohort_loop_forced force oldbreaks chunksize ign : forall rest idx counter k lab,
  nth_error rest k = Some lab -> zmem lab force = true ->
  In (idx + Z.of_nat k) (cohort_loop force oldbreaks chunksize ign idx counter rest).
Proof.
  induction rest as [|y r IH]; intros idx counter k lab Hk Hf; [destruct k; discriminate|].
  destruct k as [|k]; simpl in Hk.
  - inversion Hk; subst y. simpl. rewrite Hf. simpl. left. lia.
  - assert (Hrec : forall c, In (idx + Z.of_nat (S k)) (cohort_loop force oldbreaks chunksize ign (idx + 1) c r)).
    { intros c. replace (idx + Z.of_nat (S k)) with ((idx + 1) + Z.of_nat k) by lia. eapply IH; eassumption. }
    simpl. destruct (zmem y force || (idx =? 0)); [right; apply Hrec|].
    match goal with |- context [if ?b then _ else _] => destruct b end; [right; apply Hrec| apply Hrec].
Qed.

Lemma cohort_loop_oldbreaks force oldbreaks chunksize : forall rest idx counter k,
  (k < length rest)%nat -> zmem (idx + Z.of_nat k) oldbreaks = true ->
  In (idx + Z.of_nat k) (cohort_loop force oldbreaks chunksize false idx counter rest).
Proof.
  induction rest as [|y r IH]; intros idx counter k Hk Hob; [simpl in Hk; lia|].
  destruct k as [|k].
  - replace (idx + Z.of_nat 0) with idx in * by (simpl; lia). simpl.
    destruct (zmem y force || (idx =? 0)); [now left|]. rewrite Hob. simpl. now left.
  - assert (Hrec : forall c, In (idx + Z.of_nat (S k)) (cohort_loop force oldbreaks chunksize false (idx + 1) c r)).
    { intros c. replace (idx + Z.of_nat (S k)) with ((idx + 1) + Z.of_nat k) in * by lia.
      apply IH; [simpl in Hk; lia| exact Hob]. }
    simpl. destruct (zmem y force || (idx =? 0)); [right; apply Hrec|].
    match goal with |- context [if ?b then _ else _] => destruct b end; [right; apply Hrec| apply Hrec].
Qed.
