(* C18: the global index arithmetic of quantile_ (offsets by cumulative VALID counts into the
   label-then-value sorted array) selects each group's own order statistics. *)
From Coq Require Import ZArith String List Bool Lia QArith Permutation.
From Flox Require Import ListX Val Agg Factorize FactorizeLaw Quantile.
Import ListNotations.
Open Scope Z_scope.

Lemma zsort_length l : length (zsort l) = length l.
Proof. apply Permutation_length. symmetry. apply zsort_perm. Qed.

Lemma nth_app_off (pre l post : list Z) i : 0 <= i < zn l ->
  nthz (pre ++ l ++ post) (i + zn pre) = nthz l i.
Proof.
  unfold nthz, zn. intros H.
  replace (Z.to_nat (i + Z.of_nat (length pre))) with (length pre + Z.to_nat i)%nat by lia.
  rewrite app_nth2_plus. apply app_nth1. lia.
Qed.

(* generalised: the groups before (already concatenated in [pre]) and the offset accumulator agree *)
Lemma flox_quantile_general skipna qn qd : 0 < qd -> 0 <= qn <= qd ->
  forall groups nans pre,
    length groups = length nans ->
    map3 (fun off vs nn => flox_quantile_k skipna qn qd (pre ++ global_sorted groups) off vs nn)
         (offsets_from (zn pre) groups) groups nans
    = spec_quantile skipna qn qd groups nans.
Proof.
  intros Hqd Hq. induction groups as [|g gs IH]; intros nans pre Hlen; [reflexivity|].
  destruct nans as [|nn ns]; [discriminate|]. simpl in Hlen.
  cbn [offsets_from map3 spec_quantile combine map fst snd]. f_equal.
  - (* the head group *)
    unfold flox_quantile_k, np_quantile.
    destruct (negb skipna && (0 <? nn)) eqn:Em; [reflexivity|]. cbn [orb].
    destruct g as [|x r] eqn:Eg; [reflexivity|]. rewrite <- Eg in *.
    assert (Hn : 0 < zn g) by (subst g; unfold zn; simpl; lia).
    destruct (Z.eqb_spec (zn g) 0); [lia|]. clear Eg.
    destruct g as [|x' r']; [unfold zn in Hn; simpl in Hn; lia|].
    set (g := x' :: r') in *. unfold lin_quantile.
    assert (Hzn : zn (zsort g) = zn g) by (unfold zn; now rewrite zsort_length).
    rewrite Hzn.
    set (num := qn * (zn g - 1)). set (lo := num / qd).
    assert (Hnum : 0 <= num <= qd * (zn g - 1)) by (unfold num; nia).
    assert (Hlo : 0 <= lo <= zn g - 1).
    { unfold lo. split; [apply Z.div_pos; lia|]. apply Z.div_le_upper_bound; lia. }
    assert (Hhi : forall hi, hi = (if num mod qd =? 0 then lo else lo + 1) -> 0 <= hi < zn g).
    { intros hi ->. destruct (Z.eqb_spec (num mod qd) 0); [lia|].
      split; [lia|]. assert (lo < zn g - 1); [|lia].
      destruct (Z.eq_dec lo (zn g - 1)) as [E|E]; [|lia]. exfalso.
      pose proof (Z.div_mod num qd ltac:(lia)) as Hdm. fold lo in Hdm.
      pose proof (Z.mod_pos_bound num qd Hqd). nia. }
    unfold global_sorted. cbn [map concat]. fold (global_sorted gs).
    rewrite !(nth_app_off pre (zsort g) (global_sorted gs)) by (rewrite Hzn; auto; lia).
    reflexivity.
  - (* the remaining groups: shift the prefix *)
    unfold global_sorted in *. cbn [map concat]. rewrite app_assoc.
    replace (zn pre + zn g) with (zn (pre ++ zsort g)).
    + apply IH. lia.
    + unfold zn. rewrite app_length, zsort_length. lia.
Qed.

Theorem flox_quantile_correct skipna qn qd groups nans :
  0 < qd -> 0 <= qn <= qd -> length groups = length nans ->
  flox_quantile skipna qn qd groups nans = spec_quantile skipna qn qd groups nans.
Proof.
  intros Hqd Hq Hlen. unfold flox_quantile.
  exact (flox_quantile_general skipna qn qd Hqd Hq groups nans [] Hlen).
Qed.

(* q = 0 and q = 1 are the minimum and the maximum *)
Example quantile_ends : lin_quantile 0 1 [2; 5; 9] == 2 # 1 /\ lin_quantile 1 1 [2; 5; 9] == 9 # 1.
Proof. split; reflexivity. Qed.
Example quantile_groups :
  flox_quantile true 1 2 [[3; 1; 2]; []; [8; 7]] [0; 2; 1] = [QFin (2 # 1); QNaN; QFin (15 # 2)].
Proof. reflexivity. Qed.

Lemma quantile_vec_correct :
  forall skipna qs groups nans,
    Forall (fun q => 0 < snd q /\ 0 <= fst q <= snd q) qs -> length groups = length nans ->
    flox_quantile_vec skipna qs groups nans = spec_quantile_vec skipna qs groups nans
    /\ length (flox_quantile_vec skipna qs groups nans) = length qs.
Proof.
  intros skipna qs groups nans Hq Hl. unfold flox_quantile_vec, spec_quantile_vec. split; [|apply map_length].
  apply map_ext_in. intros q Hin. rewrite Forall_forall in Hq. destruct (Hq q Hin) as [H1 H2].
  now apply flox_quantile_correct.
Qed.
