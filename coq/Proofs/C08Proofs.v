From Coq Require Import ZArith String List Bool Lia.
From Flox Require Import ListX Val Agg Spec Pipeline PipelineLaw Binning BinningLaw.
Import ListNotations.
Open Scope Z_scope.

(* offset_labels on a (rows x n) code array, flattened row-major *)
Fixpoint offset_all (ng : Z) (row : Z) (rows : list (list Z)) : list Z :=
  match rows with
  | [] => []
  | cs :: r => map (offset_code ng row) cs ++ offset_all ng (row + 1) r
  end.

Lemma vals_of_other_row ng row row' cs vs g :
  0 < ng -> 0 <= row -> 0 <= row' -> row <> row' -> 0 <= g < ng ->
  Forall (fun c => -1 <= c < ng) cs ->
  vals_of (g + row' * ng) (map (offset_code ng row) cs) vs = [].
Proof.
  intros Hng Hr Hr' Hne Hg Hcs. unfold vals_of. revert vs.
  induction Hcs as [|c cs Hc _ IH]; intros vs; [reflexivity|]. destruct vs as [|v vs]; [reflexivity|].
  simpl. destruct (Z.eqb_spec (offset_code ng row c) (g + row' * ng)) as [E|E]; [|apply IH].
  apply offset_code_spec in E; try assumption. destruct E; contradiction.
Qed.

Lemma vals_of_same_row ng row cs vs g :
  0 < ng -> 0 <= row -> 0 <= g < ng -> Forall (fun c => -1 <= c < ng) cs ->
  vals_of (g + row * ng) (map (offset_code ng row) cs) vs = vals_of g cs vs.
Proof.
  intros Hng Hr Hg Hcs. unfold vals_of. revert vs.
  induction Hcs as [|c cs Hc _ IH]; intros vs; [reflexivity|]. destruct vs as [|v vs]; [reflexivity|].
  simpl. destruct (Z.eqb_spec (offset_code ng row c) (g + row * ng)) as [E|E].
  - apply offset_code_spec in E; try assumption. destruct E as [_ ->]. rewrite Z.eqb_refl. simpl. f_equal. apply IH.
  - destruct (Z.eqb_spec c g) as [->|Hne]; [|apply IH].
    exfalso. apply E. apply offset_code_spec; auto.
Qed.

Lemma flattened_general ng : 0 < ng -> forall rows_codes rows_vals row0 r g,
  0 <= row0 -> 0 <= g < ng ->
  Forall (Forall (fun c => -1 <= c < ng)) rows_codes ->
  Forall2 (fun cs vs => length cs = length vs) rows_codes rows_vals ->
  (r < length rows_codes)%nat ->
  vals_of (g + (row0 + Z.of_nat r) * ng) (offset_all ng row0 rows_codes) (concat rows_vals)
  = vals_of g (nth r rows_codes []) (nth r rows_vals []).
Proof.
  intros Hng. induction rows_codes as [|cs rc IH]; intros rows_vals row0 r g H0 Hg Hall H2 Hr; [simpl in Hr; lia|].
  destruct rows_vals as [|vs rv]; [inversion H2|]. inversion H2; subst. inversion Hall; subst.
  cbn [offset_all concat]. rewrite vals_of_app by (rewrite map_length; assumption).
  destruct r as [|r].
  - replace (row0 + Z.of_nat 0) with row0 by lia. rewrite vals_of_same_row by assumption. cbn [nth].
    assert (Hrest : forall rc' rv' rw, row0 < rw ->
              Forall (Forall (fun c => -1 <= c < ng)) rc' ->
              Forall2 (fun cs vs => length cs = length vs) rc' rv' ->
              vals_of (g + row0 * ng) (offset_all ng rw rc') (concat rv') = []).
    { induction rc' as [|c1 rc' IH']; intros rv' rw Hlt Ha Hf; [reflexivity|].
      destruct rv' as [|v1 rv']; [inversion Hf|]. inversion Hf; inversion Ha; subst.
      cbn [offset_all concat]. rewrite vals_of_app by (rewrite map_length; assumption).
      rewrite vals_of_other_row by (auto; lia). rewrite IH' by (auto; lia). reflexivity. }
    rewrite Hrest by (auto; lia). now rewrite app_nil_r.
  - rewrite vals_of_other_row by (auto; lia). cbn [nth app].
    replace (row0 + Z.of_nat (S r)) with ((row0 + 1) + Z.of_nat r) by lia.
    apply IH; auto; [lia| simpl in Hr; lia].
Qed.

Lemma flattened_slicewise :
  forall ng (rows_codes : list (list Z)) (rows_vals : list (list xval)) r g,
    0 < ng -> 0 <= g < ng ->
    Forall (Forall (fun c => -1 <= c < ng)) rows_codes ->
    length rows_codes = length rows_vals ->
    Forall2 (fun cs vs => length cs = length vs) rows_codes rows_vals ->
    (r < length rows_codes)%nat ->
    vals_of (g + Z.of_nat r * ng) (offset_all ng 0 rows_codes) (concat rows_vals)
    = vals_of g (nth r rows_codes []) (nth r rows_vals []).
Proof.
  intros ng rc rv r g Hng Hg Hall _ H2 Hr.
  replace (Z.of_nat r) with (0 + Z.of_nat r) by lia. apply flattened_general; auto. lia.
Qed.
