(* L-comb / chunking independence: the chunked pipeline of Pipeline.v, for ANY chunking and
   ANY reduction tree, yields the block function applied to all members of the group. *)
From Coq Require Import ZArith String List Bool Lia.
From Flox Require Import ListX Val Agg ValAlg Hom Spec Pipeline.
Import ListNotations.
Open Scope Z_scope.

(* ---------- members distribute over concatenation of blocks ---------- *)
Lemma combine_app_eq {A B} (l1 l2 : list A) (m1 m2 : list B) :
  length l1 = length m1 -> combine (l1 ++ l2) (m1 ++ m2) = combine l1 m1 ++ combine l2 m2.
Proof.
  revert m1. induction l1 as [|x l1 IH]; intros [|y m1]; simpl; intros H; try discriminate; [reflexivity|].
  f_equal. apply IH. now inversion H.
Qed.

Lemma vals_of_app g c1 c2 v1 v2 : length c1 = length v1 ->
  vals_of g (c1 ++ c2) (v1 ++ v2) = vals_of g c1 v1 ++ vals_of g c2 v2.
Proof. intros H. unfold vals_of. now rewrite combine_app_eq, filter_app, map_app. Qed.

Lemma firstn_length_eq {A B} n (l : list A) (m : list B) :
  length l = length m -> length (firstn n l) = length (firstn n m).
Proof. intros H. now rewrite !firstn_length, H. Qed.

Lemma skipn_length_eq {A B} n (l : list A) (m : list B) :
  length l = length m -> length (skipn n l) = length (skipn n m).
Proof. intros H. now rewrite !skipn_length, H. Qed.

Fixpoint sum_nat (l : list nat) : nat := match l with [] => O | x :: r => (x + sum_nat r)%nat end.

(* cutting into blocks of ANY sizes covering the axis and concatenating the members of g
   gives the members of g in the whole array *)
Theorem cut_blocks_members g sizes off codes vals :
  length codes = length vals -> sum_nat sizes = length codes ->
  concat (map (blk_vals g) (cut_blocks sizes off codes vals)) = vals_of g codes vals.
Proof.
  revert off codes vals. induction sizes as [|n r IH]; intros off codes vals Hlen Hsum; simpl in *.
  - destruct codes; [|discriminate]. reflexivity.
  - unfold blk_vals at 1. simpl. rewrite IH.
    + rewrite <- vals_of_app by (now apply firstn_length_eq). now rewrite !firstn_skipn.
    + now apply skipn_length_eq.
    + rewrite skipn_length. lia.
Qed.

(* ---------- simple combine over an arbitrary tree ---------- *)
Definition tuple_of (chs : list opname) (X : list xval) : list xval := map (fun ch => kern ch X) chs.

Lemma node_comb_lawful chs : forall cbs fs (Xs : list (list xval)),
  lawful_triples chs cbs fs = true ->
  node_comb cbs (map (tuple_of chs) Xs) = tuple_of chs (concat Xs).
Proof.
  induction chs as [|ch chs IH]; intros [|cb cbs] [|f fs] Xs; simpl; try discriminate; [reflexivity|].
  intros H. apply andb_prop in H. destruct H as [H1 H2]. f_equal.
  - rewrite map_map. simpl. rewrite <- (proj2 (lawful_triple_sound _ _ _ H1) Xs). reflexivity.
  - rewrite map_map. simpl. apply (IH cbs fs Xs H2).
Qed.

Definition tree_vals (g : Z) (t : tree block) : list xval := concat (map (blk_vals g) (leaves t)).

Lemma tree_vals_node g ts : tree_vals g (Node ts) = concat (map (tree_vals g) ts).
Proof.
  unfold tree_vals. simpl. rewrite map_concat, concat_concat, !map_map. reflexivity.
Qed.

Theorem tree_interm_simple chs cbs fs g : lawful_triples chs cbs fs = true ->
  forall t, tree_interm chs cbs g t = tuple_of chs (tree_vals g t).
Proof.
  intros HL t. induction t as [b|ts IH] using tree_ind'.
  - unfold tree_interm, tree_vals. simpl. unfold leaf_interm, tuple_of. now rewrite app_nil_r.
  - unfold tree_interm in *. cbn [teval]. rewrite tree_vals_node.
    rewrite <- (node_comb_lawful chs cbs fs (map (tree_vals g) ts) HL). f_equal.
    rewrite map_map. apply map_ext_in. intros t Hin. rewrite Forall_forall in IH. now apply IH.
Qed.

(* ---------- grouped combine over an arbitrary tree ---------- *)
Lemma somes_map_some {A} (l : list A) : somes (map Some l) = l.
Proof. induction l; simpl; congruence. Qed.

Definition opt_tuple (chs : list opname) (X : list xval) : option (list xval) :=
  match X with [] => None | _ => Some (tuple_of chs X) end.

Lemma somes_opt_tuple chs (Xs : list (list xval)) :
  somes (map (opt_tuple chs) Xs) = map (tuple_of chs) (filter (fun X => negb (Nat.eqb (length X) 0)) Xs).
Proof.
  induction Xs as [|X Xs IH]; simpl; [reflexivity|]. destruct X; simpl; [exact IH| now rewrite IH].
Qed.

Lemma concat_filter_nonempty {A} (Xs : list (list A)) :
  concat (filter (fun X => negb (Nat.eqb (length X) 0)) Xs) = concat Xs.
Proof.
  induction Xs as [|X Xs IH]; simpl; [reflexivity|]. destruct X; simpl; [exact IH| now rewrite IH].
Qed.

Theorem tree_interm_grouped chs cbs fs g : lawful_triples chs cbs fs = true ->
  forall t, tree_interm_g chs cbs g t = opt_tuple chs (tree_vals g t).
Proof.
  intros HL t. induction t as [b|ts IH] using tree_ind'.
  - unfold tree_interm_g, tree_vals. simpl. unfold leaf_interm_g, leaf_interm, opt_tuple, tuple_of.
    rewrite app_nil_r. destruct (blk_vals g b); reflexivity.
  - unfold tree_interm_g in *. cbn [teval]. rewrite tree_vals_node.
    assert (Hmap : map (teval (leaf_interm_g chs g) (node_comb_g cbs)) ts
                   = map (opt_tuple chs) (map (tree_vals g) ts)).
    { rewrite map_map. apply map_ext_in. intros t Hin. rewrite Forall_forall in IH. now apply IH. }
    rewrite Hmap. unfold node_comb_g. rewrite somes_opt_tuple.
    set (Xs := map (tree_vals g) ts).
    rewrite <- (concat_filter_nonempty Xs).
    set (Ys := filter (fun X => negb (Nat.eqb (length X) 0)) Xs).
    assert (Hne : Forall (fun X => X <> []) Ys).
    { apply Forall_forall. intros X HX. apply filter_In in HX. destruct HX as [_ HX]. destruct X; [discriminate|congruence]. }
    destruct Ys as [|Y Ys'] eqn:EY; [reflexivity|].
    cbn [map]. rewrite <- EY. change (tuple_of chs Y :: map (tuple_of chs) Ys') with (map (tuple_of chs) (Y :: Ys')).
    rewrite <- EY. rewrite (node_comb_lawful chs cbs fs Ys HL).
    unfold opt_tuple. destruct (concat Ys) eqn:EC; [|reflexivity].
    exfalso. rewrite EY in EC. simpl in EC. apply app_eq_nil in EC. destruct EC as [EC _].
    inversion Hne; subst; congruence.
Qed.

(* ---------- trees built level by level cover the blocks in order ---------- *)
Lemma chunks_of_concat {A} fuel k (l : list A) : concat (chunks_of fuel k l) = l.
Proof.
  revert l. induction fuel as [|f IH]; intros l; simpl; [now rewrite app_nil_r|].
  destruct l as [|x l']; [reflexivity|]. cbn [concat]. rewrite IH. apply firstn_skipn.
Qed.

Lemma leaves_build_tree {A} fuel k (ts : list (tree A)) :
  leaves (build_tree fuel k ts) = concat (map leaves ts).
Proof.
  revert ts. induction fuel as [|f IH]; intros ts; simpl; [reflexivity|].
  destruct (Nat.leb (length ts) k); [reflexivity|].
  rewrite IH, map_map. cbn [leaves].
  set (cs := chunks_of (length ts) k ts).
  assert (Hts : ts = concat cs) by (symmetry; apply chunks_of_concat).
  clearbody cs. subst ts. rewrite map_concat, concat_concat, map_map. reflexivity.
Qed.

Theorem leaves_tree_of_blocks k bs : leaves (tree_of_blocks k bs) = bs.
Proof.
  unfold tree_of_blocks. rewrite leaves_build_tree, map_map. simpl.
  induction bs as [|b bs IH]; simpl; congruence.
Qed.

(* ---------- assembling: chunked == one pass over all members, for any chunking, any tree ---------- *)
Definition eff_fill (a : AggDesc) (mc : Z) : list fillv :=
  if 0 <? mc then a_fill a ++ [FvNum 0] else a_fill a.

Lemma lawful_triples_app c1 b1 f1 c2 b2 f2 :
  lawful_triples c1 b1 f1 = true -> lawful_triples c2 b2 f2 = true ->
  lawful_triples (c1 ++ c2) (b1 ++ b2) (f1 ++ f2) = true.
Proof.
  revert b1 f1. induction c1 as [|c c1 IH]; intros [|b b1] [|f f1]; simpl; try discriminate; [auto|].
  intros H H2. apply andb_prop in H. destruct H as [Ha Hb]. rewrite Ha. simpl. now apply IH.
Qed.

Lemma eff_lawful a mc chs cbs :
  a_rtype a = Reduce -> a_chunk a = Some chs -> a_combine a = Some cbs -> lawful_dec a = true ->
  lawful_triples (eff_chunk a mc) (eff_combine a mc) (eff_fill a mc) = true.
Proof.
  intros Hr Hc Hb HL. unfold lawful_dec in HL. rewrite Hr, Hc, Hb in HL.
  unfold eff_chunk, eff_combine, eff_fill. rewrite Hc, Hb. destruct (0 <? mc); [|exact HL].
  apply lawful_triples_app; [exact HL| reflexivity].
Qed.

Theorem chunked_simple_any_tree a kws mc fill chs cbs :
  a_rtype a = Reduce -> a_chunk a = Some chs -> a_combine a = Some cbs -> lawful_dec a = true ->
  forall (t : tree block) g,
    chunked_simple a kws mc fill t g
    = finalize_group a kws mc fill (tuple_of (eff_chunk a mc) (tree_vals g t)).
Proof.
  intros Hr Hc Hb HL t g. unfold chunked_simple.
  now rewrite (tree_interm_simple _ _ _ g (eff_lawful a mc chs cbs Hr Hc Hb HL)).
Qed.

Theorem chunked_grouped_any_tree a kws mc fill chs cbs :
  a_rtype a = Reduce -> a_chunk a = Some chs -> a_combine a = Some cbs -> lawful_dec a = true ->
  forall (t : tree block) g,
    chunked_grouped a kws mc fill t g
    = match tree_vals g t with
      | [] => option_map Plain fill
      | X => finalize_group a kws mc fill (tuple_of (eff_chunk a mc) X)
      end.
Proof.
  intros Hr Hc Hb HL t g. unfold chunked_grouped.
  rewrite (tree_interm_grouped _ _ _ g (eff_lawful a mc chs cbs Hr Hc Hb HL)).
  unfold opt_tuple. destruct (tree_vals g t); reflexivity.
Qed.

(* the result does not depend on the chunking nor on the tree *)
Theorem chunked_simple_chunking_independent a kws mc fill chs cbs :
  a_rtype a = Reduce -> a_chunk a = Some chs -> a_combine a = Some cbs -> lawful_dec a = true ->
  forall codes vals sizes sizes' (t t' : tree block) g,
    length codes = length vals ->
    sum_nat sizes = length codes -> sum_nat sizes' = length codes ->
    leaves t = cut_blocks sizes 0 codes vals -> leaves t' = cut_blocks sizes' 0 codes vals ->
    chunked_simple a kws mc fill t g = chunked_simple a kws mc fill t' g.
Proof.
  intros Hr Hc Hb HL codes vals sizes sizes' t t' g Hlen Hs Hs' Ht Ht'.
  rewrite !(chunked_simple_any_tree a kws mc fill chs cbs Hr Hc Hb HL).
  unfold tree_vals. rewrite Ht, Ht', !cut_blocks_members by assumption. reflexivity.
Qed.
