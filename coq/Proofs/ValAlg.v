(* L-val: the binary operations of Val.v form the monoids the combine step needs. *)
From Coq Require Import ZArith List Bool Lia.
From Flox Require Import Val Agg.
Import ListNotations.
Open Scope Z_scope.

Ltac zcases :=
  repeat match goal with
  | |- context [?a =? ?b] => destruct (Z.eqb_spec a b)
  | |- context [?a <? ?b] => destruct (Z.ltb_spec a b)
  end.

Lemma xadd_assoc a b c : xadd a (xadd b c) = xadd (xadd a b) c.
Proof. destruct a, b, c; simpl; try reflexivity; f_equal; lia. Qed.

Lemma xadd_comm a b : xadd a b = xadd b a.
Proof. destruct a, b; simpl; try reflexivity; f_equal; lia. Qed.

Lemma xadd_0_l a : xadd (Fin 0) a = a.
Proof. destruct a; reflexivity. Qed.

Lemma xmax_assoc a b c : xmax a (xmax b c) = xmax (xmax a b) c.
Proof. destruct a, b, c; simpl; try reflexivity; f_equal; lia. Qed.
Lemma xmax_comm a b : xmax a b = xmax b a.
Proof. destruct a, b; simpl; try reflexivity; f_equal; lia. Qed.
Lemma xmax_ninf_l a : xmax NInf a = a.
Proof. destruct a; reflexivity. Qed.

Lemma xmin_assoc a b c : xmin a (xmin b c) = xmin (xmin a b) c.
Proof. destruct a, b, c; simpl; try reflexivity; f_equal; lia. Qed.
Lemma xmin_comm a b : xmin a b = xmin b a.
Proof. destruct a, b; simpl; try reflexivity; f_equal; lia. Qed.
Lemma xmin_pinf_l a : xmin PInf a = a.
Proof. destruct a; reflexivity. Qed.

Lemma xmul_1_l a : xmul (Fin 1) a = a.
Proof. destruct a; try reflexivity. unfold xmul. now rewrite Z.mul_1_l. Qed.

Lemma xmul_comm a b : xmul a b = xmul b a.
Proof. destruct a, b; try reflexivity. unfold xmul. now rewrite Z.mul_comm. Qed.

Lemma xmul_assoc a b c : xmul a (xmul b c) = xmul (xmul a b) c.
Proof.
  destruct a as [x| | |], b as [y| | |], c as [w| | |]; try reflexivity;
    cbn [xmul]; try (now rewrite Z.mul_assoc);
    unfold sgn_inf; zcases; cbn [xmul]; unfold sgn_inf; zcases; try reflexivity; try nia.
Qed.

Lemma xand_assoc a b c : xand a (xand b c) = xand (xand a b) c.
Proof. unfold xand, of_bool. destruct (truthy a), (truthy b), (truthy c); reflexivity. Qed.
Lemma xor_assoc a b c : xor_ a (xor_ b c) = xor_ (xor_ a b) c.
Proof. unfold xor_, of_bool. destruct (truthy a), (truthy b), (truthy c); reflexivity. Qed.
Lemma xand_comm a b : xand a b = xand b a.
Proof. unfold xand. now rewrite andb_comm. Qed.
Lemma xor_comm a b : xor_ a b = xor_ b a.
Proof. unfold xor_. now rewrite orb_comm. Qed.

Lemma xnanfirst_assoc a b c : xnanfirst a (xnanfirst b c) = xnanfirst (xnanfirst a b) c.
Proof. destruct a, b, c; reflexivity. Qed.
Lemma xnanlast_assoc a b c : xnanlast a (xnanlast b c) = xnanlast (xnanlast a b) c.
Proof. destruct a, b, c; reflexivity. Qed.

Lemma xfmax_assoc a b c : xfmax a (xfmax b c) = xfmax (xfmax a b) c.
Proof. destruct a, b, c; simpl; try reflexivity; f_equal; lia. Qed.
Lemma xfmin_assoc a b c : xfmin a (xfmin b c) = xfmin (xfmin a b) c.
Proof. destruct a, b, c; simpl; try reflexivity; f_equal; lia. Qed.

(* all monoids at once *)
Lemma m_op_assoc m a b c : m_op m a (m_op m b c) = m_op m (m_op m a b) c.
Proof.
  destruct m; simpl;
    auto using xadd_assoc, xmul_assoc, xmax_assoc, xmin_assoc, xand_assoc, xor_assoc,
               xnanfirst_assoc, xnanlast_assoc.
Qed.

(* carrier on which the unit is a left identity *)
Definition in_carrier (m : monoid) (y : xval) : Prop :=
  match m with
  | MAnd | MOr => exists b : bool, y = of_bool b
  | _ => True
  end.

Lemma m_unit_l m y : in_carrier m y -> m_op m (m_unit m) y = y.
Proof.
  destruct m; simpl; intros H.
  - apply xadd_0_l.
  - apply xmul_1_l.
  - apply xmax_ninf_l.
  - apply xmin_pinf_l.
  - destruct H as [b ->]. destruct b; reflexivity.
  - destruct H as [b ->]. destruct b; reflexivity.
  - reflexivity.
  - destruct y; reflexivity.
Qed.

Lemma m_unit_r m y : in_carrier m y -> m_op m y (m_unit m) = y.
Proof.
  destruct m; simpl; intros H.
  - rewrite xadd_comm. apply xadd_0_l.
  - rewrite xmul_comm. apply xmul_1_l.
  - rewrite xmax_comm. apply xmax_ninf_l.
  - rewrite xmin_comm. apply xmin_pinf_l.
  - destruct H as [b ->]. destruct b; reflexivity.
  - destruct H as [b ->]. destruct b; reflexivity.
  - destruct y; reflexivity.
  - reflexivity.
Qed.

Lemma m_op_carrier m a b : in_carrier m a -> in_carrier m b -> in_carrier m (m_op m a b).
Proof.
  destruct m; simpl; auto; intros _ _; eexists; reflexivity.
Qed.

Lemma m_unit_carrier m : in_carrier m (m_unit m).
Proof. destruct m; simpl; auto; [exists true | exists false]; reflexivity. Qed.

(* commutativity where flox relies on it (none of the combines need it, but
   block order independence for the commutative ones is a corollary) *)
Definition m_commutative (m : monoid) : bool :=
  match m with MNanfirst | MNanlast => false | _ => true end.

Lemma m_op_comm m a b : m_commutative m = true -> m_op m a b = m_op m b a.
Proof.
  destruct m; simpl; intros H; try discriminate;
    auto using xadd_comm, xmul_comm, xmax_comm, xmin_comm, xand_comm, xor_comm.
Qed.
