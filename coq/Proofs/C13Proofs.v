From Coq Require Import String List Bool.
From Flox Require Import EffIR EffLaw Effects.
Import ListNotations.

Lemma certs_ok : check_all task_functions = true.
Proof. vm_compute. reflexivity. Qed.

Definition root_pure_b (f : fndef) : bool :=
  negb (existsb (String.eqb (f_name f)) task_roots) || String.eqb (f_name f) "core._expand_dims" || pure_fn f.

Lemma roots_pure_b : forallb root_pure_b task_functions = true.
Proof. vm_compute. reflexivity. Qed.

Lemma roots_pure :
  forall f, In f task_functions -> In (f_name f) task_roots -> f_name f <> "core._expand_dims"%string -> f_stores f = [].
Proof.
  intros f Hin Hroot Hne. pose proof roots_pure_b as H. rewrite forallb_forall in H. specialize (H f Hin).
  unfold root_pure_b in H. apply orb_prop in H. destruct H as [H|H].
  - apply orb_prop in H. destruct H as [H|H].
    + exfalso. apply negb_true_iff in H. assert (existsb (String.eqb (f_name f)) task_roots = true); [|congruence].
      apply existsb_exists. exists (f_name f). split; [exact Hroot| apply String.eqb_refl].
    + apply String.eqb_eq in H. contradiction.
  - unfold pure_fn in H. destruct (f_stores f); [reflexivity| discriminate].
Qed.
