From Coq Require Import ZArith String List Bool Lia Sorted Permutation.
From Flox Require Import XrDims.
Import ListNotations.
Open Scope Z_scope.

Lemma insert_key_perm key x l : Permutation (x :: l) (insert_key key x l).
Proof.
  induction l as [|y r IH]; simpl; [reflexivity|]. destruct (key x <=? key y); [reflexivity|].
  rewrite perm_swap. now constructor.
Qed.

Lemma sort_key_perm key l : Permutation l (sort_key key l).
Proof.
  induction l as [|x r IH]; simpl; [constructor|]. rewrite <- insert_key_perm. now constructor.
Qed.

Definition key_sorted (key : string -> Z) (l : list string) : Prop := Sorted (fun a b => key a <= key b) l.

Lemma insert_key_sorted key x l : key_sorted key l -> key_sorted key (insert_key key x l).
Proof.
  unfold key_sorted. induction 1 as [|y r Hs IH Hhd]; simpl; [repeat constructor|].
  destruct (Z.leb_spec (key x) (key y)).
  - constructor; [constructor; assumption| constructor; assumption].
  - constructor; [exact IH|]. destruct r as [|z r']; simpl in *; [constructor; lia|].
    destruct (key x <=? key z); constructor; try lia. now inversion Hhd.
Qed.

Lemma sort_key_sorted key l : key_sorted key (sort_key key l).
Proof. induction l; simpl; [constructor| now apply insert_key_sorted]. Qed.

(* stability: elements with equal keys keep their relative order *)
Lemma filter_insert_key key k x l :
  filter (fun d => key d =? k) (insert_key key x l)
  = if key x =? k then x :: filter (fun d => key d =? k) l else filter (fun d => key d =? k) l.
Proof.
  induction l as [|y r IH]; simpl; [destruct (key x =? k); reflexivity|].
  destruct (Z.leb_spec (key x) (key y)); simpl.
  - destruct (key x =? k); reflexivity.
  - rewrite IH. destruct (Z.eqb_spec (key x) k), (Z.eqb_spec (key y) k); try reflexivity. lia.
Qed.

Lemma sort_key_stable key k l :
  filter (fun d => key d =? k) (sort_key key l) = filter (fun d => key d =? k) l.
Proof. induction l as [|x r IH]; [reflexivity|]. simpl. rewrite filter_insert_key, IH. reflexivity. Qed.

Example restore_example :
  restore_dim_order ["time"; "y"; "x"]%string "month" (Some "time"%string) false ["y"; "x"; "month"]%string
  = ["month"; "y"; "x"]%string.
Proof. reflexivity. Qed.

(* ---------- _broadcast_size_one_dims aligns the grouper with the array's core dims ---------- *)
Close Scope Z_scope.
Open Scope nat_scope.
Lemma nat_index_of_nth d l : forall i, NoDup l -> In d l -> nth (nat_index_of d l i - i) l ""%string = d /\ i <= nat_index_of d l i.
Proof.
  induction l as [|x r IH]; intros i Hnd Hin; [destruct Hin|]. simpl.
  destruct (String.eqb_spec x d) as [->|Hne].
  - rewrite Nat.sub_diag. split; [reflexivity| lia].
  - inversion Hnd as [|? ? Hnotin Hnd']; subst. destruct Hin as [->|Hin]; [congruence|].
    destruct (IH (S i) Hnd' Hin) as [Hnth Hle].
    replace (nat_index_of d r (S i) - i) with (S (nat_index_of d r (S i) - S i)) by lia. split; [exact Hnth| lia].
Qed.

Lemma smem_In d l : smem d l = true <-> In d l.
Proof.
  unfold smem. rewrite existsb_exists. split.
  - intros [x [Hx E]]. apply String.eqb_eq in E. now subst.
  - intros H. exists d. split; [exact H| apply String.eqb_refl].
Qed.

(* the transposed grouper lists its dims in the array's core order *)
Theorem transposed_in_core_order core bdims :
  NoDup bdims -> transposed core bdims = filter (fun d => smem d bdims) core.
Proof.
  intros Hnd. unfold transposed, transpose_order. rewrite map_map.
  induction core as [|d r IH]; [reflexivity|]. simpl. destruct (smem d bdims) eqn:E; [|exact IH].
  simpl. rewrite IH. f_equal. apply smem_In in E.
  destruct (nat_index_of_nth d bdims 0 Hnd E) as [H _]. now rewrite Nat.sub_0_r in H.
Qed.

Lemma expand_at_spec core bdims : forall pos,
  expand_at pos (positions_where (fun d => negb (smem d bdims)) core pos)
            (map Some (filter (fun d => smem d bdims) core)) (length core)
  = map (fun d => if smem d bdims then Some d else None) core.
Proof.
  induction core as [|d r IH]; intros pos; [reflexivity|]. simpl.
  destruct (smem d bdims) eqn:E; simpl.
  - (* present: position pos is not an inserted axis *)
    assert (Hn : existsb (Nat.eqb pos) (positions_where (fun d0 => negb (smem d0 bdims)) r (S pos)) = false).
    { clear. generalize (S pos) (Nat.lt_succ_diag_r pos). induction r as [|x r IH]; intros p Hp; [reflexivity|]. simpl.
      destruct (negb (smem x bdims)); simpl; [|apply IH; lia].
      destruct (Nat.eqb_spec pos p); [lia|]. apply IH. lia. }
    rewrite Hn. f_equal. apply IH.
  - rewrite Nat.eqb_refl. simpl. f_equal.
    (* the remaining axes list is the one for the tail; membership of pos is irrelevant further on *)
    assert (Hgen : forall cur n p, pos < p ->
              expand_at p (pos :: positions_where (fun d0 => negb (smem d0 bdims)) r (S pos)) cur n
              = expand_at p (positions_where (fun d0 => negb (smem d0 bdims)) r (S pos)) cur n).
    { intros cur n. revert cur. induction n as [|n IHn]; intros cur p Hp; [reflexivity|]. simpl.
      destruct (Nat.eqb_spec p pos); [lia|]. simpl.
      destruct (existsb (Nat.eqb p) _); [f_equal; apply IHn; lia|]. destruct cur; [reflexivity|]. f_equal. apply IHn. lia. }
    rewrite Hgen by lia. apply IH.
Qed.

(* ... and after inserting the size-1 axes its axes line up one-to-one with the array's core dims *)
Theorem broadcast_aligns_with_core core bdims :
  NoDup bdims ->
  broadcast_result core bdims = map (fun d => if smem d bdims then Some d else None) core.
Proof.
  intros Hnd. unfold broadcast_result, broadcast_axes. rewrite (transposed_in_core_order core bdims Hnd). apply expand_at_spec.
Qed.

Example broadcast_example :
  broadcast_result ["x"; "y"; "z"]%string ["z"; "x"]%string = [Some "x"; None; Some "z"]%string.
Proof. reflexivity. Qed.
