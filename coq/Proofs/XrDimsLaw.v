From Coq Require Import ZArith String List Bool Lia Sorted Permutation.
From Flox Require Import XrDims.
Import ListNotations.
Open Scope Z_scope.

Lemma insert_key_perm key x l : Permutation (x :: l) (insert_key key x l).
Proof.
  induction l as [|y r IH]; simpl; [reflexivity|]. destruct (key x <=? key y); [reflexivity|].
  rewrite perm_swap. now constructor.
Qed.

Lemma sort_key_perm key l : Permutation l (sort_key key l).
Proof.
  induction l as [|x r IH]; simpl; [constructor|]. rewrite <- insert_key_perm. now constructor.
Qed.

Definition key_sorted (key : string -> Z) (l : list string) : Prop := Sorted (fun a b => key a <= key b) l.

Lemma insert_key_sorted key x l : key_sorted key l -> key_sorted key (insert_key key x l).
Proof.
  unfold key_sorted. induction 1 as [|y r Hs IH Hhd]; simpl; [repeat constructor|].
  destruct (Z.leb_spec (key x) (key y)).
  - constructor; [constructor; assumption| constructor; assumption].
  - constructor; [exact IH|]. destruct r as [|z r']; simpl in *; [constructor; lia|].
    destruct (key x <=? key z); constructor; try lia. now inversion Hhd.
Qed.

Lemma sort_key_sorted key l : key_sorted key (sort_key key l).
Proof. induction l; simpl; [constructor| now apply insert_key_sorted]. Qed.

(* stability: elements with equal keys keep their relative order *)
Lemma filter_insert_key key k x l :
  filter (fun d => key d =? k) (insert_key key x l)
  = if key x =? k then x :: filter (fun d => key d =? k) l else filter (fun d => key d =? k) l.
Proof.
  induction l as [|y r IH]; simpl; [destruct (key x =? k); reflexivity|].
  destruct (Z.leb_spec (key x) (key y)); simpl.
  - destruct (key x =? k); reflexivity.
  - rewrite IH. destruct (Z.eqb_spec (key x) k), (Z.eqb_spec (key y) k); try reflexivity. lia.
Qed.

Lemma sort_key_stable key k l :
  filter (fun d => key d =? k) (sort_key key l) = filter (fun d => key d =? k) l.
Proof. induction l as [|x r IH]; [reflexivity|]. simpl. rewrite filter_insert_key, IH. reflexivity. Qed.

Example restore_example :
  restore_dim_order ["time"; "y"; "x"]%string "month" (Some "time"%string) false ["y"; "x"; "month"]%string
  = ["month"; "y"; "x"]%string.
Proof. reflexivity. Qed.
