(* L-exec: in a graph of pure tasks, every execution order (any choice among ready tasks, any
   task executed any number of times) produces the same value for every key. *)
From Coq Require Import List Arith Lia Bool.
Import ListNotations.

Section Exec.
  Variables (K V : Type).
  Variable keqb : K -> K -> bool.
  Hypothesis keqb_spec : forall a b, reflect (a = b) (keqb a b).

  Record task : Type := mkTask { t_deps : list K; t_fn : list V -> V }.
  (* a graph binds each key to at most ONE task (keys_functional); see Graph.v for how a
     Python dict built with overwriting assignments is turned into such a function *)
  Definition graph : Type := K -> option task.
  Definition store : Type := K -> option V.

  Definition empty : store := fun _ => None.
  Definition upd (s : store) (k : K) (v : V) : store := fun k' => if keqb k' k then Some v else s k'.

  Fixpoint get_all (s : store) (ks : list K) : option (list V) :=
    match ks with
    | [] => Some []
    | k :: r => match s k, get_all s r with
                | Some v, Some vs => Some (v :: vs)
                | _, _ => None
                end
    end.

  (* execute the tasks named by [ks] in that order; a task may run only when all its
     dependencies are in the store (otherwise the run is not a valid schedule) *)
  Fixpoint exec (g : graph) (s : store) (ks : list K) : option store :=
    match ks with
    | [] => Some s
    | k :: r =>
        match g k with
        | None => None
        | Some t => match get_all s (t_deps t) with
                    | None => None
                    | Some vs => exec g (upd s k (t_fn t vs)) r
                    end
        end
    end.

  (* denotation with an explicit height bound (avoids a nested inductive) *)
  Fixpoint denotN (g : graph) (n : nat) (k : K) (v : V) : Prop :=
    match n with
    | O => False
    | S n' => exists t vs, g k = Some t /\ Forall2 (denotN g n') (t_deps t) vs /\ v = t_fn t vs
    end.

  Lemma denotN_functional g : forall n m k v1 v2, denotN g n k v1 -> denotN g m k v2 -> v1 = v2.
  Proof.
    induction n as [|n IH]; intros m k v1 v2 H1 H2; [destruct H1|].
    destruct m as [|m]; [destruct H2|].
    destruct H1 as [t1 [vs1 [Hg1 [Hf1 ->]]]]. destruct H2 as [t2 [vs2 [Hg2 [Hf2 ->]]]].
    rewrite Hg1 in Hg2. inversion Hg2; subst t2. f_equal.
    revert vs2 Hf2. induction Hf1 as [|d x ds xs Hd _ IHf]; intros vs2 Hf2; inversion Hf2; subst; [reflexivity|].
    f_equal; [eapply IH; eassumption | now apply IHf].
  Qed.

  Lemma denotN_mono g : forall n k v, denotN g n k v -> denotN g (S n) k v.
  Proof.
    induction n as [|n IH]; intros k v H; [destruct H|].
    destruct H as [t [vs [Hg [Hf ->]]]]. exists t, vs. split; [exact Hg|]. split; [|reflexivity].
    induction Hf; constructor; auto.
  Qed.

  Lemma denotN_le g n m k v : n <= m -> denotN g n k v -> denotN g m k v.
  Proof. induction 1; auto using denotN_mono. Qed.

  Definition Inv (g : graph) (s : store) : Prop := forall k v, s k = Some v -> exists n, denotN g n k v.

  Lemma get_all_denot g s : Inv g s -> forall ks vs, get_all s ks = Some vs ->
    exists N, Forall2 (denotN g N) ks vs.
  Proof.
    intros HI. induction ks as [|k r IH]; intros vs H; simpl in H.
    - inversion H. exists 0. constructor.
    - destruct (s k) as [v|] eqn:Hk; [|discriminate].
      destruct (get_all s r) as [vs'|] eqn:Hr; [|discriminate]. inversion H; subst.
      destruct (HI k v Hk) as [n Hn]. destruct (IH vs' eq_refl) as [N HN].
      exists (max n N). constructor.
      + eapply denotN_le; [|exact Hn]. lia.
      + clear - HN. induction HN; constructor; auto. eapply denotN_le; [|eassumption]. lia.
  Qed.

  Lemma upd_inv g s k t vs : Inv g s -> g k = Some t -> get_all s (t_deps t) = Some vs ->
    Inv g (upd s k (t_fn t vs)).
  Proof.
    intros HI Hg Hget k' v'. unfold upd. destruct (keqb_spec k' k) as [->|Hne].
    - intros [= <-]. destruct (get_all_denot g s HI _ _ Hget) as [N HN].
      exists (S N), t, vs. auto.
    - apply HI.
  Qed.

  Theorem exec_inv g : forall ks s s', Inv g s -> exec g s ks = Some s' -> Inv g s'.
  Proof.
    induction ks as [|k r IH]; intros s s' HI H; simpl in H; [now inversion H; subst|].
    destruct (g k) as [t|] eqn:Hg; [|discriminate].
    destruct (get_all s (t_deps t)) as [vs|] eqn:Hget; [|discriminate].
    eapply IH; [|exact H]. now apply upd_inv.
  Qed.

  Lemma empty_inv g : Inv g empty.
  Proof. intros k v H. discriminate. Qed.

  (* any two valid schedules (orders, re-executions) agree on every key both computed *)
  Theorem schedule_independent g ks1 ks2 s1 s2 :
    exec g empty ks1 = Some s1 -> exec g empty ks2 = Some s2 ->
    forall k v1 v2, s1 k = Some v1 -> s2 k = Some v2 -> v1 = v2.
  Proof.
    intros H1 H2 k v1 v2 Hk1 Hk2.
    destruct (exec_inv g ks1 empty s1 (empty_inv g) H1 k v1 Hk1) as [n Hn].
    destruct (exec_inv g ks2 empty s2 (empty_inv g) H2 k v2 Hk2) as [m Hm].
    eapply denotN_functional; eassumption.
  Qed.

  (* re-executing any tasks after a complete run changes nothing that was already computed *)
  Theorem reexecution_harmless g ks extra s s' :
    exec g empty ks = Some s -> exec g s extra = Some s' ->
    forall k v, s k = Some v -> s' k = Some v.
  Proof.
    intros H1 H2.
    assert (HI : Inv g s) by (eapply exec_inv; [apply empty_inv|exact H1]).
    clear H1. revert s s' HI H2.
    induction extra as [|k r IH]; intros s s' HI H2 k0 v0 Hk0; simpl in H2; [now inversion H2; subst|].
    destruct (g k) as [t|] eqn:Hg; [|discriminate].
    destruct (get_all s (t_deps t)) as [vs|] eqn:Hget; [|discriminate].
    eapply IH; [| exact H2 |].
    - now apply upd_inv.
    - unfold upd. destruct (keqb_spec k0 k) as [->|Hne]; [|exact Hk0].
      f_equal. destruct (HI k v0 Hk0) as [n Hn].
      destruct (get_all_denot g s HI _ _ Hget) as [N HN].
      apply (denotN_functional g (S N) n k); [|exact Hn]. simpl. exists t, vs. auto.
  Qed.
End Exec.
