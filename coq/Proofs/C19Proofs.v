(* outcome rows of the configuration grid (one row = one cell without its method, with the outcomes
   of the four methods) and the boolean checker evaluated on the generated table *)
From Coq Require Import ZArith String List Bool.
Import ListNotations.

(* outcome of one (cell, method): 0 Ok | 1 ValueError | 2 NotImplementedError | 3 ImportError | 4 internal error ;
   [same] = the computed values and labels equal those of method="map-reduce" *)
Record mres : Type := mkM { o_call : nat; o_compute : nat; same : bool }.
Record grow : Type := mkRow { r_auto : mres; r_mr : mres; r_cohorts : mres; r_blockwise : mres }.

Definition refusal_or_ok (n : nat) : bool := Nat.ltb n 4.
Definition succeeded (m : mres) : bool := Nat.eqb (o_call m) 0 && Nat.eqb (o_compute m) 0.
Definition clean (m : mres) : bool := refusal_or_ok (o_call m) && refusal_or_ok (o_compute m).

Definition no_internal (r : grow) : bool := clean (r_auto r) && clean (r_mr r) && clean (r_cohorts r) && clean (r_blockwise r).
Definition mr_ok (r : grow) : bool := succeeded (r_mr r).
Definition auto_ok (r : grow) : bool := succeeded (r_auto r) && same (r_auto r).
Definition explicit_one (m : mres) : bool := if succeeded m then same m else clean m.
Definition explicit_ok (r : grow) : bool := (negb (mr_ok r)) || (explicit_one (r_cohorts r) && explicit_one (r_blockwise r)).

Definition row_ok (r : grow) : bool :=
  no_internal r && (negb (mr_ok r) || auto_ok r) && explicit_ok r.
Definition grid_ok (rows : list grow) : bool := forallb row_ok rows.

Lemma checker_sound : forall rows, grid_ok rows = true ->
  forall r, In r rows -> no_internal r = true /\ (mr_ok r = true -> auto_ok r = true) /\ explicit_ok r = true.
Proof.
  intros rows H r Hin. unfold grid_ok in H. rewrite forallb_forall in H. specialize (H r Hin).
  unfold row_ok in H. apply andb_prop in H. destruct H as [H H3]. apply andb_prop in H. destruct H as [H1 H2].
  repeat split; auto. intros Hm. rewrite Hm in H2. exact H2.
Qed.
