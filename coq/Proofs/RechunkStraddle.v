(* C17, second half: after _get_optimal_chunks_for_groups with SEQUENTIAL labels (every label occupies
   one contiguous run of the axis, in any order of label values) no group straddles a chunk boundary.
   Key fact: every boundary the loop emits is the first index of some label or one past the last index
   of some label; with contiguous runs both are places where no label continues across. *)
From Coq Require Import ZArith String List Bool Lia.
From Flox Require Import Factorize FactorizeLaw Rechunk RechunkLaw.
Import ListNotations.
Open Scope Z_scope.

(* every label occupies a contiguous run *)
Definition contiguous (labels : list Z) : Prop :=
  forall i j k, 0 <= i -> i < j -> j < k -> k < zlength labels ->
    znth labels i = znth labels k -> znth labels j = znth labels i.

(* no label occurs on both sides of the boundary placed before index b *)
Definition no_straddle (labels : list Z) (b : Z) : Prop :=
  forall i k, 0 <= i -> i < b -> b <= k -> k < zlength labels -> znth labels i <> znth labels k.

Lemma znth_nth_error l i x : 0 <= i -> nth_error l (Z.to_nat i) = Some x -> znth l i = x.
Proof. intros _ H. unfold znth. now apply nth_error_nth. Qed.

Lemma nth_error_znth l i : 0 <= i < zlength l -> nth_error l (Z.to_nat i) = Some (znth l i).
Proof.
  intros H. unfold znth, zlength in *. apply nth_error_nth'. lia.
Qed.

(* ---------- first occurrence ---------- *)
Lemma zfirst_spec x l : In x l ->
  let f := zfirst_index x l in
  0 <= f < zlength l /\ znth l f = x /\ forall i, 0 <= i < f -> znth l i <> x.
Proof.
  intros Hin f. unfold f, zfirst_index.
  destruct (zindex_range x l) as [E|E]; [apply zindex_notin in E; contradiction|].
  rewrite Z.max_r by lia. unfold zlength. split; [lia|].
  destruct (zindex_nth x l (Z.to_nat (zindex x l))) as [H1 H2]; [lia|].
  split; [apply znth_nth_error; [lia| exact H1]|].
  intros i Hi Hx. apply (H2 (Z.to_nat i)); [lia|].
  rewrite nth_error_znth by (unfold zlength; lia). now rewrite Hx.
Qed.

(* ---------- last occurrence ---------- *)
Lemma zlast_from_spec x : forall l i best,
  let r := zlast_from i x l best in
  (r = best /\ ~ In x l) \/
  (exists k, r = i + Z.of_nat k /\ nth_error l k = Some x /\ forall k', (k < k')%nat -> nth_error l k' <> Some x).
Proof.
  induction l as [|y t IH]; intros i best; simpl; [left; tauto|].
  destruct (Z.eqb_spec x y) as [->|Hne].
  - destruct (IH (i + 1) i) as [[E Hn]|[k [E [Hk Hl]]]].
    + right. exists 0%nat. split; [lia|]. split; [reflexivity|].
      intros [|k'] Hk'; [lia|]. simpl. intros Hc. apply Hn. eapply nth_error_In; eauto.
    + right. exists (S k). split; [lia|]. split; [exact Hk|].
      intros [|k'] Hk'; [lia|]. simpl. apply Hl. lia.
  - destruct (IH (i + 1) best) as [[E Hn]|[k [E [Hk Hl]]]].
    + left. split; [exact E|]. intros [H|H]; [congruence| contradiction].
    + right. exists (S k). split; [lia|]. split; [exact Hk|].
      intros [|k'] Hk'; [lia|]. simpl. apply Hl. lia.
Qed.

Lemma zlast_spec x l : In x l ->
  let r := zlast_index x l in
  0 <= r < zlength l /\ znth l r = x /\ forall i, r < i < zlength l -> znth l i <> x.
Proof.
  intros Hin r. unfold r, zlast_index.
  destruct (zlast_from_spec x l 0 0) as [[_ Hn]|[k [E [Hk Hl]]]]; [contradiction|].
  rewrite E. assert (Hlt : (k < length l)%nat) by (apply nth_error_Some; congruence).
  unfold zlength. split; [lia|]. split.
  - apply znth_nth_error; [lia|]. replace (Z.to_nat (0 + Z.of_nat k)) with k by lia. exact Hk.
  - intros i Hi Hx. apply (Hl (Z.to_nat i)); [lia|].
    rewrite nth_error_znth by (unfold zlength; lia). now rewrite Hx.
Qed.

(* ---------- a first index or a last index + 1 is never straddled ---------- *)
Lemma first_no_straddle labels x : contiguous labels -> In x labels ->
  no_straddle labels (zfirst_index x labels).
Proof.
  intros Hc Hin. destruct (zfirst_spec x labels Hin) as [Hr [Hx Hbefore]].
  set (f := zfirst_index x labels) in *.
  intros i k Hi Hif Hfk Hk Heq.
  destruct (Z.eq_dec k f) as [->|Hne].
  - apply (Hbefore i); [lia|]. now rewrite Heq.
  - assert (Hj : znth labels f = znth labels i) by (apply (Hc i f k); lia || assumption).
    apply (Hbefore i); [lia|]. now rewrite <- Hj.
Qed.

Lemma last_no_straddle labels x : contiguous labels -> In x labels ->
  no_straddle labels (zlast_index x labels + 1).
Proof.
  intros Hc Hin. destruct (zlast_spec x labels Hin) as [Hr [Hx Hafter]].
  set (l := zlast_index x labels) in *.
  intros i k Hi Hil Hlk Hk Heq.
  destruct (Z.eq_dec i l) as [->|Hne].
  - apply (Hafter k); [lia|]. now rewrite <- Heq.
  - assert (Hj : znth labels l = znth labels i) by (apply (Hc i l k); lia || assumption).
    apply (Hafter k); [lia|]. rewrite <- Heq, <- Hj. exact Hx.
Qed.

(* ---------- what the loop can emit ---------- *)
Lemma opt_loop_in ts : forall cur b, In b (opt_loop ts cur) ->
  exists c f l, In (c, f, l) ts /\ (b = f \/ b = l + 1).
Proof.
  induction ts as [|[[c f] l] r IH]; intros cur b; simpl; [tauto|].
  destruct ((c =? 0) || (l <? cur)).
  - intros H. destruct (IH _ _ H) as [c' [f' [l' [Hin Hb]]]]. exists c', f', l'. split; [now right| exact Hb].
  - destruct ((Z.abs (c - f) <? Z.abs (c - l)) && (cur <? f)).
    + intros [<-|H]; [exists c, f, l; split; [now left| now left]|].
      destruct (IH _ _ H) as [c' [f' [l' [Hin Hb]]]]. exists c', f', l'. split; [now right| exact Hb].
    + intros [<-|H]; [exists c, f, l; split; [now left| now right]|].
      destruct (IH _ _ H) as [c' [f' [l' [Hin Hb]]]]. exists c', f', l'. split; [now right| exact Hb].
Qed.

Lemma zip3_map_in {A} (g h : A -> Z) : forall (a : list Z) (bl : list A) c f l,
  In (c, f, l) (zip3 a (map g bl) (map h bl)) -> exists x, In x bl /\ f = g x /\ l = h x.
Proof.
  induction a as [|u a IH]; intros bl c f l; [simpl; tauto|].
  destruct bl as [|x bl]; [simpl; tauto|]. simpl.
  intros [E|H].
  - inversion E; subst. exists x. split; [now left| split; reflexivity].
  - destruct (IH _ _ _ _ H) as [y [Hy Hfl]]. exists y. split; [now right| exact Hfl].
Qed.

Lemma list_eqb_eq a : forall b, list_eqb a b = true -> a = b.
Proof.
  induction a as [|x a IH]; intros [|y b]; simpl; try discriminate; [reflexivity|].
  intros H. apply andb_prop in H. destruct H as [H1 H2]. apply Z.eqb_eq in H1. subst. f_equal. now apply IH.
Qed.

(* cumulative sums of the differences of a list give back its tail *)
Lemma cumsum_from_diffs a rest : cumsum_from a (diffs (a :: rest)) = rest.
Proof.
  revert a. induction rest as [|b r IH]; intros a; [reflexivity|].
  change (diffs (a :: b :: r)) with ((b - a) :: diffs (b :: r)). simpl cumsum_from.
  replace (a + (b - a)) with b by lia. f_equal. apply IH.
Qed.

(* the chunk-end indices are valid positions *)
Lemma chunk_last_idx_range chunks : Forall (fun c => 0 < c) chunks ->
  Forall (fun c => 0 <= c < zsum chunks) (chunk_last_idx chunks).
Proof.
  unfold chunk_last_idx, cumsum. intros H.
  assert (G : forall acc, 0 <= acc -> Forall (fun c => acc <= c < acc + zsum chunks) (map (fun c => c - 1) (cumsum_from acc chunks))).
  { induction H as [|c cs Hc Hcs IH]; intros acc Hacc; [constructor|]. simpl.
    assert (0 <= zsum cs) by (clear - Hcs; induction Hcs; simpl; lia).
    constructor; [lia|]. eapply Forall_impl; [|apply (IH (acc + c)); lia]. simpl. intros; lia. }
  eapply Forall_impl; [|apply (G 0); lia]. simpl. intros; lia.
Qed.

(* ---------- the theorem ---------- *)
Theorem optimal_chunks_no_straddle chunks labels :
  chunks <> [] -> Forall (fun c => 0 < c) chunks -> zlength labels = zsum chunks ->
  contiguous labels ->
  forall b, In b (cumsum (optimal_chunks chunks labels)) -> no_straddle labels b.
Proof.
  intros Hne Hpos Hlen Hcont b Hb.
  assert (Hbl : forall x, In x (zsort (zuniq (map (znth labels) (chunk_last_idx chunks)))) -> In x labels).
  { intros x Hx. apply (Permutation.Permutation_in x (Permutation.Permutation_sym (zsort_perm _))) in Hx.
    apply (proj1 (zuniq_In _ _)) in Hx. apply in_map_iff in Hx. destruct Hx as [c [<- Hc]].
    pose proof (chunk_last_idx_range chunks Hpos) as Hr. rewrite Forall_forall in Hr. specialize (Hr _ Hc).
    unfold znth. apply nth_In. unfold zlength in Hlen. lia. }
  unfold optimal_chunks in Hb.
  set (chunkidx := chunk_last_idx chunks) in *.
  set (bl := zsort (zuniq (map (znth labels) chunkidx))) in *.
  destruct (list_eqb chunkidx (map (fun x => zlast_index x labels) bl)) eqn:Eq.
  - (* chunks already end where groups end *)
    apply list_eqb_eq in Eq.
    assert (Hin : In (b - 1) chunkidx).
    { unfold chunkidx, chunk_last_idx. apply in_map_iff. exists b. split; [reflexivity| exact Hb]. }
    rewrite Eq in Hin. apply in_map_iff in Hin. destruct Hin as [x [Hx Hxin]].
    replace b with (zlast_index x labels + 1) by lia. apply last_no_straddle; [exact Hcont| now apply Hbl].
  - set (ts := zip3 chunkidx (map (fun x => zfirst_index x labels) bl) (map (fun x => zlast_index x labels) bl)) in *.
    set (idx := 0 :: opt_loop ts 0) in *.
    set (total := last chunkidx 0 + 1) in *.
    assert (Htot : total = zlength labels) by (unfold total, chunkidx; rewrite chunk_last_idx_last by exact Hne; lia).
    assert (Hin : In b (opt_loop ts 0) \/ b = total).
    { unfold cumsum in Hb. destruct (last idx 0 =? total).
      - unfold idx in Hb. rewrite cumsum_from_diffs in Hb. now left.
      - unfold idx in Hb. change ((0 :: opt_loop ts 0) ++ [total]) with (0 :: (opt_loop ts 0 ++ [total])) in Hb.
        rewrite cumsum_from_diffs in Hb. apply in_app_or in Hb. destruct Hb as [H|[H|[]]]; [now left| right; congruence]. }
    destruct Hin as [Hin| ->].
    + destruct (opt_loop_in ts 0 b Hin) as [c [f [l [Ht Hfl]]]].
      destruct (zip3_map_in _ _ _ _ _ _ _ Ht) as [x [Hx [-> ->]]].
      destruct Hfl as [-> | ->]; [apply first_no_straddle | apply last_no_straddle]; try exact Hcont; now apply Hbl.
    + intros i k _ _ Hk1 Hk2. lia.
Qed.

(* non-vacuity: a sequential label sequence whose label values are not increasing *)
Example contiguous_example : contiguous [2; 2; 0; 0; 0; 1].
Proof.
  intros i j k Hi Hij Hjk Hk. unfold zlength in Hk. simpl in Hk.
  assert (Hcases : i = 0 \/ i = 1 \/ i = 2 \/ i = 3 \/ i = 4 \/ i = 5) by lia.
  assert (Hcj : j = 0 \/ j = 1 \/ j = 2 \/ j = 3 \/ j = 4 \/ j = 5) by lia.
  assert (Hck : k = 0 \/ k = 1 \/ k = 2 \/ k = 3 \/ k = 4 \/ k = 5) by lia.
  destruct Hcases as [->|[->|[->|[->|[->| ->]]]]]; destruct Hck as [->|[->|[->|[->|[->| ->]]]]]; try lia;
    destruct Hcj as [->|[->|[->|[->|[->| ->]]]]]; try lia; unfold znth; simpl; intros; congruence.
Qed.

Example optimal_chunks_example : optimal_chunks [3; 3] [2; 2; 0; 0; 0; 1] = [2; 4].
Proof. reflexivity. Qed.

(* ---------- missing labels (code -1): attached to the preceding group ---------- *)
Lemma ffill_from_length prev l : length (ffill_from prev l) = length l.
Proof. revert prev. induction l as [|x r IH]; intros prev; simpl; [reflexivity|]. destruct (x <? 0); simpl; now rewrite IH. Qed.

Lemma ffill_from_keeps l : forall prev k x, nth_error l k = Some x -> 0 <= x -> nth_error (ffill_from prev l) k = Some x.
Proof.
  induction l as [|y r IH]; intros prev [|k] x Hk Hx; simpl in *; try discriminate.
  - inversion Hk; subst. destruct (Z.ltb_spec x 0); [lia| reflexivity].
  - destruct (y <? 0); simpl; now apply IH.
Qed.

Lemma fill_missing_length l : length (fill_missing l) = length l.
Proof. unfold fill_missing. destruct (filter _ l); [reflexivity| apply ffill_from_length]. Qed.

Lemma fill_missing_keeps l i : 0 <= i < zlength l -> 0 <= znth l i -> znth (fill_missing l) i = znth l i.
Proof.
  intros Hi Hx. unfold fill_missing. destruct (filter (fun x => 0 <=? x) l) as [|v t]; [reflexivity|].
  apply znth_nth_error; [lia|]. apply ffill_from_keeps; [now apply nth_error_znth| exact Hx].
Qed.

(* real groups (non-negative codes) do not straddle the boundaries chosen for labels with missing entries,
   provided the runs are contiguous once the missing entries are attached to their predecessors *)
Theorem optimal_chunks_missing_no_straddle chunks labels :
  chunks <> [] -> Forall (fun c => 0 < c) chunks -> zlength labels = zsum chunks ->
  (exists x, In x labels /\ 0 <= x) ->
  contiguous (fill_missing labels) ->
  forall b, In b (cumsum (optimal_chunks_missing chunks labels)) ->
  forall i k, 0 <= i -> i < b -> b <= k -> k < zlength labels ->
    0 <= znth labels i -> 0 <= znth labels k -> znth labels i <> znth labels k.
Proof.
  intros Hne Hpos Hlen [x [Hx Hx0]] Hcont b Hb i k Hi Hib Hbk Hk Hli Hlk.
  unfold optimal_chunks_missing in Hb.
  destruct (filter (fun x => 0 <=? x) labels) eqn:Ef.
  - exfalso. assert (In x (filter (fun x => 0 <=? x) labels)) by (apply filter_In; split; [exact Hx| now apply Z.leb_le]).
    rewrite Ef in H. destruct H.
  - assert (Hlen' : zlength (fill_missing labels) = zsum chunks).
    { unfold zlength in *. rewrite fill_missing_length. exact Hlen. }
    pose proof (optimal_chunks_no_straddle chunks (fill_missing labels) Hne Hpos Hlen' Hcont b Hb) as Hns.
    assert (Hzl : zlength (fill_missing labels) = zlength labels) by (unfold zlength; now rewrite fill_missing_length).
    specialize (Hns i k Hi Hib Hbk). rewrite Hzl in Hns. specialize (Hns Hk).
    rewrite !fill_missing_keeps in Hns by lia. exact Hns.
Qed.

Example missing_example : optimal_chunks_missing [2; 2; 2] [0; -1; 0; 1; 1; -1] = [3; 3].
Proof. reflexivity. Qed.
