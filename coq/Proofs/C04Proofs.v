From Coq Require Import ZArith String List Bool.
From Flox Require Import ListX Val Agg ValAlg Hom Spec Pipeline PipelineLaw Registry Cases.
Import ListNotations.

Lemma registry_lawful : forallb lawful_dec aggregations = true.
Proof. vm_compute. reflexivity. Qed.

Lemma split_law :
  forall a, In a aggregations -> a_rtype a = Reduce ->
  forall chs cbs, a_chunk a = Some chs -> a_combine a = Some cbs ->
  forall i ch cb f, nth_error chs i = Some ch -> nth_error cbs i = Some cb ->
                    nth_error (a_fill a) i = Some f ->
    fill_sem f = Some (kern ch []) /\
    forall parts : list (list xval), kern cb (map (kern ch) parts) = kern ch (concat parts).
Proof.
  intros a Hin Hr chs cbs Hc Hb.
  pose proof registry_lawful as HL. rewrite forallb_forall in HL. specialize (HL a Hin).
  unfold lawful_dec in HL. rewrite Hr, Hc, Hb in HL.
  intros i ch cb f. now apply lawful_triples_sound.
Qed.

Lemma allnan_neutral :
  forall o r, red_of o = Some r -> r_skip r = true ->
  forall l, forallb is_nan l = true -> kern o l = kern o [].
Proof.
  intros o r Ho Hs l Hl. unfold kern. rewrite Ho.
  rewrite run_red_nil. now apply run_red_allnan.
Qed.

Lemma any_tree :
  forall ch cb f, lawful_triple ch cb f = true ->
  forall t : tree (list xval), twf t ->
    teval (kern ch) (kern cb) t = kern ch (concat (leaves t)).
Proof.
  intros ch cb f H t Hwf.
  exact (tree_law (alg_of ch cb) (lawful_triple_Lawful _ _ _ H) t Hwf).
Qed.

(* ---- the per-call specialisation (_initialize_aggregation), observed by T1 ---- *)
Fixpoint ops_eqb (a b : list opname) : bool :=
  match a, b with
  | [], [] => true
  | x :: a', y :: b' => opname_eqb x y && ops_eqb a' b'
  | _, _ => false
  end.

Definition init_row_ok
  (row : string * Z * string * option (Z * option (list opname) * option (list opname) * list fillv)) : bool :=
  let '(name, _, dt, r) := row in
  match r with
  | None => true                                   (* the call was refused *)
  | Some (mc, chs, cbs, fills) =>
      match find_agg name with
      | None => false
      | Some a =>
          match a_rtype a, chs, cbs with
          | Reduce, Some c, Some b =>
              (* nanfirst/nanlast on non-float data have no NaN fill: dask_groupby_agg then always takes the
                 grouped combine, which never uses the intermediate fill *)
              let fills' := if (String.eqb name "nanfirst" || String.eqb name "nanlast") && negb (String.eqb dt "float64")
                            then eff_fill a mc else fills in
              lawful_triples c b fills' && ops_eqb (eff_chunk a mc) c && ops_eqb (eff_combine a mc) b
          | Reduce, None, None => true
          | ArgReduce, Some c, Some b =>
              match c, b, fills with
              | [_; _], [_; _], [_; _] => lawful_arg a && ops_eqb (eff_chunk a mc) c && ops_eqb (eff_combine a mc) b
              | [_; _; n], [_; _; s], [_; _; f] =>
                  lawful_arg a && lawful_triple n s f && ops_eqb (eff_chunk a mc) c && ops_eqb (eff_combine a mc) b
              | _, _, _ => false
              end
          | _, _, _ => false
          end
      end
  end.

Lemma initialised_lawful : forallb init_row_ok initialised = true.
Proof. vm_compute. reflexivity. Qed.

(* user-defined examples: "range = max - min" carried as the pair (max, min) *)
Example user_pair_lawful :
  lawful_triples [OMax; OMin] [OMax; OMin] [FvNinf; FvInf] = true.
Proof. reflexivity. Qed.
(* ... and an unlawful one is rejected: a count combined with max *)
Example bad_count_rejected : lawful_triple ONanlen OMax (FvNum 0) = false.
Proof. reflexivity. Qed.
Example bad_fill_rejected : lawful_triple ONanmax ONanmax (FvNum 0) = false.
Proof. reflexivity. Qed.
