From Coq Require Import ZArith String List Bool.
From Flox Require Import ListX Val Agg ValAlg Hom Registry.
Import ListNotations.

Lemma registry_lawful : forallb lawful_dec aggregations = true.
Proof. vm_compute. reflexivity. Qed.

Lemma split_law :
  forall a, In a aggregations -> a_rtype a = Reduce ->
  forall chs cbs, a_chunk a = Some chs -> a_combine a = Some cbs ->
  forall i ch cb f, nth_error chs i = Some ch -> nth_error cbs i = Some cb ->
                    nth_error (a_fill a) i = Some f ->
    fill_sem f = Some (kern ch []) /\
    forall parts : list (list xval), kern cb (map (kern ch) parts) = kern ch (concat parts).
Proof.
  intros a Hin Hr chs cbs Hc Hb.
  pose proof registry_lawful as HL. rewrite forallb_forall in HL. specialize (HL a Hin).
  unfold lawful_dec in HL. rewrite Hr, Hc, Hb in HL.
  intros i ch cb f. now apply lawful_triples_sound.
Qed.

Lemma allnan_neutral :
  forall o r, red_of o = Some r -> r_skip r = true ->
  forall l, forallb is_nan l = true -> kern o l = kern o [].
Proof.
  intros o r Ho Hs l Hl. unfold kern. rewrite Ho.
  rewrite run_red_nil. now apply run_red_allnan.
Qed.

Lemma any_tree :
  forall ch cb f, lawful_triple ch cb f = true ->
  forall t : tree (list xval), twf t ->
    teval (kern ch) (kern cb) t = kern ch (concat (leaves t)).
Proof.
  intros ch cb f H t Hwf.
  exact (tree_law (alg_of ch cb) (lawful_triple_Lawful _ _ _ H) t Hwf).
Qed.

(* user-defined examples: "range = max - min" carried as the pair (max, min) *)
Example user_pair_lawful :
  lawful_triples [OMax; OMin] [OMax; OMin] [FvNinf; FvInf] = true.
Proof. reflexivity. Qed.
(* ... and an unlawful one is rejected: a count combined with max *)
Example bad_count_rejected : lawful_triple ONanlen OMax (FvNum 0) = false.
Proof. reflexivity. Qed.
Example bad_fill_rejected : lawful_triple ONanmax ONanmax (FvNum 0) = false.
Proof. reflexivity. Qed.
