From Coq Require Import ZArith String List Bool Lia Sorted.
From Flox Require Import ListX Val Agg ValAlg Hom Spec Pipeline PipelineLaw Registry C04Proofs C02Proofs Factorize FactorizeLaw Reindex ReindexLaw.
Import ListNotations.
Open Scope Z_scope.

Lemma zrange_length s n : length (zrange s n) = n.
Proof. revert s. induction n; intros s; simpl; auto. Qed.

Lemma spec_length o kws mc fill n codes vals :
  length (spec_groupby o kws mc fill n codes vals) = n.
Proof. unfold spec_groupby. now rewrite map_length, zrange_length. Qed.

(* the count intermediate is the exact number of valid members *)
Lemma kern_nanlen X : kern ONanlen X = Fin (zlen (dropnan X)).
Proof.
  unfold kern. simpl. rewrite run_red_unfold. simpl. unfold zlen.
  induction (dropnan X) as [|x r IH]; [reflexivity|].
  unfold fold_red in *. cbn [fold_right r_m r_pre m_op pre_fn m_unit] in *. rewrite IH.
  cbn [xadd length]. f_equal. lia.
Qed.

Lemma tuple_of_app c1 c2 X : tuple_of (c1 ++ c2) X = tuple_of c1 X ++ tuple_of c2 X.
Proof. unfold tuple_of. apply map_app. Qed.

Lemma last_app1 {A} (l : list A) x d : last (l ++ [x]) d = x.
Proof. induction l as [|y r IH]; [reflexivity|]. simpl. destruct (r ++ [x]) eqn:E; [destruct r; discriminate|]. exact IH. Qed.

(* min_count masking in every chunked plan: applied on the exact valid count, with the user's
   fill verbatim *)
Theorem mask_exact :
  forall a, In a aggregations -> a_rtype a = Reduce ->
  forall chs cbs, a_chunk a = Some chs -> a_combine a = Some cbs ->
  forall kws mc fill (t : tree block) g, 0 < mc ->
    chunked_simple a kws mc fill t g
    = if zlen (dropnan (tree_vals g t)) <? mc then option_map Plain fill
      else Some (eval_finalizer (a_finalize a) (tuple_of chs (tree_vals g t)) kws).
Proof.
  intros a Hin Hr chs cbs Hc Hb kws mc fill t g Hmc.
  rewrite (simple_any_tree a Hin Hr chs cbs Hc Hb).
  unfold finalize_group, eff_chunk. rewrite Hc.
  assert (E : 0 <? mc = true) by (apply Z.ltb_lt; exact Hmc). rewrite E.
  rewrite tuple_of_app. unfold get_count.
  change (tuple_of [ONanlen] (tree_vals g t)) with [kern ONanlen (tree_vals g t)].
  rewrite last_app1, kern_nanlen, removelast_last. reflexivity.
Qed.

Theorem nomask_when_zero :
  forall a, In a aggregations -> a_rtype a = Reduce ->
  forall chs cbs, a_chunk a = Some chs -> a_combine a = Some cbs ->
  forall kws fill (t : tree block) g,
    chunked_simple a kws 0 fill t g
    = Some (eval_finalizer (a_finalize a) (tuple_of chs (tree_vals g t)) kws).
Proof.
  intros a Hin Hr chs cbs Hc Hb kws fill t g.
  rewrite (simple_any_tree a Hin Hr chs cbs Hc Hb).
  unfold finalize_group, eff_chunk. rewrite Hc. reflexivity.
Qed.

(* the specification's own fill rule *)
Lemma spec_fill_absent o kws mc fill codes vals g :
  members g codes vals = [] -> spec_group o kws mc fill codes vals g = option_map Plain fill.
Proof. unfold spec_group. intros ->. simpl. destruct (valid_count [] <? mc); reflexivity. Qed.

Lemma spec_fill_mincount o kws mc fill codes vals g :
  valid_count (members g codes vals) < mc -> spec_group o kws mc fill codes vals g = option_map Plain fill.
Proof. unfold spec_group. intros H. apply Z.ltb_lt in H. now rewrite H. Qed.

Example c05_example :
  factorize true (Some [7; 3; 5]) [Some 3; None; Some 9; Some 7; Some 3]
  = ([3; 5; 7], [0; -1; -1; 2; 0]).
Proof. reflexivity. Qed.

Lemma labels_are_those_requested :
  forall ex labels, groups_of false (Some ex) labels = ex /\
                    (NoDup ex -> StronglySorted Z.lt (groups_of true (Some ex) labels)).
Proof.
  intros ex labels. split; [reflexivity|].
  intros H. apply groups_sorted. now intros ? [= <-].
Qed.

Lemma reindex_one_slot :
  forall (from_ to : list Z) (fill : Z) vals j l,
    NoDup from_ -> length vals = length from_ -> nth_error to j = Some l ->
    length (reindex from_ to fill vals) = length to /\
    (forall i, nth_error from_ i = Some l -> nth j (reindex from_ to fill vals) fill = nth i vals fill) /\
    (~ In l from_ -> nth j (reindex from_ to fill vals) fill = fill).
Proof.
  intros from_ to fill vals j l Hnd Hlen Hj. split; [apply reindex_length|]. now apply reindex_slot.
Qed.
