(* C06 lemmas: the (value, index) arg-extreme operator "leftmost extreme wins" is associative on
   NaN-free values, so re-running the arg reduction over partial results along ANY tree gives the
   global position of the first occurrence of the extreme. *)
From Coq Require Import ZArith String List Bool Lia.
From Flox Require Import ListX Val Agg Spec Pipeline ArgRed Hom.
Import ListNotations.
Open Scope Z_scope.

Definition nn (pv : Z * xval) : Prop := is_nan (snd pv) = false.

Lemma pick_nn d a b : nn a -> nn b -> nn (pick d a b).
Proof. unfold pick. intros Ha Hb. destruct (better d (snd b) (snd a)); assumption. Qed.

Lemma pick_assoc d a b c : nn a -> nn b -> nn c -> pick d (pick d a b) c = pick d a (pick d b c).
Proof.
  destruct a as [pa va], b as [pb vb], c as [pc vc]. unfold nn, pick, better. simpl.
  intros Ha Hb Hc.
  destruct d; destruct va as [x| | |], vb as [y| | |], vc as [z| | |]; try discriminate; simpl;
    repeat match goal with
           | |- context [?p <? ?q] => destruct (Z.ltb_spec p q); simpl
           end; try reflexivity; try lia.
Qed.

Lemma fold_pick_nn d l x : nn x -> Forall nn l -> nn (fold_left (pick d) l x).
Proof.
  revert x. induction l as [|y r IH]; intros x Hx Hl; [exact Hx|]. inversion Hl; subst.
  simpl. apply IH; [now apply pick_nn| assumption].
Qed.

Lemma fold_pick_shift d l a b : nn a -> nn b -> Forall nn l ->
  pick d a (fold_left (pick d) l b) = fold_left (pick d) l (pick d a b).
Proof.
  revert b. induction l as [|y r IH]; intros b Ha Hb Hl; [reflexivity|]. inversion Hl; subst. simpl.
  rewrite IH by (auto using pick_nn). now rewrite pick_assoc.
Qed.

(* binary semigroup law *)
Lemma sfold_app d l1 l2 : Forall nn l1 -> Forall nn l2 -> l1 <> [] -> l2 <> [] ->
  sfold d (l1 ++ l2) =
  match sfold d l1, sfold d l2 with Some a, Some b => Some (pick d a b) | _, _ => None end.
Proof.
  intros H1 H2 N1 N2. destruct l1 as [|x r1]; [congruence|]. destruct l2 as [|y r2]; [congruence|].
  inversion H1; inversion H2; subst. simpl. f_equal. rewrite fold_left_app. simpl.
  rewrite fold_pick_shift; auto using fold_pick_nn.
Qed.

Lemma sfold_nn d l a : Forall nn l -> sfold d l = Some a -> nn a.
Proof. destruct l as [|x r]; [discriminate|]. intros H [= <-]. inversion H; subst. now apply fold_pick_nn. Qed.

Lemma somes_sfold_nn d ps : Forall (Forall nn) ps -> Forall nn (somes (map (sfold d) ps)).
Proof.
  induction 1 as [|q qs Hq _ IHq]; [constructor|]. simpl.
  destruct (sfold d q) as [a|] eqn:Eq; [|exact IHq]. constructor; [|exact IHq]. exact (sfold_nn d q a Hq Eq).
Qed.

(* n-ary law: re-running the arg reduction on the partial results of the parts (absent parts skipped) *)
Theorem sfold_concat d (parts : list (list (Z * xval))) : Forall (Forall nn) parts ->
  sfold d (somes (map (sfold d) parts)) = sfold d (concat parts).
Proof.
  induction 1 as [|p ps Hp Hps IH]; [reflexivity|]. simpl.
  destruct p as [|x r]; [exact IH|].
  assert (Hc : Forall nn (concat ps)) by now apply Forall_concat.
  destruct (concat ps) as [|y r2] eqn:Ec.
  - (* nothing after this part *)
    rewrite app_nil_r.
    assert (Es : somes (map (sfold d) ps) = []).
    { destruct (somes (map (sfold d) ps)) eqn:E; [reflexivity|]. simpl in IH. discriminate. }
    change (sfold d (x :: r)) with (Some (fold_left (pick d) r x)). simpl. rewrite Es. reflexivity.
  - rewrite (sfold_app d (x :: r) (y :: r2)) by (auto; discriminate).
    change (sfold d (x :: r)) with (Some (fold_left (pick d) r x)). cbn [somes].
    destruct (somes (map (sfold d) ps)) as [|b bs] eqn:Es; [simpl in IH; discriminate|].
    cbn [sfold] in IH |- *. inversion IH as [IH']. f_equal.
    assert (Hb : Forall nn (b :: bs)) by (rewrite <- Es; now apply somes_sfold_nn).
    inversion Hb; subst. inversion Hp; subst.
    simpl. symmetry. apply fold_pick_shift; auto using fold_pick_nn.
Qed.

(* ---------- what sfold computes: an extreme element; ties resolved to the left ---------- *)
Definition nb (d : argdir) (y r : Z * xval) : Prop := better d (snd y) (snd r) = false.

Lemma nb_refl d a : nn a -> nb d a a.
Proof. destruct a as [p [v| | |]]; unfold nn, nb; destruct d; simpl; try discriminate; intros _; try reflexivity; apply Z.ltb_irrefl. Qed.

Lemma nb_trans d a b c : nn a -> nn b -> nn c -> nb d a b -> nb d b c -> nb d a c.
Proof.
  destruct a as [pa [x| | |]], b as [pb [y| | |]], c as [pc [z| | |]]; unfold nn, nb; destruct d; simpl;
    try discriminate; intros _ _ _ H1 H2; try reflexivity; try discriminate;
    repeat match goal with
           | H : (_ <? _) = false |- _ => apply Z.ltb_ge in H
           end; try (apply Z.ltb_ge; lia).
Qed.

Lemma pick_l d a b : nn a -> nn b -> nb d a (pick d a b).
Proof.
  intros Ha Hb. unfold pick. destruct (better d (snd b) (snd a)) eqn:E; [|now apply nb_refl].
  destruct a as [pa [x| | |]], b as [pb [y| | |]]; unfold nn, nb in *; destruct d; simpl in *; try discriminate; try reflexivity;
    apply Z.ltb_lt in E; apply Z.ltb_ge; lia.
Qed.

Lemma pick_r d a b : nn a -> nn b -> nb d b (pick d a b).
Proof.
  intros Ha Hb. unfold pick. destruct (better d (snd b) (snd a)) eqn:E; [now apply nb_refl| exact E].
Qed.

Lemma pick_in d a b : pick d a b = a \/ pick d a b = b.
Proof. unfold pick. destruct (better d (snd b) (snd a)); auto. Qed.

Theorem fold_pick_spec d : forall l x, nn x -> Forall nn l ->
  In (fold_left (pick d) l x) (x :: l) /\
  (forall y, In y (x :: l) -> nb d y (fold_left (pick d) l x)).
Proof.
  induction l as [|y l IH]; intros x Hx Hl.
  - simpl. split; [now left|]. intros y [<-|[]]. now apply nb_refl.
  - inversion Hl; subst. cbn [fold_left].
    destruct (IH (pick d x y) (pick_nn d x y Hx H1) H2) as [Hin Hbest].
    assert (Hr : nn (fold_left (pick d) l (pick d x y))) by (apply fold_pick_nn; auto using pick_nn).
    split.
    + destruct Hin as [E|Hin]; [|right; right; exact Hin].
      rewrite <- E. destruct (pick_in d x y) as [->| ->]; [now left| right; now left].
    + intros z [<-|[<-|Hz]].
      * eapply (nb_trans d x (pick d x y)); auto using pick_nn, pick_l. apply Hbest. now left.
      * eapply (nb_trans d y (pick d x y)); auto using pick_nn, pick_r. apply Hbest. now left.
      * apply Hbest. now right.
Qed.

(* ---------- any reduction tree ---------- *)
Lemma arg_tree_generic d (f : block -> list (Z * xval)) :
  forall t, Forall (fun b => Forall nn (f b)) (leaves t) ->
    teval (fun b => sfold d (f b)) (arg_node d) t = sfold d (concat (map f (leaves t))).
Proof.
  induction t as [b|ts IH] using tree_ind'; intros Hnn.
  - simpl. now rewrite app_nil_r.
  - cbn [teval leaves].
    assert (Hmap : map (teval (fun b => sfold d (f b)) (arg_node d)) ts
                   = map (sfold d) (map (fun t => concat (map f (leaves t))) ts)).
    { rewrite map_map. apply map_ext_in. intros t Hin. rewrite Forall_forall in IH. apply IH; [exact Hin|].
      rewrite Forall_forall in *. intros b Hb. apply Hnn. simpl. apply in_concat. exists (leaves t). split; [|exact Hb].
      apply in_map_iff. now exists t. }
    rewrite Hmap. unfold arg_node. rewrite sfold_concat.
    + f_equal. rewrite map_concat, concat_concat, !map_map. reflexivity.
    + apply Forall_forall. intros X HX. apply in_map_iff in HX. destruct HX as [t [<- Hin]].
      apply Forall_concat. apply Forall_forall. intros Y HY. apply in_map_iff in HY. destruct HY as [b [<- Hb]].
      rewrite Forall_forall in Hnn. apply Hnn. simpl. apply in_concat. exists (leaves t). split; [|exact Hb].
      apply in_map_iff. now exists t.
Qed.

Lemma filter_nn l : Forall nn (filter notnan_pv l).
Proof. apply Forall_forall. intros x Hx. apply filter_In in Hx. destruct Hx as [_ H]. unfold notnan_pv, notnan, nn in *. now destruct (is_nan (snd x)). Qed.

(* NaN-propagating variants on NaN-free groups *)
Theorem arg_tree_exact d g t : Forall nn (all_members g (leaves t)) ->
  arg_tree d false g t = arg_direct d false (all_members g (leaves t)).
Proof.
  intros H. unfold arg_tree, arg_direct, all_members.
  rewrite <- (arg_tree_generic d (blk_members g) t).
  - clear H. induction t as [b|ts IH] using tree_ind'; simpl.
    + unfold arg_block. destruct (blk_members g b); reflexivity.
    + f_equal. apply map_ext_in. intros t Hin. rewrite Forall_forall in IH. now apply IH.
  - unfold all_members in H. apply Forall_forall. intros b Hb. apply Forall_forall. intros x Hx.
    rewrite Forall_forall in H. apply H. apply in_concat. exists (blk_members g b). split; [|exact Hx].
    apply in_map_iff. now exists b.
Qed.

(* NaN-skipping variants, when no block holds ONLY NaNs of the group *)
Definition no_allnan_block (g : Z) (t : tree block) : Prop :=
  Forall (fun b => blk_members g b = [] \/ filter notnan_pv (blk_members g b) <> []) (leaves t).

Theorem nanarg_tree_exact d g t : no_allnan_block g t ->
  arg_tree d true g t = arg_direct d true (all_members g (leaves t)).
Proof.
  intros H. unfold arg_tree, arg_direct, all_members.
  rewrite filter_concat, map_map.
  rewrite <- (arg_tree_generic d (fun b => filter notnan_pv (blk_members g b)) t).
  - unfold no_allnan_block in H. induction t as [b|ts IH] using tree_ind'; simpl.
    + simpl in H. inversion H as [|? ? Hb _]; subst. unfold arg_block.
      destruct (blk_members g b) as [|m ms] eqn:Em; [reflexivity|].
      destruct Hb as [Hb|Hb]; [discriminate|]. destruct (filter notnan_pv (m :: ms)); [congruence| reflexivity].
    + f_equal. apply map_ext_in. intros t Hin. rewrite Forall_forall in IH. apply IH; [exact Hin|].
      simpl in H. rewrite Forall_forall in *. intros b Hb. apply H. apply in_concat. exists (leaves t). split; [|exact Hb].
      apply in_map_iff. now exists t.
  - apply Forall_forall. intros b _. apply filter_nn.
Qed.

(* the known quirk: an all-NaN block contributes (sentinel, position of its first element), which
   wins a tie against a genuine -inf/+inf extreme that comes later *)
Example nanargmax_refuted :
  let t := Node [Leaf (mkBlock 0 [0; 1] [NaN; Fin 5]); Leaf (mkBlock 2 [0; 1] [NInf; Fin 7])] in
  arg_tree ArgMax true 0 t = Some (0, NInf) /\
  arg_direct ArgMax true (all_members 0 (leaves t)) = Some (2, NInf).
Proof. split; reflexivity. Qed.
