(* L-hom and L-tree: every reducer is a list homomorphism into its monoid; a lawful
   (chunk, combine, fill) triple therefore gives the same answer for every split of a
   group's members into ordered parts (including empty / all-NaN parts) and for every
   reduction tree. *)
From Coq Require Import ZArith List Bool Lia.
From Flox Require Import ListX Val Agg ValAlg.
Import ListNotations.
Open Scope Z_scope.

(* ------------------------------------------------------------------ *)
(* abstract algebra of partial results: what a *user* Aggregation must satisfy *)

Record Alg (E T : Type) : Type := mkAlg {
  interm : list E -> T;          (* block function on the members of one group in one block *)
  combN : list T -> T            (* n-ary combine of partial results, in block order *)
}.
Arguments interm {E T} _ _.
Arguments combN {E T} _ _.

Definition Lawful {E T} (a : Alg E T) : Prop :=
  forall parts : list (list E), parts <> [] ->
    combN a (map (interm a) parts) = interm a (concat parts).

(* L-tree: any finitely-branching tree over the blocks gives interm of all members *)
Theorem tree_law {E T} (a : Alg E T) :
  Lawful a ->
  forall t : tree (list E), twf t ->
    teval (interm a) (combN a) t = interm a (concat (leaves t)).
Proof.
  intros HL t. induction t as [b|ts IH] using tree_ind'; intros Hwf.
  - simpl. now rewrite app_nil_r.
  - apply twf_node in Hwf. destruct Hwf as [Hne Hall].
    cbn [teval leaves].
    assert (Hmap : map (teval (interm a) (combN a)) ts
                   = map (interm a) (map (fun t => concat (leaves t)) ts)).
    { rewrite map_map. apply map_ext_in. intros t Hin.
      rewrite Forall_forall in IH, Hall. apply IH; auto. }
    rewrite Hmap, HL.
    + f_equal. rewrite concat_concat, map_map. reflexivity.
    + destruct ts; [congruence| discriminate].
Qed.

Corollary tree_shape_irrelevant {E T} (a : Alg E T) :
  Lawful a -> forall t t' : tree (list E), twf t -> twf t' ->
  concat (leaves t) = concat (leaves t') ->
  teval (interm a) (combN a) t = teval (interm a) (combN a) t'.
Proof. intros HL t t' H1 H2 Heq. rewrite !tree_law by assumption. now rewrite Heq. Qed.

(* ------------------------------------------------------------------ *)
(* the reducers of Agg.v *)

Definition red_wf (r : red) : Prop :=
  match r_m r with
  | MAnd | MOr => r_pre r = PreBool
  | _ => True
  end.

Lemma pre_in_carrier r x : red_wf r -> in_carrier (r_m r) (pre_fn (r_pre r) x).
Proof.
  unfold red_wf. destruct r as [m p s]; simpl. destruct m; simpl; auto; intros ->; simpl; eexists; reflexivity.
Qed.

Definition fold_red (r : red) (l : list xval) : xval :=
  fold_right (fun x acc => m_op (r_m r) (pre_fn (r_pre r) x) acc) (m_unit (r_m r)) l.

Lemma run_red_unfold r l : run_red r l = fold_red r (if r_skip r then dropnan l else l).
Proof. reflexivity. Qed.

Lemma fold_red_carrier r l : red_wf r -> in_carrier (r_m r) (fold_red r l).
Proof.
  intros Hwf. induction l as [|x xs IH]; simpl.
  - apply m_unit_carrier.
  - apply m_op_carrier; [now apply pre_in_carrier | exact IH].
Qed.

Lemma fold_red_app r xs ys : red_wf r ->
  fold_red r (xs ++ ys) = m_op (r_m r) (fold_red r xs) (fold_red r ys).
Proof.
  intros Hwf. induction xs as [|x xs IH]; simpl.
  - symmetry. apply m_unit_l. now apply fold_red_carrier.
  - rewrite IH. apply m_op_assoc.
Qed.

Lemma run_red_carrier r l : red_wf r -> in_carrier (r_m r) (run_red r l).
Proof. intros. rewrite run_red_unfold. now apply fold_red_carrier. Qed.

(* the binary homomorphism law *)
Theorem run_red_app r xs ys : red_wf r ->
  run_red r (xs ++ ys) = m_op (r_m r) (run_red r xs) (run_red r ys).
Proof.
  intros Hwf. rewrite !run_red_unfold. destruct (r_skip r).
  - unfold dropnan. rewrite filter_app. now apply fold_red_app.
  - now apply fold_red_app.
Qed.

Lemma run_red_nil r : run_red r [] = m_unit (r_m r).
Proof. rewrite run_red_unfold. destruct (r_skip r); reflexivity. Qed.

(* a part holding only NaNs of the group is as good as an absent part, for NaN-skipping reducers *)
Lemma run_red_allnan r l : r_skip r = true -> forallb is_nan l = true ->
  run_red r l = m_unit (r_m r).
Proof.
  intros Hs Hall. rewrite run_red_unfold, Hs.
  replace (dropnan l) with (@nil xval); [reflexivity|].
  induction l as [|x xs IH]; [reflexivity|]. simpl in *.
  apply andb_prop in Hall. destruct Hall as [Hx Hxs]. unfold notnan. rewrite Hx. simpl. auto.
Qed.

(* n-ary: folding the monoid over the partial results of the parts *)
Theorem run_red_concat r parts : red_wf r ->
  fold_right (m_op (r_m r)) (m_unit (r_m r)) (map (run_red r) parts) = run_red r (concat parts).
Proof.
  intros Hwf. induction parts as [|p ps IH]; simpl.
  - now rewrite run_red_nil.
  - rewrite IH. symmetry. now apply run_red_app.
Qed.

Lemma red_of_wf o r : red_of o = Some r -> red_wf r.
Proof. destruct o; simpl; intros H; inversion H; subst; exact I || reflexivity. Qed.

Lemma xmax_notnan a b : is_nan a = false -> is_nan b = false -> is_nan (xmax a b) = false.
Proof. destruct a, b; simpl; congruence. Qed.
Lemma xmin_notnan a b : is_nan a = false -> is_nan b = false -> is_nan (xmin a b) = false.
Proof. destruct a, b; simpl; congruence. Qed.

Lemma fold_max_notnan l : forallb notnan l = true ->
  is_nan (fold_red (mkRed MMax PreId true) l) = false.
Proof.
  unfold fold_red. cbn [r_m r_pre m_op pre_fn m_unit].
  induction l as [|x xs IH]; cbn [fold_right forallb]; [reflexivity|]. intros Hall.
  apply andb_prop in Hall. destruct Hall as [Hx Hxs]. apply xmax_notnan; [|auto].
  unfold notnan in Hx. now destruct (is_nan x).
Qed.
Lemma fold_min_notnan l : forallb notnan l = true ->
  is_nan (fold_red (mkRed MMin PreId true) l) = false.
Proof.
  unfold fold_red. cbn [r_m r_pre m_op pre_fn m_unit].
  induction l as [|x xs IH]; cbn [fold_right forallb]; [reflexivity|]. intros Hall.
  apply andb_prop in Hall. destruct Hall as [Hx Hxs]. apply xmin_notnan; [|auto].
  unfold notnan in Hx. now destruct (is_nan x).
Qed.

(* image of NaN-free reducers *)
Lemma image_nanfree_sound r l : red_wf r -> image_nanfree r = true -> is_nan (run_red r l) = false.
Proof.
  intros Hwf. destruct r as [m p s]. unfold image_nanfree, red_wf in *. simpl in *.
  destruct m, p; try discriminate; intros Hs; subst; rewrite run_red_unfold; simpl.
  - (* MAdd PreOne *)
    set (l' := if s then dropnan l else l). clearbody l'.
    unfold fold_red. cbn [r_m r_pre m_op pre_fn m_unit].
    assert (H : exists n, fold_right (fun _ acc => xadd (Fin 1) acc) (Fin 0) l' = Fin n).
    { induction l' as [|x xs [n Hn]]; cbn [fold_right]; [now exists 0|].
      rewrite Hn. exists (1 + n). reflexivity. }
    destruct H as [n ->]. reflexivity.
  - (* MMax PreId skip *)
    apply fold_max_notnan. apply forallb_forall. intros x Hx. apply filter_In in Hx. tauto.
  - (* MMin PreId skip *)
    apply fold_min_notnan. apply forallb_forall. intros x Hx. apply filter_In in Hx. tauto.
  - destruct (run_red_carrier (mkRed MAnd PreBool s) l eq_refl) as [b Hb].
    rewrite run_red_unfold in Hb. simpl in Hb. rewrite Hb. destruct b; reflexivity.
  - destruct (run_red_carrier (mkRed MOr PreBool s) l eq_refl) as [b Hb].
    rewrite run_red_unfold in Hb. simpl in Hb. rewrite Hb. destruct b; reflexivity.
Qed.

(* ------------------------------------------------------------------ *)
(* soundness of the boolean classifier for (chunk, combine, fill) triples *)

Theorem lawful_triple_sound ch cb f :
  lawful_triple ch cb f = true ->
  fill_sem f = Some (kern ch []) /\
  forall parts : list (list xval),
    kern cb (map (kern ch) parts) = kern ch (concat parts).
Proof.
  unfold lawful_triple.
  destruct (red_of ch) as [rc|] eqn:Hc; [|discriminate].
  destruct (red_of cb) as [rb|] eqn:Hb; [|discriminate].
  destruct (fill_sem f) as [fv|] eqn:Hf; [|discriminate].
  assert (Hkc : kern ch = run_red rc) by (unfold kern; now rewrite Hc).
  assert (Hkb : kern cb = run_red rb) by (unfold kern; now rewrite Hb).
  rewrite Hkc, Hkb. clear Hkc Hkb.
  intros H. apply andb_prop in H. destruct H as [H Hfill].
  apply andb_prop in H. destruct H as [H Hskip].
  apply andb_prop in H. destruct H as [Hm Hpre].
  pose proof (red_of_wf _ _ Hc) as Hwc.
  assert (Hmeq : r_m rb = r_m rc).
  { destruct (r_m rc), (r_m rb); simpl in Hm; congruence. }
  split.
  - rewrite run_red_nil. f_equal.
    destruct fv, (m_unit (r_m rc)); simpl in Hfill; try discriminate; try reflexivity.
    apply Z.eqb_eq in Hfill. now subst.
  - intros parts. rewrite <- run_red_concat by assumption.
    rewrite run_red_unfold.
    (* the NaN-skipping of the combine is the identity on the partial results *)
    assert (Hdrop : (if r_skip rb then dropnan (map (run_red rc) parts) else map (run_red rc) parts)
                    = map (run_red rc) parts).
    { destruct (r_skip rb); [|reflexivity]. simpl in Hskip.
      unfold dropnan. apply forallb_filter_id'. apply forallb_forall.
      intros y Hy. apply in_map_iff in Hy. destruct Hy as [p [<- _]].
      unfold notnan. now rewrite image_nanfree_sound. }
    rewrite Hdrop. clear Hdrop. unfold fold_red. rewrite Hmeq.
    induction parts as [|p ps IH]; simpl; [reflexivity|]. rewrite IH. f_equal.
    (* the element-wise map of the combine is the identity on partial results *)
    destruct (r_pre rb); simpl; try reflexivity; try discriminate.
    pose proof (run_red_carrier rc p Hwc) as Hcar.
    destruct (r_m rc) eqn:Hmc; try discriminate;
      (destruct Hcar as [b Hb']; rewrite Hb'; destruct b; reflexivity).
Qed.

(* the Alg instance of one component of a built-in aggregation *)
Definition alg_of (ch cb : opname) : Alg xval xval := mkAlg xval xval (kern ch) (kern cb).

Corollary lawful_triple_Lawful ch cb f :
  lawful_triple ch cb f = true -> Lawful (alg_of ch cb).
Proof. intros H parts _. apply (proj2 (lawful_triple_sound _ _ _ H)). Qed.

(* component-wise statement for a whole blueprint *)
Theorem lawful_triples_sound chs cbs fs :
  lawful_triples chs cbs fs = true ->
  forall i ch cb f, nth_error chs i = Some ch -> nth_error cbs i = Some cb -> nth_error fs i = Some f ->
    fill_sem f = Some (kern ch []) /\
    forall parts, kern cb (map (kern ch) parts) = kern ch (concat parts).
Proof.
  revert cbs fs. induction chs as [|c chs IH]; intros [|b cbs] [|f0 fs]; simpl; try discriminate.
  - intros _ [|i]; discriminate.
  - intros H. apply andb_prop in H. destruct H as [H1 H2].
    intros [|i] ch cb f; simpl.
    + intros [= <-] [= <-] [= <-]. now apply lawful_triple_sound.
    + apply IH. exact H2.
Qed.
