From Coq Require Import ZArith String List Bool Sorted Permutation.
From Flox Require Import Val Agg Spec Pipeline Factorize FactorizeLaw.
Import ListNotations.
Open Scope Z_scope.

Lemma groups_perm expected labels : Permutation (groups_of true expected labels) (groups_of false expected labels).
Proof. unfold groups_of. destruct expected; symmetry; apply zsort_perm. Qed.

Lemma somesZ_In labels x : In x (somesZ labels) <-> In (Some x) labels.
Proof.
  induction labels as [|[y|] r IH]; simpl; [tauto| |].
  - rewrite IH. split; [intros [->|H]; auto| intros [[= ->]|H]; auto].
  - rewrite IH. split; [auto| intros [H|H]; [discriminate| exact H]].
Qed.

Lemma discovered_exact sort labels x : In x (groups_of sort None labels) <-> In (Some x) labels.
Proof.
  unfold groups_of. rewrite <- somesZ_In, <- (zuniq_In (somesZ labels) x). destruct sort; [|tauto].
  split; intros H; [eapply Permutation_in; [symmetry; apply zsort_perm| exact H] | eapply Permutation_in; [apply zsort_perm| exact H]].
Qed.

Lemma mapping_invariant sort expected labels vals x k :
  (forall ex, expected = Some ex -> NoDup ex) ->
  nth_error (groups_of sort expected labels) k = Some x ->
  vals_of (Z.of_nat k) (map (code_of (groups_of sort expected labels)) labels) vals = labelled x labels vals.
Proof. intros Hnd Hk. apply members_of_slot; [now apply groups_NoDup| exact Hk]. Qed.

Lemma discovered_mapping_sorted :
  forall labels vals x k,
    nth_error (groups_of true None labels) k = Some x ->
    vals_of (Z.of_nat k) (map (code_of (groups_of true None labels)) labels) vals = labelled x labels vals.
Proof.
  intros labels vals x k H. apply (mapping_invariant true None labels vals x k); [|exact H].
  intros ex Hex. discriminate.
Qed.
