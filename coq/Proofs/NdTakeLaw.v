(* NdTakeLaw.v — laws of indexing an n-d array ONE AXIS AT A TIME with a list of positions (numpy: a[(slice(None),)*ax + (sel,)]),
   as subset_to_blocks does with the block-key array of a dask array (after fix a2bf6d7), and the law that makes the
   cohort's graph wiring right: output position (p0, p1, ...) holds the input element (sel0[p0], sel1[p1], ...). *)
From Coq Require Import List Arith Bool Lia.
From Flox Require Import NdShape NdShapeLaw NdTake.
Import ListNotations.

Section Take.
  Variable A : Type.
  Variable d : A.
  Local Notation take_axis := (NdTake.take_axis A d).
  Local Notation take_all := (NdTake.take_all A d).

  Lemma take_axis_get ax sel a idx' :
    in_range (replace_nth ax (length sel) (shape a)) idx' ->
    get A d (take_axis ax sel a) idx' = get A d a (replace_nth ax (nth (nth ax idx' 0) sel 0) idx').
  Proof.
    intros H. unfold get at 1. unfold take_axis. cbn [shape data].
    rewrite nth_map_seq by (apply ravel_lt; exact H). cbv zeta. now rewrite unravel_ravel by exact H.
  Qed.

  Lemma replace_nth_app {T} (pre : list T) x y post :
    replace_nth (length pre) x (pre ++ y :: post) = pre ++ x :: post.
  Proof.
    unfold replace_nth. rewrite firstn_app, Nat.sub_diag, firstn_all, firstn_O, app_nil_r.
    replace (S (length pre)) with (length pre + 1) by lia. rewrite skipn_app.
    rewrite skipn_all2 by lia. replace (length pre + 1 - length pre) with 1 by lia. reflexivity.
  Qed.

  Lemma nth_app_mid {T} (pre : list T) x post dflt : nth (length pre) (pre ++ x :: post) dflt = x.
  Proof. rewrite app_nth2 by lia. now rewrite Nat.sub_diag. Qed.

  (* blocks requested on every axis exist *)
  Fixpoint sels_ok (sels : list (list nat)) (post : list nat) : Prop :=
    match sels, post with
    | [], [] => True
    | sel :: r, n :: pr => Forall (fun b => b < n) sel /\ sels_ok r pr
    | _, _ => False
    end.

  Lemma pick_in_range sels : forall post ppost,
    sels_ok sels post -> in_range (map (@length nat) sels) ppost -> in_range post (pick sels ppost).
  Proof.
    induction sels as [|sel r IH]; intros [|n pr] [|p pp] Hok Hr; simpl in *; try contradiction; try exact I.
    destruct Hok as [Hs Hok]. destruct Hr as [Hp Hr]. split.
    - rewrite Forall_forall in Hs. apply Hs. now apply nth_In.
    - now apply IH.
  Qed.

  Theorem take_all_get sels : forall pre post a ppre ppost,
    shape a = pre ++ post -> sels_ok sels post ->
    in_range pre ppre -> in_range (map (@length nat) sels) ppost ->
    get A d (take_all (length pre) sels a) (ppre ++ ppost) = get A d a (ppre ++ pick sels ppost)
    /\ shape (take_all (length pre) sels a) = pre ++ map (@length nat) sels.
  Proof.
    induction sels as [|sel r IH]; intros pre post a ppre ppost Hs Hok Hpre Hpost.
    - destruct post; [|contradiction]. destruct ppost; [|contradiction]. simpl. rewrite Hs. now rewrite !app_nil_r.
    - destruct post as [|n post']; [contradiction|]. destruct ppost as [|p pp]; [contradiction|].
      simpl in Hok, Hpost. destruct Hok as [Hsel Hok]. destruct Hpost as [Hp Hpp].
      cbn [take_all pick map].
      set (a1 := take_axis (length pre) sel a).
      assert (Hs1 : shape a1 = (pre ++ [length sel]) ++ post').
      { unfold a1, take_axis. cbn [shape]. rewrite Hs, replace_nth_app, <- app_assoc. reflexivity. }
      assert (Hlen : S (length pre) = length (pre ++ [length sel])) by (rewrite app_length; simpl; lia).
      rewrite Hlen.
      assert (Hpre1 : in_range (pre ++ [length sel]) (ppre ++ [p])) by (apply in_range_app; [exact Hpre| simpl; auto]).
      destruct (IH (pre ++ [length sel]) post' a1 (ppre ++ [p]) pp Hs1 Hok Hpre1 Hpp) as [Hget Hshape].
      split.
      + replace (ppre ++ p :: pp) with ((ppre ++ [p]) ++ pp) by (rewrite <- app_assoc; reflexivity).
        rewrite Hget. rewrite <- !app_assoc. cbn [app].
        unfold a1. rewrite take_axis_get.
        * assert (Hlp : length ppre = length pre) by (now apply in_range_length).
          rewrite <- Hlp. rewrite nth_app_mid, replace_nth_app. reflexivity.
        * rewrite Hs, replace_nth_app. apply in_range_app; [exact Hpre|]. simpl. split; [exact Hp|].
          now apply pick_in_range.
      + rewrite Hshape, <- app_assoc. reflexivity.
  Qed.
End Take.


Lemma get_key_array blk idx : in_range blk idx -> get nat 0 (key_array blk) idx = ravel blk idx.
Proof. intros H. unfold get, key_array. cbn [shape data]. rewrite seq_nth by (now apply ravel_lt). reflexivity. Qed.

(* SUBSET WIRING: indexing the key array one axis at a time with the selected blocks of every axis puts, at output position
   pos, the input block (sel_0[pos_0], sel_1[pos_1], ...) *)
Theorem subset_wiring blk sels pos :
  sels_ok sels blk -> in_range (map (@length nat) sels) pos ->
  get nat 0 (subset_sources blk sels) pos = ravel blk (pick sels pos)
  /\ shape (subset_sources blk sels) = map (@length nat) sels.
Proof.
  intros Hok Hpos. unfold subset_sources.
  destruct (take_all_get nat 0 sels [] blk (key_array blk) [] pos eq_refl Hok I Hpos) as [Hg Hs].
  cbn [length app] in Hg, Hs. split; [|exact Hs].
  rewrite Hg. apply get_key_array. now apply pick_in_range.
Qed.
