From Coq Require Import ZArith String List Bool Lia.
From Flox Require Import ListX Val Agg ValAlg Hom Spec Pipeline PipelineLaw Engines EnginesLaw.
Import ListNotations.
Open Scope Z_scope.

(* the reducers (right folds over the monoid) are NumPy's left folds *)
Lemma kern_sum_np l : kern OSum l = np_sum l.
Proof.
  unfold kern, np_sum. simpl. rewrite run_red_unfold. simpl. unfold fold_red. cbn [r_m r_pre m_op pre_fn m_unit].
  symmetry. apply fold_symmetric; [intros; apply xadd_assoc| intros; apply xadd_comm].
Qed.

Lemma kern_prod_np l : kern OProd l = np_prod l.
Proof.
  unfold kern, np_prod. simpl. rewrite run_red_unfold. simpl. unfold fold_red. cbn [r_m r_pre m_op pre_fn m_unit].
  symmetry. apply fold_symmetric; [intros; apply xmul_assoc| intros; apply xmul_comm].
Qed.

Lemma kern_max_np l : l <> [] -> kern OMax l = np_max l.
Proof.
  destruct l as [|x r]; [congruence|]. intros _.
  unfold kern, np_max. simpl. rewrite run_red_unfold. simpl. unfold fold_red. cbn [r_m r_pre m_op pre_fn m_unit fold_right].
  transitivity (fold_left xmax (x :: r) NInf).
  - symmetry. apply (fold_symmetric xmax); [intros; apply xmax_assoc| intros; apply xmax_comm].
  - cbn [fold_left]. now rewrite xmax_ninf_l.
Qed.

Lemma kern_min_np l : l <> [] -> kern OMin l = np_min l.
Proof.
  destruct l as [|x r]; [congruence|]. intros _.
  unfold kern, np_min. simpl. rewrite run_red_unfold. simpl. unfold fold_red. cbn [r_m r_pre m_op pre_fn m_unit fold_right].
  transitivity (fold_left xmin (x :: r) PInf).
  - symmetry. apply (fold_symmetric xmin); [intros; apply xmin_assoc| intros; apply xmin_comm].
  - cbn [fold_left]. now rewrite xmin_pinf_l.
Qed.

Lemma dropnan_idem l : dropnan (dropnan l) = dropnan l.
Proof.
  unfold dropnan. apply forallb_filter_id'. apply forallb_forall. intros x Hx. apply filter_In in Hx. tauto.
Qed.

Lemma kern_skip o r l : red_of o = Some r -> r_skip r = true ->
  forall o', red_of o' = Some (mkRed (r_m r) (r_pre r) false) -> kern o l = kern o' (dropnan l).
Proof.
  intros Ho Hs o' Ho'. unfold kern. rewrite Ho, Ho'. rewrite !run_red_unfold. rewrite Hs. reflexivity.
Qed.

Lemma kern_nansum_np l : kern ONansum l = np_sum (dropnan l).
Proof. rewrite (kern_skip ONansum _ l eq_refl eq_refl OSum eq_refl). apply kern_sum_np. Qed.
Lemma kern_nanprod_np l : kern ONanprod l = np_prod (dropnan l).
Proof. rewrite (kern_skip ONanprod _ l eq_refl eq_refl OProd eq_refl). apply kern_prod_np. Qed.
Lemma kern_nanmax_np l : dropnan l <> [] -> kern ONanmax l = np_nanmax l.
Proof. intros H. rewrite (kern_skip ONanmax _ l eq_refl eq_refl OMax eq_refl). now apply kern_max_np. Qed.
Lemma kern_nanmin_np l : dropnan l <> [] -> kern ONanmin l = np_nanmin l.
Proof. intros H. rewrite (kern_skip ONanmin _ l eq_refl eq_refl OMin eq_refl). now apply kern_min_np. Qed.

Lemma kern_all_np l : kern OAll l = np_all l.
Proof.
  unfold kern, np_all. simpl. rewrite run_red_unfold. simpl. unfold fold_red. cbn [r_m r_pre m_op pre_fn m_unit].
  induction l as [|x r IH]; [reflexivity|]. cbn [fold_right forallb]. rewrite IH. unfold xand.
  destruct (truthy x), (forallb truthy r); reflexivity.
Qed.
Lemma kern_any_np l : kern OAny l = np_any l.
Proof.
  unfold kern, np_any. simpl. rewrite run_red_unfold. simpl. unfold fold_red. cbn [r_m r_pre m_op pre_fn m_unit].
  induction l as [|x r IH]; [reflexivity|]. cbn [fold_right existsb]. rewrite IH. unfold xor_.
  destruct (truthy x), (existsb truthy r); reflexivity.
Qed.

(* engines agree on every kernel both implement *)
Lemma engines_agree o fill codes vals g :
  In o [OSum; OProd; OMax; OMin; ONansum; ONanprod; ONanlen; ONanmax; ONanmin] ->
  flox_kernel o fill codes vals g = npg_kernel o fill codes vals g.
Proof.
  intros Ho.
  assert (Hn : npg_kernel o fill codes vals g = ref_kernel o fill codes vals g).
  { apply npg_kernel_correct. simpl in *. tauto. }
  rewrite Hn. simpl in Ho.
  destruct Ho as [<-|[<-|[<-|[<-|[<-|[<-|[<-|[<-|[<-|[]]]]]]]]]];
    try (apply flox_kernel_correct; simpl; tauto);
    [apply flox_nanmax_correct| apply flox_nanmin_correct].
Qed.

Example c01_flox_example :
  map (flox_kernel ONanmax (Fin (-99)) [2; 0; 2; 1; 0] [NaN; NInf; Fin 3; NaN; NaN]) [0; 1; 2; 3]
  = [NInf; Fin (-99); Fin 3; Fin (-99)].
Proof. reflexivity. Qed.

Lemma reducers_are_numpy :
  forall l,
    kern OSum l = np_sum l /\ kern OProd l = np_prod l /\
    kern ONansum l = np_sum (dropnan l) /\ kern ONanprod l = np_prod (dropnan l) /\
    kern OAll l = np_all l /\ kern OAny l = np_any l /\
    (l <> [] -> kern OMax l = np_max l /\ kern OMin l = np_min l) /\
    (dropnan l <> [] -> kern ONanmax l = np_nanmax l /\ kern ONanmin l = np_nanmin l).
Proof.
  intros l. repeat split; auto using kern_sum_np, kern_prod_np, kern_nansum_np, kern_nanprod_np,
    kern_all_np, kern_any_np, kern_max_np, kern_min_np, kern_nanmax_np, kern_nanmin_np.
Qed.
