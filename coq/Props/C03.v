(* C03 — the result does not depend on the reduction-tree shape, the task order or the scheduler. *)
From Coq Require Import ZArith String List Bool.
From Flox Require Import ListX Val Agg Hom Spec Pipeline PipelineLaw Registry Exec C03Proofs.
Import ListNotations.
Open Scope Z_scope.

(* any two reduction trees over the same blocks (any split_every, any depth, any arity) *)
Theorem C03_tree_shape_simple :
  forall a, In a aggregations -> a_rtype a = Reduce ->
  forall chs cbs, a_chunk a = Some chs -> a_combine a = Some cbs ->
  forall kws mc fill (t t' : tree block) g, leaves t = leaves t' ->
    chunked_simple a kws mc fill t g = chunked_simple a kws mc fill t' g.
Proof. exact C03Proofs.tree_shape_simple. Qed.

Theorem C03_tree_shape_grouped :
  forall a, In a aggregations -> a_rtype a = Reduce ->
  forall chs cbs, a_chunk a = Some chs -> a_combine a = Some cbs ->
  forall kws mc fill (t t' : tree block) g, leaves t = leaves t' ->
    chunked_grouped a kws mc fill t g = chunked_grouped a kws mc fill t' g.
Proof. exact C03Proofs.tree_shape_grouped. Qed.

(* the level-by-level tree builder (dask's and flox's _tree_reduce: partition_all(split_every) per
   level) covers the blocks 0..n-1 exactly once, in order, for EVERY split_every and n *)
Theorem C03_builder_covers_in_order :
  forall (k : nat) (bs : list block), leaves (tree_of_blocks k bs) = bs.
Proof. exact leaves_tree_of_blocks. Qed.

(* task order / scheduler: any two valid schedules of a graph of pure tasks (any choice among
   ready tasks, tasks re-executed any number of times) agree on every key *)
Theorem C03_schedule_independent :
  forall (K V : Type) (keqb : K -> K -> bool), (forall a b, reflect (a = b) (keqb a b)) ->
  forall (g : graph K V) ks1 ks2 s1 s2,
    exec K V keqb g (empty K V) ks1 = Some s1 -> exec K V keqb g (empty K V) ks2 = Some s2 ->
    forall k v1 v2, s1 k = Some v1 -> s2 k = Some v2 -> v1 = v2.
Proof. exact schedule_independent. Qed.

Print Assumptions C03_tree_shape_simple.
Print Assumptions C03_tree_shape_grouped.
Print Assumptions C03_builder_covers_in_order.
Print Assumptions C03_schedule_independent.
