(* C03 — the result does not depend on the reduction-tree shape, the task order or the scheduler. *)
From Coq Require Import ZArith String List Bool.
From Flox Require Import ListX Val Agg Hom Spec Pipeline PipelineLaw Registry Exec C03Proofs FloxTree FloxTreeLaw.
Import ListNotations.
Open Scope Z_scope.

(* any two reduction trees over the same blocks (any split_every, any depth, any arity) *)
Theorem C03_tree_shape_simple :
  forall a, In a aggregations -> a_rtype a = Reduce ->
  forall chs cbs, a_chunk a = Some chs -> a_combine a = Some cbs ->
  forall kws mc fill (t t' : tree block) g, leaves t = leaves t' ->
    chunked_simple a kws mc fill t g = chunked_simple a kws mc fill t' g.
Proof. exact C03Proofs.tree_shape_simple. Qed.

Theorem C03_tree_shape_grouped :
  forall a, In a aggregations -> a_rtype a = Reduce ->
  forall chs cbs, a_chunk a = Some chs -> a_combine a = Some cbs ->
  forall kws mc fill (t t' : tree block) g, leaves t = leaves t' ->
    chunked_grouped a kws mc fill t g = chunked_grouped a kws mc fill t' g.
Proof. exact C03Proofs.tree_shape_grouped. Qed.

(* the level-by-level tree builder (dask's and flox's _tree_reduce: partition_all(split_every) per
   level) covers the blocks 0..n-1 exactly once, in order, for EVERY split_every and n *)
Theorem C03_builder_covers_in_order :
  forall (k : nat) (bs : list block), leaves (tree_of_blocks k bs) = bs.
Proof. exact leaves_tree_of_blocks. Qed.

(* task order / scheduler: any two valid schedules of a graph of pure tasks (any choice among
   ready tasks, tasks re-executed any number of times) agree on every key *)
Theorem C03_schedule_independent :
  forall (K V : Type) (keqb : K -> K -> bool), (forall a b, reflect (a = b) (keqb a b)) ->
  forall (g : graph K V) ks1 ks2 s1 s2,
    exec K V keqb g (empty K V) ks1 = Some s1 -> exec K V keqb g (empty K V) ks2 = Some s2 ->
    forall k v1 v2, s1 k = Some v1 -> s2 k = Some v2 -> v1 = v2.
Proof. exact schedule_independent. Qed.

Print Assumptions C03_tree_shape_simple.
Print Assumptions C03_tree_shape_grouped.
(* flox's OWN tree for a cohort (dask_array_ops._tree_reduce): depth-1 levels of partial reductions over consecutive groups of at
   most k nodes, then a final level whose partitions are all written to the cohort's single output key.  Whenever the number of
   levels suffices (n <= k^depth; K2 checks this for the depth the real function uses, for n up to 700 around every power of
   the fan-in and with leading kept axes) that output reduces every block of the cohort exactly once, in order ... *)
Theorem C03_flox_tree_covers_when_depth_suffices :
  forall (A : Type) depth k (bs : list A),
    (1 <= k)%nat -> (1 <= depth)%nat -> bs <> [] -> (length bs <= k ^ depth)%nat -> leaves (flox_tree depth k bs) = bs.
Proof. exact @flox_tree_covers. Qed.

(* ... and one level too few silently drops whole partitions (17 blocks, fan-in 4: 2 levels keep only the last block) *)
Theorem C03_too_shallow_tree_loses_blocks :
  leaves (flox_tree 2 4 (seq 0 17)) = [16]%nat /\ leaves (flox_tree 3 4 (seq 0 17)) = seq 0 17.
Proof. exact too_shallow_loses_blocks. Qed.

Print Assumptions C03_builder_covers_in_order.
Print Assumptions C03_flox_tree_covers_when_depth_suffices.
Print Assumptions C03_too_shallow_tree_loses_blocks.
Print Assumptions C03_schedule_independent.
