(* C10 — grouped scans equal per-group sequential scans for every chunking. *)
From Coq Require Import ZArith String List Bool.
From Flox Require Import ListX Val Agg Spec Pipeline PipelineLaw Scan ScanLaw.
Import ListNotations.
Open Scope Z_scope.

(* every chunking of the scanned axis (hence every shape of the parallel-prefix tree):
   the chunked scan IS the sequential per-group scan; nothing crosses groups because position i
   only ever sees members of its own group *)
Theorem C10_chunked_scan_eq_sequential :
  forall f sizes codes vals, length codes = length vals -> sum_nat sizes = length codes ->
    scan_chunked f sizes codes vals = scan_seq f codes vals.
Proof. exact scan_chunked_eq_seq. Qed.

(* the per-group state carried between blocks can be assembled along ANY bracketing of the
   earlier blocks' reductions (Blelloch's prefix tree, any split) *)
Theorem C10_state_any_bracketing :
  forall f (t : tree (list xval)),
    teval (run_red (scan_red f)) (fun l => fold_right (m_op (r_m (scan_red f))) (m_unit (r_m (scan_red f))) l) t
    = run_red (scan_red f) (concat (leaves t)).
Proof. exact scan_state_any_tree. Qed.

(* nancumsum: the value is NumPy's running nansum of the group's members so far *)
Theorem C10_nancumsum_value : forall l, run_red (scan_red Nancumsum) l = np_sum (dropnan l).
Proof. exact nancumsum_value. Qed.

(* bfill is the mirror image of ffill (by construction of the blueprint: reverse, ffill, reverse) *)
Theorem C10_bfill_mirror : forall codes vals, bfill_seq codes vals = rev (scan_seq Ffill (rev codes) (rev vals)).
Proof. reflexivity. Qed.

Print Assumptions C10_chunked_scan_eq_sequential.
Print Assumptions C10_state_any_bracketing.
Print Assumptions C10_nancumsum_value.
Print Assumptions C10_bfill_mirror.
