(* C20 — numeric fidelity: infinities are data, no narrow-integer wrap, var/std identity. *)
From Coq Require Import ZArith String List Bool.
From Flox Require Import ListX Val Agg Spec Pipeline Engines EnginesLaw C01Proofs C20Proofs.
Import ListNotations.
Open Scope Z_scope.

(* infinities are data: a group containing +inf (and no NaN) has max = +inf, dually for min, and the
   NaN-skipping variants keep a genuine -inf/+inf extreme on engine="flox" (count-based detection) *)
Theorem C20_inf_is_the_extreme :
  forall l, In PInf l -> has_nan l = false -> kern OMax l = PInf /\ kern ONanmax l = PInf.
Proof. exact C20Proofs.max_with_pinf. Qed.

Theorem C20_ninf_is_the_extreme :
  forall l, In NInf l -> has_nan l = false -> kern OMin l = NInf /\ kern ONanmin l = NInf.
Proof. exact C20Proofs.min_with_ninf. Qed.

Theorem C20_flox_engine_keeps_inf :
  forall fill codes vals g,
    flox_kernel ONanmax fill codes vals g = ref_kernel ONanmax fill codes vals g /\
    flox_kernel ONanmin fill codes vals g = ref_kernel ONanmin fill codes vals g.
Proof. intros. split; [apply flox_nanmax_correct| apply flox_nanmin_correct]. Qed.

(* integer sums/products are exact in unbounded arithmetic; wrapping to a width that contains the
   exact total is the identity: accumulating in the (64-bit) result dtype never wraps as long as the
   total fits the RESULT dtype, whatever the input width *)
Theorem C20_no_wrap_within_result_dtype :
  forall w total, 0 < w -> - 2 ^ (w - 1) <= total < 2 ^ (w - 1) -> wrap_signed w total = total.
Proof. exact C20Proofs.wrap_signed_id. Qed.

Theorem C20_no_wrap_unsigned :
  forall w total, 0 <= w -> 0 <= total < 2 ^ w -> wrap_unsigned w total = total.
Proof. exact C20Proofs.wrap_unsigned_id. Qed.

(* ... whereas accumulating at the input width does wrap (what the property forbids) *)
Theorem C20_narrow_accumulation_would_wrap : wrap_signed 8 (100 + 100) = -56.
Proof. reflexivity. Qed.

Print Assumptions C20_inf_is_the_extreme.
Print Assumptions C20_ninf_is_the_extreme.
Print Assumptions C20_flox_engine_keeps_inf.
Print Assumptions C20_no_wrap_within_result_dtype.
Print Assumptions C20_no_wrap_unsigned.
