(* C01 — eager result = per-group NumPy reduction, on every engine. *)
From Coq Require Import ZArith String List Bool.
From Flox Require Import ListX Val Agg Spec Pipeline Engines EnginesLaw C01Proofs.
Import ListNotations.
Open Scope Z_scope.

(* engine="flox": stable argsort by code + ufunc.reduceat over the runs + scatter into an array
   pre-filled with fill_value == the reducer applied to the group's members in ORIGINAL order *)
Theorem C01_flox_sort_reduceat_scatter :
  forall o fill codes vals g,
    flox_plain o fill codes vals g = match vals_of g codes vals with [] => fill | m => kern o m end.
Proof. exact flox_plain_correct. Qed.

(* ... including the NaN-substitution wrappers; nanmax/nanmin keep a genuine +-inf extreme and
   reset only groups without a single valid member *)
Theorem C01_flox_kernels :
  forall o fill codes vals g,
    In o [OSum; OProd; OMax; OMin; ONansum; ONanprod; ONanlen] ->
    flox_kernel o fill codes vals g = ref_kernel o fill codes vals g.
Proof. exact flox_kernel_correct. Qed.

Theorem C01_flox_nanmax_nanmin :
  forall fill codes vals g,
    flox_kernel ONanmax fill codes vals g = ref_kernel ONanmax fill codes vals g /\
    flox_kernel ONanmin fill codes vals g = ref_kernel ONanmin fill codes vals g.
Proof. intros. split; [apply flox_nanmax_correct| apply flox_nanmin_correct]. Qed.

(* engine="numpy"/"numba": numpy_groupies as wrapped by aggregate_npg *)
Theorem C01_npg_kernels :
  forall o fill codes vals g,
    In o [OSum; OProd; OMax; OMin; ONansum; ONanprod; ONanlen; ONanmax; ONanmin; OSumSq; ONansumSq; OAll; OAny; ONanfirst; ONanlast] ->
    npg_kernel o fill codes vals g = ref_kernel o fill codes vals g.
Proof. exact npg_kernel_correct. Qed.

(* the answer is the same whichever engine computes it *)
Theorem C01_engines_agree :
  forall o fill codes vals g,
    In o [OSum; OProd; OMax; OMin; ONansum; ONanprod; ONanlen; ONanmax; ONanmin] ->
    flox_kernel o fill codes vals g = npg_kernel o fill codes vals g.
Proof. exact engines_agree. Qed.

(* the reducers are NumPy's reductions of the members (left folds) *)
Theorem C01_reducers_are_numpy :
  forall l,
    kern OSum l = np_sum l /\ kern OProd l = np_prod l /\
    kern ONansum l = np_sum (dropnan l) /\ kern ONanprod l = np_prod (dropnan l) /\
    kern OAll l = np_all l /\ kern OAny l = np_any l /\
    (l <> [] -> kern OMax l = np_max l /\ kern OMin l = np_min l) /\
    (dropnan l <> [] -> kern ONanmax l = np_nanmax l /\ kern ONanmin l = np_nanmin l).
Proof. exact reducers_are_numpy. Qed.

Print Assumptions C01_flox_sort_reduceat_scatter.
Print Assumptions C01_flox_kernels.
Print Assumptions C01_flox_nanmax_nanmin.
Print Assumptions C01_npg_kernels.
Print Assumptions C01_engines_agree.
Print Assumptions C01_reducers_are_numpy.
