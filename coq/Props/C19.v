(* C19 — unsupported requests are refused cleanly; the automatic plan works wherever map-reduce does. *)
From Coq Require Import ZArith String List Bool.
From Flox Require Import C19Proofs.
Import ListNotations.

(* The outcome table is produced on every run by evaluating the real entry point on the finite
   configuration grid (reduction x engine x method x reindex x label kind x label ndim x axis kind x
   expected_groups x block layout, two canonical inputs per cell); [grid_ok] is evaluated on it by
   vm_compute.  Soundness of the boolean checker: *)
Theorem C19_checker_sound :
  forall rows, grid_ok rows = true ->
    forall r, In r rows ->
      no_internal r = true /\                       (* never an assertion / type / index / key error *)
      (mr_ok r = true -> auto_ok r = true) /\      (* map-reduce succeeds => method=None succeeds with the same answer *)
      explicit_ok r = true.                        (* explicit cohorts / blockwise: same answer or a clean refusal *)
Proof. exact C19Proofs.checker_sound. Qed.

Print Assumptions C19_checker_sound.
