(* C19 — unsupported requests are refused cleanly; the automatic plan works wherever map-reduce does. *)
From Coq Require Import ZArith String List Bool.
From Flox Require Import Tables C19Proofs ChooseLaw.
Import ListNotations.

(* The outcome table is produced on every run by evaluating the real entry point on the finite
   configuration grid (reduction x engine x method x reindex x label kind x label ndim x axis kind x
   expected_groups x block layout, two canonical inputs per cell); [grid_ok] is evaluated on it by
   vm_compute.  Soundness of the boolean checker: *)
Theorem C19_checker_sound :
  forall rows, grid_ok rows = true ->
    forall r, In r rows ->
      no_internal r = true /\                       (* never an assertion / type / index / key error *)
      (mr_ok r = true -> auto_ok r = true) /\      (* map-reduce succeeds => method=None succeeds with the same answer *)
      explicit_ok r = true.                        (* explicit cohorts / blockwise: same answer or a clean refusal *)
Proof. exact C19Proofs.checker_sound. Qed.

(* The decision function _choose_method, tabulated from the RUNNING code on every point of its abstracted
   domain (T2, regenerated on every run; [C19_choose_table_covers_domain] states the coverage): *)
Theorem C19_choose_table_covers_domain : covers_domain choose_method_rows = true.
Proof. exact choose_rows_cover. Qed.

(* an explicitly requested method is never replaced *)
Theorem C19_explicit_method_kept :
  forall name ia bo m pref ne out,
    In (name, ia, bo, Some m, pref, ne, out) choose_method_rows -> out = CRet m.
Proof. exact explicit_method_kept. Qed.

(* method=None never picks a method that groupby_reduce would refuse: reducing over a subset of the
   label axes always goes to map-reduce ... *)
Theorem C19_auto_partial_axes_is_map_reduce :
  forall name ia pref out,
    In (name, ia, false, None, pref, false, out) choose_method_rows -> out = CRet MMapReduce.
Proof. exact auto_partial_axes_is_map_reduce. Qed.

(* ... and an arg reduction is never sent to 'blockwise' (and always gets some method) *)
Theorem C19_auto_arg_reduction_never_blockwise :
  forall name pref ne out,
    In (name, true, false, None, pref, ne, out) choose_method_rows ->
    out <> CRet MBlockwise /\ exists m, out = CRet m.
Proof. exact auto_arg_reduction_never_blockwise. Qed.

(* all rules at once (blockwise-only aggregations: blockwise or a clean ValueError; otherwise the planner's
   preference subject to the two rules above) *)
Theorem C19_choose_method_rules : forall r, In r choose_method_rows -> row_ok r = true.
Proof. exact choose_method_rules. Qed.

(* _validate_reindex, tabulated from the running code on its whole abstracted domain: an explicit reindex is
   honoured or refused for a documented reason with ValueError / NotImplementedError only; with reindex unset the
   block stage reindexes (simple combine) only when every block can be reindexed to groups known up front *)
Theorem C19_validate_reindex_rules : forall r, In r validate_reindex_rows -> rrow_ok r = true.
Proof. exact validate_reindex_rules. Qed.

Theorem C19_auto_reindex_true_only_when_safe :
  forall name is_arg first_last m expected by_dask arr_dask,
    In (name, is_arg, first_last, None, Some m, expected, by_dask, arr_dask, RStrategy (Some true)) validate_reindex_rows ->
    (arr_dask || by_dask) = true -> m <> MBlockwise ->
    first_last = false /\ is_arg = false /\ m <> MCohorts /\ (expected = true \/ by_dask = false).
Proof. exact auto_reindex_true_only_when_safe. Qed.

Print Assumptions C19_checker_sound.
Print Assumptions C19_validate_reindex_rules.
Print Assumptions C19_auto_reindex_true_only_when_safe.
Print Assumptions C19_choose_table_covers_domain.
Print Assumptions C19_explicit_method_kept.
Print Assumptions C19_auto_partial_axes_is_map_reduce.
Print Assumptions C19_auto_arg_reduction_never_blockwise.
Print Assumptions C19_choose_method_rules.
