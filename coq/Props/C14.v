(* C14 — no side effects; results independent of call history and of co-computed results. *)
From Coq Require Import String List Bool.
From Flox Require Import TokensGen Tokens C14Proofs.
Import ListNotations.

(* over the ingredients extracted from the CURRENT source (T3): every parameter of dask_groupby_agg
   that flows into a task is hashed into the token; every attribute of the Aggregation read inside
   a task is listed by __dask_tokenize__ (or derived from a listed one); no layer has a constant name;
   the cohort-subset layer's name covers its reindexer *)
Theorem C14_names_cover_ingredients : tokens_ok = true.
Proof. exact C14Proofs.tokens_cover. Qed.

(* consequence, for an injective hash: two results (any pair, triple, ... evaluated in one merged
   graph) that give a layer the same key give it the same tasks *)
Theorem C14_equal_keys_equal_tasks :
  forall (V T : Type) (tok : list V -> T), (forall a b, tok a = tok b -> a = b) ->
  forall covered bound (task : list V -> T) (c1 c2 : config V),
    (forall f, In f bound -> In f covered) ->
    tok (proj V covered c1) = tok (proj V covered c2) ->
    task (proj V bound c1) = task (proj V bound c2).
Proof. exact key_injective. Qed.

(* memoised helpers (flox.cache.memoize, get_parts' lru_cache): after ANY sequence of earlier calls a
   call returns the function of its own arguments *)
Theorem C14_memo_history_independent :
  forall (A T V : Type) (tokA : A -> T) (teqb : T -> T -> bool),
    (forall a b, reflect (a = b) (teqb a b)) -> (forall a b, tokA a = tokA b -> a = b) ->
    forall (f : A -> V) calls c, MInv A T V tokA teqb f c -> snd (mrun A T V tokA teqb f c calls) = map f calls.
Proof. exact memo_history_independent. Qed.

Print Assumptions C14_names_cover_ingredients.
Print Assumptions C14_equal_keys_equal_tasks.
Print Assumptions C14_memo_history_independent.
