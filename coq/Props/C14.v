(* C14 — no side effects; results independent of call history and of co-computed results. *)
From Coq Require Import String List Bool.
From Flox Require Import TokensGen Tokens EffIR EffLaw Effects C14Proofs.
Import ListNotations.

(* over the ingredients extracted from the CURRENT source (T3): every parameter of dask_groupby_agg
   that flows into a task is hashed into the token; every attribute of the Aggregation read inside
   a task is listed by __dask_tokenize__ (or derived from a listed one); no layer has a constant name;
   the cohort-subset layer's name covers its reindexer *)
Theorem C14_names_cover_ingredients : tokens_ok = true.
Proof. exact C14Proofs.tokens_cover. Qed.

(* consequence, for an injective hash: two results (any pair, triple, ... evaluated in one merged
   graph) that give a layer the same key give it the same tasks *)
Theorem C14_equal_keys_equal_tasks :
  forall (V T : Type) (tok : list V -> T), (forall a b, tok a = tok b -> a = b) ->
  forall covered bound (task : list V -> T) (c1 c2 : config V),
    (forall f, In f bound -> In f covered) ->
    tok (proj V covered c1) = tok (proj V covered c2) ->
    task (proj V bound c1) = task (proj V bound c2).
Proof. exact key_injective. Qed.

(* memoised helpers (flox.cache.memoize, get_parts' lru_cache): after ANY sequence of earlier calls a
   call returns the function of its own arguments *)
Theorem C14_memo_history_independent :
  forall (A T V : Type) (tokA : A -> T) (teqb : T -> T -> bool),
    (forall a b, reflect (a = b) (teqb a b)) -> (forall a b, tokA a = tokA b -> a = b) ->
    forall (f : A -> V) calls c, MInv A T V tokA teqb f c -> snd (mrun A T V tokA teqb f c calls) = map f calls.
Proof. exact memo_history_independent. Qed.

(* ---- "never modifies its arguments ... nor the library's registry" ----
   T4 regenerates, from the AST of the CURRENT source, the alias/effect IR of every function reachable from the public entry
   points (groupby_reduce, groupby_scan, the rechunk helpers, xarray_reduce and the xarray rechunk wrappers,
   _initialize_aggregation) with a points-to certificate; module-level state (the registry AGGREGATIONS, caches, constants) is
   the last pseudo-parameter of every function.  The certificate is accepted by the verified checker ... *)
Theorem C14_api_effect_certificates_check : check_all api_functions = true.
Proof. exact C14Proofs.api_certs_ok. Qed.

(* ... every entry point is in the list, and is declared - and checked - to write into none of its parameters, the
   module-level pseudo-parameter included *)
Theorem C14_api_entry_points_write_nothing :
  (forall r, In r api_roots -> exists f, In f api_functions /\ f_name f = r) /\
  (forall f, In f api_functions -> existsb (fun s => match s with SParam x i => String.eqb x globals_param && Nat.eqb (S i) (f_nparams f) | _ => false end) (f_body f) = true) /\
  (forall f, In f api_functions -> In (f_name f) api_roots -> f_stores f = []).
Proof. exact C14Proofs.api_entry_points_write_nothing. Qed.

(* by the soundness of the checker (Der = every alias fact derivable from the statements in any order), such a function
   never stores into an object that may be one of its arguments or part of the module-level state *)
Theorem C14_no_store_into_arguments_or_registry :
  forall S f, check_fn S f = true -> f_stores f = [] ->
  forall x, (In (SStore x) (f_body f) \/ exists a, In (SStoreAttr x a) (f_body f)) ->
  forall i, ~ Der S f (FP x (LParam i)).
Proof. exact checked_fn_never_stores_into_params. Qed.

Print Assumptions C14_names_cover_ingredients.
Print Assumptions C14_api_effect_certificates_check.
Print Assumptions C14_api_entry_points_write_nothing.
Print Assumptions C14_no_store_into_arguments_or_registry.
Print Assumptions C14_equal_keys_equal_tasks.
Print Assumptions C14_memo_history_independent.
