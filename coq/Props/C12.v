(* C12 — graph construction is lazy; labels found at compute time give the same mapping. *)
From Coq Require Import ZArith String List Bool.
From Flox Require Import ListX Val Agg Spec Pipeline PipelineLaw Registry Factorize FactorizeLaw C02Proofs C16Proofs.
Import ListNotations.
Open Scope Z_scope.

(* labels discovered at compute time (grouped combine, no expected_groups): a label is reported iff it
   occurs, the reported labels are strictly ascending, and the value attached to the k-th label reduces
   exactly the elements carrying it -- the same label -> value mapping as the eager computation *)
Theorem C12_discovered_labels_exact :
  forall labels x, In x (groups_of true None labels) <-> In (Some x) labels.
Proof. exact (C16Proofs.discovered_exact true). Qed.

Theorem C12_discovered_mapping :
  forall labels vals x k,
    nth_error (groups_of true None labels) k = Some x ->
    vals_of (Z.of_nat k) (map (code_of (groups_of true None labels)) labels) vals = labelled x labels vals.
Proof. exact discovered_mapping_sorted. Qed.

(* the grouped combine used for unknown labels yields, for every label that occurs, the same value as
   the simple combine / the eager pipeline (any chunking, any tree) *)
Theorem C12_unknown_labels_same_values :
  forall a, In a aggregations -> a_rtype a = Reduce ->
  forall chs cbs, a_chunk a = Some chs -> a_combine a = Some cbs ->
  forall kws mc fill (t : tree block) g, tree_vals g t <> [] ->
    chunked_grouped a kws mc fill t g = chunked_simple a kws mc fill t g.
Proof. exact C02Proofs.simple_eq_grouped. Qed.

Print Assumptions C12_discovered_labels_exact.
Print Assumptions C12_discovered_mapping.
Print Assumptions C12_unknown_labels_same_values.
