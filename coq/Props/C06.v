(* C06 — position-sensitive reductions respect global positions across chunk boundaries. *)
From Coq Require Import ZArith String List Bool.
From Flox Require Import ListX Val Agg Spec Pipeline PipelineLaw ArgRed ArgLaw Registry C06Proofs.
Import ListNotations.
Open Scope Z_scope.

(* what the arg reduction over all members is: an element of the group, no other member is
   better, and members to its LEFT are strictly worse-or-equal only if ... (ties resolved to the
   left: the first occurrence) *)
Theorem C06_direct_is_first_extreme :
  forall d l x, nn x -> Forall nn l ->
    In (fold_left (pick d) l x) (x :: l) /\
    (forall y, In y (x :: l) -> nb d y (fold_left (pick d) l x)).
Proof. exact fold_pick_spec. Qed.

(* argmax / argmin on NaN-free groups: ANY chunking, ANY reduction tree over the blocks gives the
   GLOBAL position of the first occurrence of the extreme *)
Theorem C06_arg_global_any_tree :
  forall d g (t : tree block), Forall nn (all_members g (leaves t)) ->
    arg_tree d false g t = arg_direct d false (all_members g (leaves t)).
Proof. exact arg_tree_exact. Qed.

(* nanargmax / nanargmin: the same, provided no block holds only NaNs of the group *)
Theorem C06_nanarg_global_any_tree :
  forall d g (t : tree block), no_allnan_block g t ->
    arg_tree d true g t = arg_direct d true (all_members g (leaves t)).
Proof. exact nanarg_tree_exact. Qed.

(* without that hypothesis the statement is FALSE of the faithful model (known finding KF-C06):
   [nan, 5, -inf, 7] by [0, 1, 0, 1] in chunks of 2 *)
Theorem C06_nanarg_allnan_block_refuted :
  exists (t : tree block) g,
    arg_tree ArgMax true g t <> arg_direct ArgMax true (all_members g (leaves t)).
Proof. exact C06Proofs.refuted. Qed.

(* first/last family: nanfirst / nanlast are lawful order-aware monoids (registry obligation of
   C04), so any tree over blocks IN ORDER gives the first / last valid member of the whole axis *)
Theorem C06_nanfirst_nanlast_any_tree :
  forall (t : tree (list xval)), twf t ->
    teval (kern ONanfirst) (kern ONanfirst) t = kern ONanfirst (concat (leaves t)) /\
    teval (kern ONanlast) (kern ONanlast) t = kern ONanlast (concat (leaves t)).
Proof. exact C06Proofs.firstlast_tree. Qed.

Theorem C06_nanfirst_is_first_valid :
  forall l, kern ONanfirst l = first_notnan l /\ kern ONanlast l = last_notnan l.
Proof. exact C06Proofs.firstlast_spec. Qed.

Print Assumptions C06_direct_is_first_extreme.
Print Assumptions C06_arg_global_any_tree.
Print Assumptions C06_nanarg_global_any_tree.
Print Assumptions C06_nanarg_allnan_block_refuted.
Print Assumptions C06_nanfirst_nanlast_any_tree.
Print Assumptions C06_nanfirst_is_first_valid.
