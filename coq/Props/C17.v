(* C17 — rechunk helpers keep the data and establish their postconditions. *)
From Coq Require Import ZArith String List Bool.
From Flox Require Import Factorize Rechunk RechunkLaw RechunkStraddle.
Import ListNotations.
Open Scope Z_scope.

(* rechunk_for_blockwise (_get_optimal_chunks_for_groups): for ALL label sequences and ALL initial
   chunkings the new chunks are positive and sum to the axis length *)
Theorem C17_blockwise_chunks_wf :
  forall chunks labels, chunks <> [] -> Forall (fun c => 0 < c) chunks -> zlength labels = zsum chunks ->
    Forall (fun c => 0 < c) (optimal_chunks chunks labels) /\
    zsum (optimal_chunks chunks labels) = zsum chunks.
Proof. exact optimal_chunks_wf. Qed.

(* ... and with SEQUENTIAL labels (every label occupies one contiguous run, label values in any order)
   no group straddles a boundary of the new chunking: for every new boundary b no label occurs both
   before b and at or after b *)
Theorem C17_blockwise_no_group_straddles :
  forall chunks labels, chunks <> [] -> Forall (fun c => 0 < c) chunks -> zlength labels = zsum chunks ->
    contiguous labels ->
    forall b, In b (cumsum (optimal_chunks chunks labels)) -> no_straddle labels b.
Proof. exact optimal_chunks_no_straddle. Qed.

(* the same with elements whose label is missing (code -1) anywhere on the axis: they are attached to the
   preceding group, and no REAL group straddles a new boundary *)
Theorem C17_blockwise_no_group_straddles_with_missing_labels :
  forall chunks labels, chunks <> [] -> Forall (fun c => 0 < c) chunks -> zlength labels = zsum chunks ->
    (exists x, In x labels /\ 0 <= x) ->
    contiguous (fill_missing labels) ->
    forall b, In b (cumsum (optimal_chunks_missing chunks labels)) ->
    forall i k, 0 <= i -> i < b -> b <= k -> k < zlength labels ->
      0 <= znth labels i -> 0 <= znth labels k -> znth labels i <> znth labels k.
Proof. exact optimal_chunks_missing_no_straddle. Qed.

(* rechunk_for_cohorts: for ALL labels, forced sets, chunksize hints and old chunkings *)
Theorem C17_cohorts_chunks_wf :
  forall force oldchunks chunksize ign labels, labels <> [] ->
    Forall (fun c => 0 < c) (cohort_chunks force oldchunks chunksize ign labels) /\
    zsum (cohort_chunks force oldchunks chunksize ign labels) = zlength labels.
Proof. exact cohort_chunks_wf. Qed.

(* every occurrence of a forced label starts a chunk *)
Theorem C17_forced_label_starts_chunk :
  forall force oldbreaks chunksize ign labels k lab,
    nth_error labels k = Some lab -> zmem lab force = true ->
    In (Z.of_nat k) (cohort_loop force oldbreaks chunksize ign 0 1 labels).
Proof. intros. exact (cohort_loop_forced force oldbreaks chunksize ign labels 0 1 k lab H H0). Qed.

(* old boundaries are kept unless told to ignore them *)
Theorem C17_old_boundaries_kept :
  forall force oldbreaks chunksize labels k,
    (k < length labels)%nat -> zmem (Z.of_nat k) oldbreaks = true ->
    In (Z.of_nat k) (cohort_loop force oldbreaks chunksize false 0 1 labels).
Proof. intros. exact (cohort_loop_oldbreaks force oldbreaks chunksize labels 0 1 k H H0). Qed.

Print Assumptions C17_blockwise_chunks_wf.
Print Assumptions C17_blockwise_no_group_straddles.
Print Assumptions C17_blockwise_no_group_straddles_with_missing_labels.
Print Assumptions C17_cohorts_chunks_wf.
Print Assumptions C17_forced_label_starts_chunk.
Print Assumptions C17_old_boundaries_kept.
