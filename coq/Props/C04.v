(* C04 — chunk/combine/finalize decomposition exact; fills neutral; user Aggregations.
   Statements + `exact` only. *)
From Coq Require Import ZArith String List Bool.
From Flox Require Import ListX Val Agg Hom Registry C04Proofs.
Import ListNotations.

(* every blueprint of the GENERATED registry is a lawful decomposition *)
Theorem C04_registry_lawful : forallb lawful_dec aggregations = true.
Proof. exact C04Proofs.registry_lawful. Qed.

(* the per-call specialisation done by _initialize_aggregation (appended min_count counter, the
   nanmin/nanmax default, dtype-specific fills), OBSERVED on the real function for every registry entry
   x min_count in {0,1,2} x {float64,int64}: still a lawful decomposition, and exactly what the
   pipeline model assumes (eff_chunk / eff_combine) *)
Theorem C04_initialised_aggregations_lawful : forallb init_row_ok initialised = true.
Proof. exact C04Proofs.initialised_lawful. Qed.

(* ... hence for every built-in aggregation, every component, every split of a group's
   members into any number of ordered parts (empty and all-NaN parts included), the
   n-ary combine of the partial results equals the block function on all members, and
   the declared intermediate fill is the block function's value on an empty part. *)
Theorem C04_split :
  forall a, In a aggregations -> a_rtype a = Reduce ->
  forall chs cbs, a_chunk a = Some chs -> a_combine a = Some cbs ->
  forall i ch cb f, nth_error chs i = Some ch -> nth_error cbs i = Some cb ->
                    nth_error (a_fill a) i = Some f ->
    fill_sem f = Some (kern ch []) /\
    forall parts : list (list xval), kern cb (map (kern ch) parts) = kern ch (concat parts).
Proof. exact C04Proofs.split_law. Qed.

(* a part in which the group occurs only as NaN is as good as an absent part *)
Theorem C04_allnan_part_neutral :
  forall o r, red_of o = Some r -> r_skip r = true ->
  forall l, forallb is_nan l = true -> kern o l = kern o [].
Proof. exact C04Proofs.allnan_neutral. Qed.

(* any reduction tree over the blocks: same partial result as one pass over all members *)
Theorem C04_any_tree :
  forall ch cb f, lawful_triple ch cb f = true ->
  forall t : tree (list xval), twf t ->
    teval (kern ch) (kern cb) t = kern ch (concat (leaves t)).
Proof. exact C04Proofs.any_tree. Qed.

(* user-supplied Aggregation: the machinery is parametric in the algebra *)
Theorem C04_user_agg :
  forall (E T : Type) (a : Alg E T), Lawful a ->
  forall t : tree (list E), twf t ->
    teval (interm a) (combN a) t = interm a (concat (leaves t)).
Proof. exact (@tree_law). Qed.

Print Assumptions C04_registry_lawful.
Print Assumptions C04_initialised_aggregations_lawful.
Print Assumptions C04_split.
Print Assumptions C04_allnan_part_neutral.
Print Assumptions C04_any_tree.
Print Assumptions C04_user_agg.
