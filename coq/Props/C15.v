(* C15 — xarray_reduce = native xarray groupby.  Coq part: flox's own dimension bookkeeping. *)
From Coq Require Import ZArith String List Bool Sorted Permutation.
From Flox Require Import XrDims XrDimsLaw.
Import ListNotations.
Open Scope Z_scope.

(* _restore_dim_order returns the same dimensions (nothing lost, nothing repeated) ... *)
Theorem C15_restore_is_permutation :
  forall objdims gname gdim nr resultdims,
    Permutation resultdims (restore_dim_order objdims gname gdim nr resultdims).
Proof. intros. apply sort_key_perm. Qed.

(* ... ordered by their position in the original object, the group dimension standing where the
   grouped dimension stood ... *)
Theorem C15_restore_is_sorted_by_object_position :
  forall objdims gname gdim nr resultdims,
    key_sorted (lookup_order objdims gname gdim nr) (restore_dim_order objdims gname gdim nr resultdims).
Proof. intros. apply sort_key_sorted. Qed.

(* ... and dimensions with the same key (e.g. several new dims unknown to the object) keep their order *)
Theorem C15_restore_is_stable :
  forall objdims gname gdim nr resultdims k,
    filter (fun d => lookup_order objdims gname gdim nr d =? k) (restore_dim_order objdims gname gdim nr resultdims)
    = filter (fun d => lookup_order objdims gname gdim nr d =? k) resultdims.
Proof. intros. apply sort_key_stable. Qed.

(* _broadcast_size_one_dims: a grouper whose dims are ANY subset of the array's core dims in ANY order ends up,
   after the transpose and the insertion of size-1 axes, with its axes aligned one-to-one with the core dims *)
Theorem C15_grouper_transposed_into_core_order :
  forall core bdims, NoDup bdims -> transposed core bdims = filter (fun d => smem d bdims) core.
Proof. exact transposed_in_core_order. Qed.

Theorem C15_grouper_aligned_with_core_dims :
  forall core bdims, NoDup bdims ->
    broadcast_result core bdims = map (fun d => if smem d bdims then Some d else None) core.
Proof. exact broadcast_aligns_with_core. Qed.

Print Assumptions C15_restore_is_permutation.
Print Assumptions C15_grouper_transposed_into_core_order.
Print Assumptions C15_grouper_aligned_with_core_dims.
Print Assumptions C15_restore_is_sorted_by_object_position.
Print Assumptions C15_restore_is_stable.
