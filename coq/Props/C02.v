(* C02 — chunked = eager for every strategy, reindex mode, chunking.  Statements + `exact` only. *)
From Coq Require Import ZArith String List Bool.
From Flox Require Import ListX Val Agg Hom Spec Pipeline PipelineLaw Registry C04Proofs C02Proofs.
Import ListNotations.
Open Scope Z_scope.

(* cutting the reduced axis into blocks of ANY sizes loses / duplicates no member of any group *)
Theorem C02_blocks_partition_members :
  forall g sizes off codes vals,
    length codes = length vals -> sum_nat sizes = length codes ->
    concat (map (blk_vals g) (cut_blocks sizes off codes vals)) = vals_of g codes vals.
Proof. exact cut_blocks_members. Qed.

(* simple combine (intermediates reindexed to all groups, at the block stage or at combine time):
   for every built-in "reduce" aggregation, ANY reduction tree over the blocks gives the block
   functions applied to all members of the group, then the same finalize / min_count mask *)
Theorem C02_simple_combine_any_tree :
  forall a, In a aggregations -> a_rtype a = Reduce ->
  forall chs cbs, a_chunk a = Some chs -> a_combine a = Some cbs ->
  forall kws mc fill (t : tree block) g,
    chunked_simple a kws mc fill t g
    = finalize_group a kws mc fill (tuple_of (eff_chunk a mc) (tree_vals g t)).
Proof. exact C02Proofs.simple_any_tree. Qed.

(* grouped combine (only blocks where the group occurs take part; labels discovered at compute time) *)
Theorem C02_grouped_combine_any_tree :
  forall a, In a aggregations -> a_rtype a = Reduce ->
  forall chs cbs, a_chunk a = Some chs -> a_combine a = Some cbs ->
  forall kws mc fill (t : tree block) g,
    chunked_grouped a kws mc fill t g
    = match tree_vals g t with
      | [] => option_map Plain fill
      | X => finalize_group a kws mc fill (tuple_of (eff_chunk a mc) X)
      end.
Proof. exact C02Proofs.grouped_any_tree. Qed.

(* hence: the chunked result is the same for every chunking of the axis and every tree,
   and simple and grouped combine agree whenever the group occurs *)
Theorem C02_chunking_and_tree_independent :
  forall a, In a aggregations -> a_rtype a = Reduce ->
  forall chs cbs, a_chunk a = Some chs -> a_combine a = Some cbs ->
  forall kws mc fill codes vals sizes sizes' (t t' : tree block) g,
    length codes = length vals ->
    sum_nat sizes = length codes -> sum_nat sizes' = length codes ->
    leaves t = cut_blocks sizes 0 codes vals -> leaves t' = cut_blocks sizes' 0 codes vals ->
    chunked_simple a kws mc fill t g = chunked_simple a kws mc fill t' g.
Proof. exact C02Proofs.chunking_independent. Qed.

Theorem C02_simple_eq_grouped_when_present :
  forall a, In a aggregations -> a_rtype a = Reduce ->
  forall chs cbs, a_chunk a = Some chs -> a_combine a = Some cbs ->
  forall kws mc fill (t : tree block) g, tree_vals g t <> [] ->
    chunked_grouped a kws mc fill t g = chunked_simple a kws mc fill t g.
Proof. exact C02Proofs.simple_eq_grouped. Qed.

Print Assumptions C02_blocks_partition_members.
Print Assumptions C02_simple_combine_any_tree.
Print Assumptions C02_grouped_combine_any_tree.
Print Assumptions C02_chunking_and_tree_independent.
Print Assumptions C02_simple_eq_grouped_when_present.
