(* C05 — one slot per requested label; fill_value and min_count honoured exactly. *)
From Coq Require Import ZArith String List Bool Sorted.
From Flox Require Import ListX Val Agg Spec Pipeline PipelineLaw Registry Factorize FactorizeLaw C05Proofs Reindex ReindexLaw.
Import ListNotations.
Open Scope Z_scope.

(* exactly one slot per requested label, in the order of the returned labels *)
Theorem C05_one_slot_per_label :
  forall o kws mc fill n codes vals, length (spec_groupby o kws mc fill n codes vals) = n.
Proof. exact spec_length. Qed.

(* returned labels: the request itself (sort=False) or its ascending sort, duplicates impossible *)
Theorem C05_labels_are_those_requested :
  forall ex labels, groups_of false (Some ex) labels = ex /\
                    (NoDup ex -> StronglySorted Z.lt (groups_of true (Some ex) labels)).
Proof. exact labels_are_those_requested. Qed.

(* slot k reduces exactly the elements labelled with the k-th returned label ... *)
Theorem C05_slot_members :
  forall gs, NoDup gs -> forall k x, nth_error gs k = Some x ->
  forall labels vals, vals_of (Z.of_nat k) (map (code_of gs) labels) vals = labelled x labels vals.
Proof. exact members_of_slot. Qed.

(* ... missing labels and labels that were not requested belong to no slot *)
Theorem C05_missing_and_unrequested_dropped :
  forall gs, code_of gs None = -1 /\ forall x, ~ In x gs -> code_of gs (Some x) = -1.
Proof. intros gs. split; [reflexivity| exact (code_unrequested gs)]. Qed.

(* the fill rule of the specification *)
Theorem C05_fill_for_absent_label :
  forall o kws mc fill codes vals g,
    members g codes vals = [] -> spec_group o kws mc fill codes vals g = option_map Plain fill.
Proof. exact spec_fill_absent. Qed.

Theorem C05_fill_below_min_count :
  forall o kws mc fill codes vals g,
    valid_count (members g codes vals) < mc -> spec_group o kws mc fill codes vals g = option_map Plain fill.
Proof. exact spec_fill_mincount. Qed.

(* every chunked plan applies the mask on the exact number of valid members and hands out the
   user's fill verbatim (for every chunking and every reduction tree) *)
Theorem C05_mask_exact_in_every_plan :
  forall a, In a aggregations -> a_rtype a = Reduce ->
  forall chs cbs, a_chunk a = Some chs -> a_combine a = Some cbs ->
  forall kws mc fill (t : tree block) g, 0 < mc ->
    chunked_simple a kws mc fill t g
    = if zlen (dropnan (tree_vals g t)) <? mc then option_map Plain fill
      else Some (eval_finalizer (a_finalize a) (tuple_of chs (tree_vals g t)) kws).
Proof. exact mask_exact. Qed.

(* the reindexing step that puts block / cohort results (labels [from_] in whatever order they were met) into the requested slots
   [to]: one slot per requested label in the requested order; the slot of a label that was met holds that label's value, the
   slot of a label that was not met holds the fill; reindexing to the same labels is the identity (reindex_'s shortcut).
   K2: exhaustive correspondence with flox.core.reindex_ over every ordered from_ and to (Index and RangeIndex) *)
Theorem C05_reindex_one_slot_per_requested_label :
  forall (from_ to : list Z) (fill : Z) vals j l,
    NoDup from_ -> length vals = length from_ -> nth_error to j = Some l ->
    length (reindex from_ to fill vals) = length to /\
    (forall i, nth_error from_ i = Some l -> nth j (reindex from_ to fill vals) fill = nth i vals fill) /\
    (~ In l from_ -> nth j (reindex from_ to fill vals) fill = fill).
Proof. exact C05Proofs.reindex_one_slot. Qed.

Theorem C05_reindex_to_the_same_labels_is_identity :
  forall (from_ : list Z) (vals : list Z) fill, NoDup from_ -> length vals = length from_ -> reindex from_ from_ fill vals = vals.
Proof. exact (@reindex_same Z). Qed.

Print Assumptions C05_one_slot_per_label.
Print Assumptions C05_reindex_one_slot_per_requested_label.
Print Assumptions C05_reindex_to_the_same_labels_is_identity.
Print Assumptions C05_labels_are_those_requested.
Print Assumptions C05_slot_members.
Print Assumptions C05_missing_and_unrequested_dropped.
Print Assumptions C05_fill_for_absent_label.
Print Assumptions C05_fill_below_min_count.
Print Assumptions C05_mask_exact_in_every_plan.
