(* C09 — cohort planner sound: labels partitioned, blocks covered, members counted once. *)
From Coq Require Import ZArith String List Bool Permutation.
From Flox Require Import Factorize Rechunk Cohorts CohortsLaw CohortsMerge NormIdx NormIdxLaw NdShape NdShapeLaw NdTake NdTakeLaw.
Import ListNotations.
Open Scope Z_scope.

(* the label-by-block incidence used by the planner is exact: block n is attached to label x iff
   x occurs in block n *)
Theorem C09_incidence_exact :
  forall blocks x n,
    In (Z.of_nat n) (chunks_of_label blocks x) <-> exists b, nth_error blocks n = Some b /\ In x b.
Proof. exact chunks_of_label_spec. Qed.

(* exact cohorts (returned by the blockwise / single-cohort / perfectly-chunked branches):
   distinct block sets, every present label in exactly one cohort, and the block set of a cohort
   is EXACTLY the block list of each of its labels *)
Theorem C09_exact_cohorts_sound :
  forall lc, let gs := group_by_chunks lc in
    keys_distinct gs /\ Permutation (all_labels gs) (map fst lc) /\ groups_exact lc gs.
Proof. exact group_by_chunks_spec. Qed.

(* EVERY multi-block branch of the planner, including the containment-merging loop (whatever the
   thresholded rows and their visiting order): the cohorts returned list every present label exactly
   once, and the block set attached to a cohort contains every block holding a member of its labels *)
Theorem C09_planner_partitions_and_covers :
  forall blocks nlabels all_size_one merge m cs,
    (1 < length blocks)%nat ->
    find_group_cohorts blocks nlabels all_size_one merge = Some (m, cs) -> cs <> [] ->
    let lc := label_chunks blocks nlabels in
    Permutation (all_labels cs) (map fst lc) /\ covers lc cs.
Proof. exact find_group_cohorts_sound. Qed.

(* 'blockwise' is proposed over several blocks only if every present label is confined to one block *)
Theorem C09_blockwise_only_if_confined :
  forall blocks nlabels all_size_one merge cs,
    (1 < length blocks)%nat ->
    find_group_cohorts blocks nlabels all_size_one merge = Some (Blockwise, cs) ->
    forall x ch, In (x, ch) (label_chunks blocks nlabels) -> length ch = 1%nat.
Proof. exact blockwise_only_if_confined. Qed.

(* the blocks actually fed to a cohort's reduction: on every axis _normalize_indexes (int / slice / list form)
   selects exactly the requested blocks, each once, in ascending order *)
Theorem C09_block_selection_exact :
  forall idx n, idx <> [] -> (forall i, In i idx -> 0 <= i < n) ->
    select (normalize_axis idx n) n = zsort (zuniq idx).
Proof. exact normalize_axis_selects. Qed.

(* the graph wiring of a cohort (subset_to_blocks): the block-key array is indexed ONE AXIS AT A TIME with the blocks selected on
   that axis (batch axes: all of them), so the output block at position (p0, p1, ...) reads the input block
   (sel0[p0], sel1[p1], ...) - for block grids of any number of axes, any selection (contiguous or not) on any axes;
   K2 compares NdTake.subset_sources with the layer really built, position by position (this is what defect a2bf6d7 broke) *)
Theorem C09_cohort_subset_wiring :
  forall blk sels pos,
    sels_ok sels blk -> in_range (map (@length nat) sels) pos ->
    get nat 0%nat (subset_sources blk sels) pos = ravel blk (pick sels pos)
    /\ shape (subset_sources blk sels) = map (@length nat) sels.
Proof. exact subset_wiring. Qed.

Print Assumptions C09_incidence_exact.
Print Assumptions C09_cohort_subset_wiring.
Print Assumptions C09_block_selection_exact.
Print Assumptions C09_exact_cohorts_sound.
Print Assumptions C09_planner_partitions_and_covers.
Print Assumptions C09_blockwise_only_if_confined.
