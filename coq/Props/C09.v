(* C09 — cohort planner sound: labels partitioned, blocks covered, members counted once. *)
From Coq Require Import ZArith String List Bool Permutation.
From Flox Require Import Factorize Rechunk Cohorts CohortsLaw.
Import ListNotations.
Open Scope Z_scope.

(* the label-by-block incidence used by the planner is exact: block n is attached to label x iff
   x occurs in block n *)
Theorem C09_incidence_exact :
  forall blocks x n,
    In (Z.of_nat n) (chunks_of_label blocks x) <-> exists b, nth_error blocks n = Some b /\ In x b.
Proof. exact chunks_of_label_spec. Qed.

(* exact cohorts (returned by the blockwise / single-cohort / perfectly-chunked branches):
   distinct block sets, every present label in exactly one cohort, and the block set of a cohort
   is EXACTLY the block list of each of its labels *)
Theorem C09_exact_cohorts_sound :
  forall lc, let gs := group_by_chunks lc in
    keys_distinct gs /\ Permutation (all_labels gs) (map fst lc) /\ groups_exact lc gs.
Proof. exact group_by_chunks_spec. Qed.

Print Assumptions C09_incidence_exact.
Print Assumptions C09_exact_cohorts_sound.
