(* C16 — group order follows the sort contract; the label-to-value mapping never changes. *)
From Coq Require Import ZArith String List Bool Sorted Permutation.
From Flox Require Import Val Agg Spec Pipeline Factorize FactorizeLaw C16Proofs.
Import ListNotations.
Open Scope Z_scope.

(* sort=True: strictly ascending, hence free of duplicates — for requested and for discovered labels *)
Theorem C16_sorted_strictly_ascending :
  forall expected labels, (forall ex, expected = Some ex -> NoDup ex) ->
    StronglySorted Z.lt (groups_of true expected labels).
Proof. exact groups_sorted. Qed.

(* sort=False: the order given in expected_groups; otherwise the order of first appearance *)
Theorem C16_unsorted_order :
  forall labels,
    (forall ex, groups_of false (Some ex) labels = ex) /\
    groups_of false None labels = zuniq (somesZ labels).
Proof. intros labels. split; reflexivity. Qed.

(* no label lost or repeated: the returned labels are exactly the requested / present ones *)
Theorem C16_same_labels_either_way :
  forall expected labels, Permutation (groups_of true expected labels) (groups_of false expected labels).
Proof. exact C16Proofs.groups_perm. Qed.

Theorem C16_discovered_labels_exact :
  forall sort labels x, In x (groups_of sort None labels) <-> In (Some x) labels.
Proof. exact C16Proofs.discovered_exact. Qed.

(* the pairing label -> members (hence label -> value) does not depend on sort: whatever the
   position k of label x in the returned list, slot k reduces exactly the elements labelled x *)
Theorem C16_mapping_invariant :
  forall sort expected labels vals x k,
    (forall ex, expected = Some ex -> NoDup ex) ->
    nth_error (groups_of sort expected labels) k = Some x ->
    vals_of (Z.of_nat k) (map (code_of (groups_of sort expected labels)) labels) vals = labelled x labels vals.
Proof. exact C16Proofs.mapping_invariant. Qed.

Print Assumptions C16_sorted_strictly_ascending.
Print Assumptions C16_unsorted_order.
Print Assumptions C16_same_labels_either_way.
Print Assumptions C16_discovered_labels_exact.
Print Assumptions C16_mapping_invariant.
