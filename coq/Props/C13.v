(* C13 — generated tasks are pure, re-executable and serialisable. *)
From Coq Require Import String List Bool.
From Flox Require Import EffIR EffLaw Effects Exec C13Proofs.
Import ListNotations.

(* the alias/effect IR of every function reachable from a task callable, REGENERATED from the AST on
   every run, together with its points-to certificate, is accepted by the checker ... *)
Theorem C13_effect_certificates_check : check_all task_functions = true.
Proof. exact C13Proofs.certs_ok. Qed.

(* ... and every task callable (chunk_reduce, chunk_argreduce, _reduce_blockwise, the combine and
   aggregate functions, the lazy factorizer, the scan functions) is declared - and checked - to write
   into none of its parameters *)
Theorem C13_task_callables_write_no_input :
  forall f, In f task_functions -> In (f_name f) task_roots -> f_name f <> "core._expand_dims"%string -> f_stores f = [].
Proof. exact C13Proofs.roots_pure. Qed.

(* soundness of the checker: the certificate contains every alias fact derivable from the statements
   in any order and any number of executions ... *)
Theorem C13_certificate_sound :
  forall S f, forallb (stmt_closed S f) (f_body f) = true -> forall fa, Der S f fa -> holds f fa = true.
Proof. exact certificate_sound. Qed.

(* ... hence a checked function with no declared store never writes into an object that may be a parameter *)
Theorem C13_no_store_into_inputs :
  forall S f, check_fn S f = true -> f_stores f = [] ->
  forall x, (In (SStore x) (f_body f) \/ exists a, In (SStoreAttr x a) (f_body f)) ->
  forall i, ~ Der S f (FP x (LParam i)).
Proof. exact checked_fn_never_stores_into_params. Qed.

(* pure tasks: executing any subset of tasks again, in any order, leaves every computed value unchanged *)
Theorem C13_reexecution_harmless :
  forall (K V : Type) (keqb : K -> K -> bool), (forall a b, reflect (a = b) (keqb a b)) ->
  forall (g : graph K V) ks extra s s',
    exec K V keqb g (empty K V) ks = Some s -> exec K V keqb g s extra = Some s' ->
    forall k v, s k = Some v -> s' k = Some v.
Proof. exact reexecution_harmless. Qed.

Print Assumptions C13_effect_certificates_check.
Print Assumptions C13_task_callables_write_no_input.
Print Assumptions C13_certificate_sound.
Print Assumptions C13_no_store_into_inputs.
Print Assumptions C13_reexecution_harmless.
