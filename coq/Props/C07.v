(* C07 — several groupers = tuple keys; binning = pandas.cut. *)
From Coq Require Import ZArith String List Bool.
From Flox Require Import ListX Val Pipeline Binning BinningLaw.
Import ListNotations.
Open Scope Z_scope.

(* np.digitize-based bin assignment == pandas.cut, for every strictly increasing edge list, every
   value (on an edge, between edges, outside, NaN, +-inf) and both closed sides *)
Theorem C07_bin_code_is_pandas_cut :
  forall right edges x, strict_incr edges -> bin_code right edges x = cut_spec right edges x.
Proof. exact bin_code_is_cut. Qed.

(* grouping by several label arrays = grouping by the tuple of their codes: the combined code is
   injective on in-range code tuples (any number of groupers, any sizes) ... *)
Theorem C07_tuple_key_injective :
  forall cs cs', Forall in_range cs -> Forall in_range cs' ->
    map snd cs = map snd cs' -> ravel cs = ravel cs' -> map fst cs = map fst cs'.
Proof. exact ravel_injective. Qed.

(* ... an element is dropped as soon as ANY of its labels is missing / unrequested ... *)
Theorem C07_any_missing_drops :
  forall cs, existsb (fun cn => fst cn =? -1) cs = true -> ravel_codes cs = -1.
Proof. exact ravel_keeps_missing. Qed.

(* ... and otherwise lands in a non-negative slot; for two groupers: slot i*n2 + j, i.e. entry (i, j)
   after the final reshape to one axis per grouper *)
Theorem C07_in_range_slot :
  forall cs, Forall in_range cs -> ravel_codes cs = ravel cs /\ 0 <= ravel cs.
Proof. exact ravel_codes_in_range. Qed.

Theorem C07_two_groupers :
  forall c1 n1 c2 n2, 0 <= c1 < n1 -> 0 <= c2 < n2 -> ravel [(c1, n1); (c2, n2)] = c1 * n2 + c2.
Proof. exact ravel2. Qed.

Print Assumptions C07_bin_code_is_pandas_cut.
Print Assumptions C07_tuple_key_injective.
Print Assumptions C07_any_missing_drops.
Print Assumptions C07_in_range_slot.
Print Assumptions C07_two_groupers.
