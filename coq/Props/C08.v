(* C08 — partial-axis reductions and batch dimensions are independent slices. *)
From Coq Require Import ZArith String List Bool.
From Flox Require Import ListX Val Agg Spec Pipeline PipelineLaw Binning BinningLaw C08Proofs NdShape NdShapeLaw C08NdProofs NdBatch.
Import ListNotations.
Open Scope Z_scope.

(* per-slice offsetting of the codes: slot g + row'*ngroups receives exactly the elements of row
   row' whose code is g; missing labels stay missing *)
Theorem C08_offset_separates_rows :
  forall ng row row' c g, 0 < ng -> 0 <= row -> 0 <= row' -> -1 <= c < ng -> 0 <= g < ng ->
    (offset_code ng row c = g + row' * ng <-> row = row' /\ c = g).
Proof. exact offset_code_spec. Qed.

Theorem C08_offset_keeps_missing : forall ng row, offset_code ng row (-1) = -1.
Proof. exact offset_code_missing. Qed.

(* hence: reducing the flattened array with the offset codes and reshaping to (rows, ngroups) is the
   row-by-row 1-D grouped reduction (members of slot (row, g) = members of g within that row) *)
Theorem C08_flattened_equals_slicewise :
  forall ng (rows_codes : list (list Z)) (rows_vals : list (list xval)) r g,
    0 < ng -> 0 <= g < ng ->
    Forall (Forall (fun c => -1 <= c < ng)) rows_codes ->
    length rows_codes = length rows_vals ->
    Forall2 (fun cs vs => length cs = length vs) rows_codes rows_vals ->
    (r < length rows_codes)%nat ->
    vals_of (g + Z.of_nat r * ng) (C08Proofs.offset_all ng 0 rows_codes) (concat rows_vals)
    = vals_of g (nth r rows_codes []) (nth r rows_vals []).
Proof. exact C08Proofs.flattened_slicewise. Qed.

(* ---- arrays of ANY number of dimensions, ANY subset of axes in ANY order ----
   NdShape.v models an array as (shape, C-ordered data), _move_reduce_dims_to_end as the transpose with order
   (axes not reduced, ascending) ++ (reduced axes as given) and _collapse_axis as the C-order reshape of the last axes
   (K2: exact correspondence with the two flox functions on all shapes of <= 4 dims with sizes <= 3 and every ordered subset
   of axes).  After the plumbing, row ravel(ki), column ravel(ri) holds the original element whose index has ki on the kept
   axes and ri on the reduced ones ... *)
Theorem C08_plumbing_moves_each_element_where_it_belongs :
  forall (A : Type) (d : A) (a : nd A) axis ki ri,
    let n := length (shape a) in
    in_range (perm_shape (kept_axes n axis) (shape a)) ki ->
    in_range (perm_shape axis (shape a)) ri ->
    get A d (plumb A d axis a) (ki ++ [ravel (perm_shape axis (shape a)) ri])
    = get A d a (unperm (move_order n axis) (ki ++ ri)).
Proof. exact plumb_get. Qed.

(* ... where unperm really is "ki on the kept axes, ri on the reduced axes": the old index carries component j of
   (ki ++ ri) on axis order[j], and order is a permutation of all axes whenever the reduced axes are distinct and in range *)
Theorem C08_unperm_places_components :
  forall order idx' j, NoDup order -> (j < length order)%nat -> (nth j order 0%nat < length order)%nat ->
    nth (nth j order 0%nat) (unperm order idx') 0%nat = nth j idx' 0%nat.
Proof. exact unperm_spec. Qed.

Theorem C08_move_order_is_a_permutation :
  forall n axis, NoDup axis -> (forall ax, In ax axis -> (ax < n)%nat) ->
    NoDup (move_order n axis) /\ (forall ax, In ax (move_order n axis) <-> (ax < n)%nat) /\ length (move_order n axis) = n.
Proof. exact move_order_perm. Qed.

(* C-order ravel / unravel are mutually inverse on in-range indices (every size, every number of dimensions) *)
Theorem C08_ravel_unravel_inverse :
  forall s, (forall idx, in_range s idx -> unravel s (ravel s idx) = idx) /\
            (forall k, (k < nprod s)%nat -> ravel s (unravel s k) = k /\ in_range s (unravel s k)).
Proof. exact ravel_unravel_inverse. Qed.

(* THE n-d STATEMENT OF C08: offsetting the codes row by row and reducing the flattened, plumbed arrays gives, in the slot of
   (kept index ki, group g), exactly the members of group g within the slice of the ORIGINAL array at kept index ki (in C order
   of the reduced axes): the one-dimensional grouped reduction on that slice.  Codes -1 (missing) belong to no slot. *)
Theorem C08_partial_axis_reduction_is_slicewise :
  forall ng (a : nd xval) (c : nd Z) axis ki g dv,
    0 < ng -> 0 <= g < ng ->
    shape c = shape a ->
    Forall (fun x => -1 <= x < ng) (data c) ->
    let n := length (shape a) in
    let kept := perm_shape (kept_axes n axis) (shape a) in
    let red := perm_shape axis (shape a) in
    in_range kept ki ->
    vals_of (g + Z.of_nat (ravel kept ki) * ng)
            (C08Proofs.offset_all ng 0 (rows (nprod kept) (nprod red) (data (plumb Z 0 axis c))))
            (concat (rows (nprod kept) (nprod red) (data (plumb xval dv axis a))))
    = vals_of g (slice Z 0 axis c ki) (slice xval dv axis a ki).
Proof. exact partial_axis_slicewise. Qed.

(* BATCH DIMENSIONS.  The labels cover only the trailing dimensions s of a value array of shape lead ++ s; flox moves the
   value array with the label axes shifted by |lead| (groupby_reduce: `-array.ndim + ax + by_.ndim`).  For EVERY leading index
   li the part of the plumbed value array that belongs to li is exactly the plumbed sub-array a[li]: the result for a stack of
   arrays is the stack of the results (with the previous theorem applied to each a[li]). *)
Theorem C08_leading_dimensions_are_batch :
  forall (A : Type) (dflt : A) lead s (a : nd A) axis li ki ri,
    shape a = lead ++ s -> length li = length lead -> in_range lead li ->
    NoDup axis -> (forall ax, In ax axis -> (ax < length s)%nat) ->
    in_range (perm_shape (kept_axes (length s) axis) s) ki ->
    in_range (perm_shape axis s) ri ->
    get A dflt (plumb A dflt (map (Nat.add (length lead)) axis) a) ((li ++ ki) ++ [ravel (perm_shape axis s) ri])
    = get A dflt (plumb A dflt axis (sub A lead s a li)) (ki ++ [ravel (perm_shape axis s) ri]).
Proof. exact plumb_batch. Qed.

Print Assumptions C08_offset_separates_rows.
Print Assumptions C08_leading_dimensions_are_batch.
Print Assumptions C08_plumbing_moves_each_element_where_it_belongs.
Print Assumptions C08_unperm_places_components.
Print Assumptions C08_move_order_is_a_permutation.
Print Assumptions C08_ravel_unravel_inverse.
Print Assumptions C08_partial_axis_reduction_is_slicewise.
Print Assumptions C08_offset_keeps_missing.
Print Assumptions C08_flattened_equals_slicewise.
