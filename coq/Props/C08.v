(* C08 — partial-axis reductions and batch dimensions are independent slices. *)
From Coq Require Import ZArith String List Bool.
From Flox Require Import ListX Val Agg Spec Pipeline PipelineLaw Binning BinningLaw C08Proofs.
Import ListNotations.
Open Scope Z_scope.

(* per-slice offsetting of the codes: slot g + row'*ngroups receives exactly the elements of row
   row' whose code is g; missing labels stay missing *)
Theorem C08_offset_separates_rows :
  forall ng row row' c g, 0 < ng -> 0 <= row -> 0 <= row' -> -1 <= c < ng -> 0 <= g < ng ->
    (offset_code ng row c = g + row' * ng <-> row = row' /\ c = g).
Proof. exact offset_code_spec. Qed.

Theorem C08_offset_keeps_missing : forall ng row, offset_code ng row (-1) = -1.
Proof. exact offset_code_missing. Qed.

(* hence: reducing the flattened array with the offset codes and reshaping to (rows, ngroups) is the
   row-by-row 1-D grouped reduction (members of slot (row, g) = members of g within that row) *)
Theorem C08_flattened_equals_slicewise :
  forall ng (rows_codes : list (list Z)) (rows_vals : list (list xval)) r g,
    0 < ng -> 0 <= g < ng ->
    Forall (Forall (fun c => -1 <= c < ng)) rows_codes ->
    length rows_codes = length rows_vals ->
    Forall2 (fun cs vs => length cs = length vs) rows_codes rows_vals ->
    (r < length rows_codes)%nat ->
    vals_of (g + Z.of_nat r * ng) (C08Proofs.offset_all ng 0 rows_codes) (concat rows_vals)
    = vals_of g (nth r rows_codes []) (nth r rows_vals []).
Proof. exact C08Proofs.flattened_slicewise. Qed.

Print Assumptions C08_offset_separates_rows.
Print Assumptions C08_offset_keeps_missing.
Print Assumptions C08_flattened_equals_slicewise.
