(* C11 — result dtype, shape and chunk metadata are plan-independent and truthful. *)
From Coq Require Import ZArith String List Bool.
From Flox Require Import Tables Dtype C11Proofs.
Import ListNotations.

(* finite domain: 27 reductions x 13 input dtypes x dtype= in {None, float32, float64, int64} x
   fill_value in {None, int, NaN} (the rows of Tables.final_dtype_rows, regenerated from the code on
   every run): the result dtype follows the NumPy conventions of Dtype.expected_dtype; an explicit
   dtype= may be refused (ValueError/NotImplementedError), never with an internal error *)
Theorem C11_dtype_follows_numpy_conventions :
  forall r, In r final_dtype_rows -> dtype_row_ok r = true.
Proof. exact C11Proofs.rows_ok. Qed.

(* the conventions themselves: never narrower than the input for sums, floating for means,
   independent of the input dtype for counts *)
Theorem C11_conventions_sanity :
  (forall f d, class_of f = CountLike -> base_dtype f d = DI64) /\
  (forall f d, class_of f = Preserve -> base_dtype f d = d) /\
  (forall f d fill, class_of f = MeanLike -> In (expected_dtype f d None fill) [DF32; DF64; DDatetime; DTimedelta]).
Proof. exact C11Proofs.sanity. Qed.

Print Assumptions C11_dtype_follows_numpy_conventions.
Print Assumptions C11_conventions_sanity.
