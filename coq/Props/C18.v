(* C18 — grouped order statistics match NumPy's linear-interpolation quantiles. *)
From Coq Require Import ZArith String List Bool QArith.
From Flox Require Import Val Agg Factorize Quantile QuantileLaw.
Import ListNotations.
Open Scope Z_scope.

(* for every number of groups, every group size >= 1, any number of NaNs per group (none, some, all),
   every rational q in [0,1]: indexing the globally sorted array at
   (cumulative valid count of earlier groups) + floor/ceil(q (n_k - 1)) and interpolating
   gives NumPy's quantile (method="linear") of that group's own members;
   NaN-propagating: any NaN => NaN;  NaN-skipping: all-NaN => NaN *)
Theorem C18_quantile_matches_numpy :
  forall skipna qn qd groups nans,
    0 < qd -> 0 <= qn <= qd -> length groups = length nans ->
    flox_quantile skipna qn qd groups nans = spec_quantile skipna qn qd groups nans.
Proof. exact flox_quantile_correct. Qed.

Print Assumptions C18_quantile_matches_numpy.
