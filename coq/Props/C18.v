(* C18 — grouped order statistics match NumPy's linear-interpolation quantiles. *)
From Coq Require Import ZArith String List Bool QArith.
From Flox Require Import Val Agg Factorize Quantile QuantileLaw.
Import ListNotations.
Open Scope Z_scope.

(* for every number of groups, every group size >= 1, any number of NaNs per group (none, some, all),
   every rational q in [0,1]: indexing the globally sorted array at
   (cumulative valid count of earlier groups) + floor/ceil(q (n_k - 1)) and interpolating
   gives NumPy's quantile (method="linear") of that group's own members;
   NaN-propagating: any NaN => NaN;  NaN-skipping: all-NaN => NaN *)
Theorem C18_quantile_matches_numpy :
  forall skipna qn qd groups nans,
    0 < qd -> 0 <= qn <= qd -> length groups = length nans ->
    flox_quantile skipna qn qd groups nans = spec_quantile skipna qn qd groups nans.
Proof. exact flox_quantile_correct. Qed.

(* a vector of q adds ONE leading axis whose i-th row is NumPy's quantile for the i-th requested q - in the order given,
   whatever that order is (unsorted, repeated, including 0 and 1); a scalar q is the one-row case without the axis *)
Theorem C18_vector_q_rows_in_the_order_given :
  forall skipna qs groups nans,
    Forall (fun q => 0 < snd q /\ 0 <= fst q <= snd q) qs -> length groups = length nans ->
    flox_quantile_vec skipna qs groups nans = spec_quantile_vec skipna qs groups nans
    /\ length (flox_quantile_vec skipna qs groups nans) = length qs.
Proof. exact quantile_vec_correct. Qed.

Print Assumptions C18_quantile_matches_numpy.
Print Assumptions C18_vector_q_rows_in_the_order_given.
