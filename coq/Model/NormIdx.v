(* NormIdx.v — per-axis step of flox.core._normalize_indexes: which blocks of an axis with [n] blocks feed a
   cohort, given the (possibly repeated, unsorted) block numbers [idx] on that axis.  Definitions only. *)
From Coq Require Import ZArith String List Bool.
From Flox Require Import Factorize.
Import ListNotations.
Open Scope Z_scope.

Inductive axis_index : Type :=
  | IInt (i : Z)                              (* a single block *)
  | ISlice (start stop : option Z)            (* slice(start, stop): None = open end *)
  | IList (l : list Z).                       (* fancy index *)

Fixpoint zrange_from (s : Z) (k : nat) : list Z := match k with O => [] | S k' => s :: zrange_from (s + 1) k' end.

Fixpoint list_zeqb (a b : list Z) : bool :=
  match a, b with
  | [], [] => true
  | x :: a', y :: b' => (x =? y) && list_zeqb a' b'
  | _, _ => false
  end.

Definition normalize_axis (idx : list Z) (n : Z) : axis_index :=
  let u := zsort (zuniq idx) in                       (* _unique: sorted, duplicates removed *)
  match u with
  | [x] => IInt x                                     (* squeeze() gives a 0-d array *)
  | _ =>
      let first := hd 0 u in
      let lst := last u 0 in
      if (Z.of_nat (length u) =? n) && list_zeqb u (zrange_from 0 (Z.to_nat n)) then ISlice None None
      else if list_zeqb u (zrange_from first (Z.to_nat (lst + 1 - first)))
      then ISlice (if first =? 0 then None else Some first) (if lst + 1 =? n then None else Some (lst + 1))
      else IList u
  end.

(* the blocks an index selects on an axis with n blocks *)
Definition select (ix : axis_index) (n : Z) : list Z :=
  match ix with
  | IInt i => [i]
  | ISlice s e =>
      let a := match s with Some x => x | None => 0 end in
      let b := match e with Some x => x | None => n end in
      zrange_from a (Z.to_nat (b - a))
  | IList l => l
  end.
