(* Factorize.v — model of flox's label factorisation (_factorize_single, the non-binning
   branches; _convert_expected_groups_to_index's sorting) on integer labels.
   A label is [None] when missing (NaN / NaT).  Codes: index into the returned group list,
   -1 for missing or unrequested labels.  Definitions only. *)
From Coq Require Import ZArith String List Bool.
Import ListNotations.
Open Scope Z_scope.

(* insertion sort on Z (np.sort / Index.sort_values on distinct or repeated labels) *)
Fixpoint zinsert (x : Z) (l : list Z) : list Z :=
  match l with
  | [] => [x]
  | y :: r => if x <=? y then x :: l else y :: zinsert x r
  end.
Definition zsort (l : list Z) : list Z := fold_right zinsert [] l.

Fixpoint zmem (x : Z) (l : list Z) : bool :=
  match l with [] => false | y :: r => (x =? y) || zmem x r end.

(* order of first appearance, duplicates dropped (pd.unique / pd.factorize(sort=False)) *)
Fixpoint zuniq_acc (seen : list Z) (l : list Z) : list Z :=
  match l with
  | [] => []
  | x :: r => if zmem x seen then zuniq_acc seen r else x :: zuniq_acc (x :: seen) r
  end.
Definition zuniq (l : list Z) : list Z := zuniq_acc [] l.

(* index of the first occurrence of x in l, or -1 *)
Fixpoint zindex_from (i : Z) (x : Z) (l : list Z) : Z :=
  match l with
  | [] => -1
  | y :: r => if x =? y then i else zindex_from (i + 1) x r
  end.
Definition zindex (x : Z) (l : list Z) : Z := zindex_from 0 x l.

Fixpoint somesZ (l : list (option Z)) : list Z :=
  match l with
  | [] => []
  | Some x :: r => x :: somesZ r
  | None :: r => somesZ r
  end.

(* groups returned and code of every element *)
Definition groups_of (sort : bool) (expected : option (list Z)) (labels : list (option Z)) : list Z :=
  match expected with
  | Some ex => if sort then zsort ex else ex
  | None => if sort then zsort (zuniq (somesZ labels)) else zuniq (somesZ labels)
  end.

Definition code_of (groups : list Z) (l : option Z) : Z :=
  match l with
  | None => -1
  | Some x => zindex x groups
  end.

Definition factorize (sort : bool) (expected : option (list Z)) (labels : list (option Z))
  : list Z * list Z :=
  let gs := groups_of sort expected labels in (gs, map (code_of gs) labels).
