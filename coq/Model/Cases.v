(* Cases.v — the executable entry points the correspondence harness evaluates with
   vm_compute: one record per case, holding the inputs AND the implementation's outputs. *)
From Coq Require Import ZArith String List Bool QArith.
From Flox Require Import ListX Val Agg Spec Pipeline Registry ArgRed.
Import ListNotations.
Open Scope Z_scope.

Record rcase : Type := mkCase {
  c_func : string;
  c_kws : list (string * Z);
  c_mc : Z;                       (* effective min_count *)
  c_fill : option xq;             (* user fill (after flox's defaulting) *)
  c_sizes : list nat;             (* chunk sizes along the reduced axis; [] = eager *)
  c_k : nat;                      (* split_every *)
  c_grouped : bool;               (* grouped combine (true) or simple combine (false) *)
  c_ngroups : nat;
  c_codes : list Z;
  c_vals : list xval;
  c_expect : list xq              (* what the implementation returned, per group *)
}.

Definition find_agg (n : string) : option AggDesc :=
  find (fun a => String.eqb (a_name a) n) aggregations.

Definition numpy_op (a : AggDesc) : opname := hd (OOther "") (a_numpy a).

Definition spec_results (a : AggDesc) (c : rcase) : list (option finval) :=
  spec_groupby (numpy_op a) (c_kws c) (c_mc c) (c_fill c) (c_ngroups c) (c_codes c) (c_vals c).

(* arg reductions over a tree of blocks: position of the first occurrence of the extreme *)
Definition chunked_arg (d : argdir) (skipna : bool) (mc : Z) (fill : option xq) (t : tree block) (g : Z)
  : option finval :=
  match arg_tree d skipna g t with
  | None => option_map Plain fill
  | Some (p, _) =>
      if (0 <? mc) && (zlen (dropnan (concat (map (blk_vals g) (leaves t)))) <? mc)
      then option_map Plain fill
      else Some (Plain (QFin (inject_Z p)))
  end.

Definition model_results (a : AggDesc) (c : rcase) : list (option finval) :=
  match c_sizes c, a_chunk a with
  | [], _ => spec_results a c
  | _, None => spec_results a c      (* blockwise-only aggregation: every block is an eager reduction *)
  | sizes, Some _ =>
    match a_rtype a, arg_of_name (numpy_op a) with
    | ArgReduce, Some (d, skipna) =>
      let bs := cut_blocks sizes 0 (c_codes c) (c_vals c) in
      let t := tree_of_blocks (c_k c) bs in
      map (chunked_arg d skipna (c_mc c) (c_fill c) t) (zrange 0 (c_ngroups c))
    | _, _ =>
      let bs := cut_blocks sizes 0 (c_codes c) (c_vals c) in
      let t := tree_of_blocks (c_k c) bs in
      map (fun g => if c_grouped c
                    then chunked_grouped a (c_kws c) (c_mc c) (c_fill c) t g
                    else chunked_simple a (c_kws c) (c_mc c) (c_fill c) t g)
          (zrange 0 (c_ngroups c))
    end
  end.

Definition matches1 (m : option finval) (e : xq) : bool :=
  match m with Some v => finval_matches v e | None => false end.

Fixpoint forallb2 {A B} (f : A -> B -> bool) (l : list A) (m : list B) : bool :=
  match l, m with
  | [], [] => true
  | x :: l', y :: m' => f x y && forallb2 f l' m'
  | _, _ => false
  end.

Definition model_ok (c : rcase) : bool :=
  match find_agg (c_func c) with
  | Some a => forallb2 matches1 (model_results a c) (c_expect c)
  | None => false
  end.

Definition spec_ok (c : rcase) : bool :=
  match find_agg (c_func c) with
  | Some a => forallb2 matches1 (spec_results a c) (c_expect c)
  | None => false
  end.

Fixpoint failing_from {A} (f : A -> bool) (i : nat) (l : list A) : list nat :=
  match l with
  | [] => []
  | x :: r => if f x then failing_from f (S i) r else i :: failing_from f (S i) r
  end.
Definition failing {A} (f : A -> bool) (l : list A) : list nat := failing_from f 0 l.

(* ---- cases that start from raw labels: factorisation included in the model ---- *)
From Flox Require Import Factorize.

Record fcase : Type := mkFCase {
  f_base : rcase;                  (* c_codes / c_ngroups are ignored: recomputed by the model *)
  f_sort : bool;
  f_expected : option (list Z);
  f_labels : list (option Z);
  f_groups : list Z                (* the labels the implementation returned *)
}.

Fixpoint list_z_eqb (a b : list Z) : bool :=
  match a, b with
  | [], [] => true
  | x :: a', y :: b' => (x =? y) && list_z_eqb a' b'
  | _, _ => false
  end.

Definition with_codes (c : rcase) (gs codes : list Z) : rcase :=
  mkCase (c_func c) (c_kws c) (c_mc c) (c_fill c) (c_sizes c) (c_k c) (c_grouped c)
         (length gs) codes (c_vals c) (c_expect c).

Definition fmodel_ok (c : fcase) : bool :=
  let '(gs, codes) := factorize (f_sort c) (f_expected c) (f_labels c) in
  list_z_eqb gs (f_groups c) && model_ok (with_codes (f_base c) gs codes).

Definition fspec_ok (c : fcase) : bool :=
  let '(gs, codes) := factorize (f_sort c) (f_expected c) (f_labels c) in
  list_z_eqb gs (f_groups c) && spec_ok (with_codes (f_base c) gs codes).

(* ---- rechunk helper cases (K2) ---- *)
From Flox Require Import Rechunk.
Definition blockwise_case_ok (c : list Z * list Z * list Z) : bool :=
  let '(chunks, labels, impl) := c in list_z_eqb (optimal_chunks_missing chunks labels) impl.
Definition cohorts_case_ok (c : list Z * list Z * Z * bool * list Z * list Z) : bool :=
  let '(force, oldchunks, chunksize, ign, labels, impl) := c in
  list_z_eqb (cohort_chunks force oldchunks chunksize ign labels) impl.

(* ---- cohort planner cases (K2) ---- *)
From Flox Require Import Cohorts.
Definition method_code (m : method) : Z := match m with Blockwise => 0 | Cohorts => 1 | MapReduce => 2 end.
Fixpoint cohorts_eqb (a b : list (list Z * list Z)) : bool :=
  match a, b with
  | [], [] => true
  | (k, v) :: a', (k', v') :: b' => list_z_eqb k k' && list_z_eqb v v' && cohorts_eqb a' b'
  | _, _ => false
  end.
(* (blocks, nlabels, all_size_one, merge, impl: None = AssertionError | Some (method code, cohorts)) *)
Definition planner_case_ok
  (c : list (list Z) * nat * bool * bool * option (Z * list (list Z * list Z))) : bool :=
  let '(blocks, nlabels, one, merge, impl) := c in
  match find_group_cohorts blocks nlabels one merge, impl with
  | None, None => true
  | Some (m, cs), Some (mi, ci) => (method_code m =? mi) && cohorts_eqb cs ci
  | _, _ => false
  end.

(* ---- engine kernel cases (K2): generic_aggregate called directly ---- *)
From Flox Require Import Engines.
(* (engine: 0 = flox, 1 = numpy/numba ; op ; fill ; size ; codes ; vals ; impl result per slot) *)
Definition kernel_case_ok (c : Z * opname * xval * nat * list Z * list xval * list xval) : bool :=
  let '(eng, o, fill, size, codes, vals, impl) := c in
  let k := if eng =? 0 then flox_kernel o fill codes vals else npg_kernel o fill codes vals in
  forallb2 xval_eqb (map k (zrange 0 size)) impl.

(* ---- binning / ravel / offset cases (K2) ---- *)
From Flox Require Import Binning.
Definition bin_case_ok (c : bool * list Z * list xval * list Z) : bool :=
  let '(rt, edges, xs, impl) := c in list_z_eqb (map (bin_code rt edges) xs) impl.
Definition ravel_case_ok (c : list Z * list (list Z) * list Z) : bool :=
  let '(sizes, rows, impl) := c in
  list_z_eqb (map (fun codes => ravel_codes (combine codes sizes)) rows) impl.
Definition offset_case_ok (c : Z * list (list Z) * list Z) : bool :=
  let '(ng, rows, impl) := c in
  list_z_eqb (concat (map (fun rc => map (offset_code ng (fst rc)) (snd rc)) (zip_pos rows 0))) impl.

(* ---- quantile cases (K2) ---- *)
From Flox Require Import Quantile.
Definition quantile_case_ok (c : bool * Z * Z * list (list Z) * list Z * list xq) : bool :=
  let '(skipna, qn, qd, groups, nans, impl) := c in
  forallb2 xq_close (flox_quantile skipna qn qd groups nans) impl
  && forallb2 xq_close (spec_quantile skipna qn qd groups nans) impl.

(* ---- scan cases (K3) ---- *)
From Flox Require Import Scan.
(* (func: 0 nancumsum | 1 ffill | 2 bfill ; chunk sizes ([] = eager) ; codes ; vals ; impl) *)
Definition scan_case_ok (c : Z * list nat * list Z * list xval * list xval) : bool :=
  let '(f, sizes, codes, vals, impl) := c in
  let m := if f =? 2 then bfill_seq codes vals
           else let fn := if f =? 0 then Nancumsum else Ffill in
                match sizes with [] => scan_seq fn codes vals | _ => scan_chunked fn sizes codes vals end in
  forallb2 xval_eqb m impl.

(* ---- _restore_dim_order cases (K2) ---- *)
From Flox Require Import XrDims.
Fixpoint strs_eqb (a b : list string) : bool :=
  match a, b with
  | [], [] => true
  | x :: a', y :: b' => String.eqb x y && strs_eqb a' b'
  | _, _ => false
  end.
Definition restore_case_ok (c : list string * string * option string * bool * list string * list string) : bool :=
  let '(objdims, gname, gdim, nr, resultdims, impl) := c in
  strs_eqb (restore_dim_order objdims gname gdim nr resultdims) impl.

(* ---- _broadcast_size_one_dims cases (K2): axis names of the real result, recovered from distinct dim lengths ---- *)
Fixpoint ostrs_eqb (a b : list (option string)) : bool :=
  match a, b with
  | [], [] => true
  | Some x :: a', Some y :: b' => String.eqb x y && ostrs_eqb a' b'
  | None :: a', None :: b' => ostrs_eqb a' b'
  | _, _ => false
  end.
Definition broadcast_case_ok (c : list string * list string * list (option string)) : bool :=
  let '(core, bdims, impl) := c in ostrs_eqb (broadcast_result core bdims) impl.

(* ---- _normalize_indexes per-axis cases (K2): 0 = int i, 1 = slice(start|-1, stop|-1), 2 = list ---- *)
From Flox Require Import NormIdx.
Definition axis_index_code (ix : axis_index) : list Z :=
  match ix with
  | IInt i => [0; i]
  | ISlice s e => [1; match s with Some x => x | None => -1 end; match e with Some x => x | None => -1 end]
  | IList l => 2 :: l
  end.
Definition normidx_case_ok (c : list Z * Z * list Z) : bool :=
  let '(idx, n, impl) := c in list_z_eqb (axis_index_code (normalize_axis idx n)) impl.

(* ---- n-d plumbing cases (K2): _collapse_axis(_move_reduce_dims_to_end(arr, axis), len(axis)) on arr = arange(N).reshape(shape) ---- *)
From Flox Require Import NdShape.
Definition plumb_case_ok (c : list nat * list nat * list nat * list Z) : bool :=
  let '(shp, axis, ishape, idata) := c in
  let b := plumb Z (-1) axis (mkNd shp (map Z.of_nat (seq 0 (nprod shp)))) in
  list_z_eqb (map Z.of_nat (shape b)) (map Z.of_nat ishape) && list_z_eqb (data b) idata.

(* ---- cohort subset wiring (K2): the layer built by flox.core.subset_to_blocks vs NdTake.subset_sources.
   (block grid of the array, selected blocks per axis (batch axes: all blocks), flat source block of every output position in C order,
    announced output block-grid shape) ---- *)
From Flox Require Import NdTake.
Fixpoint list_nat_eqb (a b : list nat) : bool :=
  match a, b with
  | [], [] => true
  | x :: a', y :: b' => Nat.eqb x y && list_nat_eqb a' b'
  | _, _ => false
  end.
Definition subset_case_ok (c : list nat * list (list nat) * list nat * list nat) : bool :=
  let '(blk, sels, isrc, ishape) := c in
  let m := subset_sources blk sels in
  list_nat_eqb (data m) isrc && list_nat_eqb (shape m) ishape.

(* ---- reindex_ cases (K2): (from_, to, values attached to from_, fill, what flox.core.reindex_ returned) ---- *)
From Flox Require Import Reindex.
Definition reindex_case_ok (c : list Z * list Z * list Z * Z * list Z) : bool :=
  let '(from_, to, vals, fill, impl) := c in list_z_eqb (reindex from_ to fill vals) impl.
