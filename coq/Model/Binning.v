(* Binning.v — model of the IntervalIndex branch of _factorize_single (np.digitize made to
   mimic pandas.cut) and of _ravel_factorized / offset_labels (code arithmetic).
   Edges are integers (the harness scales halves by 2), values are xval.  Definitions only. *)
From Coq Require Import ZArith String List Bool.
From Flox Require Import Val.
Import ListNotations.
Open Scope Z_scope.

Definition zlen' {A} (l : list A) : Z := Z.of_nat (length l).

(* np.digitize(x, bins, right): number of edges e with e <= x (right=False) / e < x (right=True);
   NaN sorts after everything *)
Definition edge_before (right : bool) (e : Z) (x : xval) : bool :=
  match x with
  | NaN => true
  | PInf => true
  | NInf => false
  | Fin v => if right then e <? v else e <=? v
  end.
Definition digitize (right : bool) (edges : list Z) (x : xval) : Z :=
  zlen' (filter (fun e => edge_before right e x) edges).

(* within_bins = flat <= bins.max() if right else flat < bins.max()  (False for NaN) *)
Definition within (right : bool) (edges : list Z) (x : xval) : bool :=
  let mx := last edges 0 in
  match x with
  | NaN => false
  | PInf => false
  | NInf => true
  | Fin v => if right then v <=? mx else v <? mx
  end.

Definition bin_code (right : bool) (edges : list Z) (x : xval) : Z :=
  match edges with
  | [] | [_] => -1
  | _ => if within right edges x then digitize right edges x - 1 else -1
  end.

(* pandas.cut: index of the interval containing x, -1 (NaN) if none *)
Definition in_interval (right : bool) (lo hi : Z) (x : xval) : bool :=
  match x with
  | Fin v => if right then (lo <? v) && (v <=? hi) else (lo <=? v) && (v <? hi)
  | _ => false
  end.
Fixpoint cut_from (right : bool) (j : Z) (edges : list Z) (x : xval) : Z :=
  match edges with
  | lo :: ((hi :: _) as r) => if in_interval right lo hi x then j else cut_from right (j + 1) r x
  | _ => -1
  end.
Definition cut_spec (right : bool) (edges : list Z) (x : xval) : Z := cut_from right 0 edges x.

(* ---------- several groupers: np.ravel_multi_index(mode="wrap") + restoring -1 ---------- *)
Fixpoint zprod (l : list Z) : Z := match l with [] => 1 | x :: r => x * zprod r end.

(* codes and sizes of the groupers, first grouper = slowest axis *)
Fixpoint ravel (cs : list (Z * Z)) : Z :=
  match cs with
  | [] => 0
  | (c, n) :: r => (c mod n) * zprod (map snd r) + ravel r
  end.
Definition ravel_codes (cs : list (Z * Z)) : Z :=
  if existsb (fun cn => fst cn =? -1) cs then -1 else ravel cs.

(* offset_labels: code of row r, group c when reducing a subset of the label dims *)
Definition offset_code (ngroups : Z) (row : Z) (c : Z) : Z :=
  if c =? -1 then -1 else c + row * ngroups.
