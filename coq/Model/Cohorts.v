(* Cohorts.v — model of flox.core.find_group_cohorts (and _compute_label_chunk_bitmask).
   Input: for every block (row-major over the block grid) the list of label codes occurring in
   it (negative = missing), the number of labels, whether every chunk has size 1, and [merge].
   Output: None where the code would trip one of its asserts; otherwise the preferred method and
   the cohorts (block set, labels).  Definitions only. *)
From Coq Require Import ZArith String List Bool.
From Flox Require Import Factorize Rechunk.
Import ListNotations.
Open Scope Z_scope.

Inductive method : Type := Blockwise | Cohorts | MapReduce.

Fixpoint zenum_from {A} (i : Z) (l : list A) : list (Z * A) :=
  match l with [] => [] | x :: r => (i, x) :: zenum_from (i + 1) r end.

(* blocks in which label x occurs, ascending *)
Definition chunks_of_label (blocks : list (list Z)) (x : Z) : list Z :=
  map fst (filter (fun ib => zmem x (snd ib)) (zenum_from 0 blocks)).

Fixpoint zrangeZ (start : Z) (n : nat) : list Z :=
  match n with O => [] | S k => start :: zrangeZ (start + 1) k end.

(* label_chunks: present labels (ascending) with their block lists *)
Definition label_chunks (blocks : list (list Z)) (nlabels : nat) : list (Z * list Z) :=
  filter (fun lc => negb (Nat.eqb (length (snd lc)) 0))
         (map (fun x => (x, chunks_of_label blocks x)) (zrangeZ 0 nlabels)).

(* toolz.groupby(invert, labels): key -> labels, keys in order of first appearance *)
Fixpoint add_to_group (key : list Z) (x : Z) (gs : list (list Z * list Z)) : list (list Z * list Z) :=
  match gs with
  | [] => [(key, [x])]
  | (k, xs) :: r => if list_eqb k key then (k, xs ++ [x]) :: r else (k, xs) :: add_to_group key x r
  end.
Definition group_by_chunks (lc : list (Z * list Z)) : list (list Z * list Z) :=
  fold_left (fun gs l => add_to_group (snd l) (fst l) gs) lc [].

Definition inter_count (a b : list Z) : Z := zlength (filter (fun x => zmem x b) a).

Fixpoint zunion (a b : list Z) : list Z :=
  match b with [] => a | x :: r => if zmem x a then zunion a r else zunion (a ++ [x]) r end.

Definition lookup_chunks (lc : list (Z * list Z)) (x : Z) : list Z :=
  match find (fun l => fst l =? x) lc with Some l => snd l | None => [] end.

(* merged_cohorts[key] = cohort, or, when two merged cohorts occupy exactly the same blocks,
   merged_cohorts[key] = sorted(merged_cohorts[key] + cohort)  (the entry keeps its position) *)
Fixpoint dict_set (key : list Z) (v : list Z) (d : list (list Z * list Z)) : list (list Z * list Z) :=
  match d with
  | [] => [(key, v)]
  | (k, w) :: r => if list_eqb k key then (k, zsort (w ++ v)) :: r else (k, w) :: dict_set key v r
  end.

(* stable insertion sort of rows by (count descending, index descending) and of cohorts by first label *)
Fixpoint insert_by {A} (le : A -> A -> bool) (x : A) (l : list A) : list A :=
  match l with
  | [] => [x]
  | y :: r => if le x y then x :: l else y :: insert_by le x r
  end.
Definition sort_by {A} (le : A -> A -> bool) (l : list A) : list A := fold_right (insert_by le) [] l.

Record loop_state : Type := mkLS { merged_keys : list Z; merged : list (list Z * list Z) }.

(* one iteration of the merging loop for the row of label [row_label] whose (thresholded)
   containment row lists the labels [cols] (ascending) *)
Definition merge_step (lc : list (Z * list Z)) (st : loop_state) (row : Z * list Z) : loop_state :=
  let '(row_label, cols) := row in
  if zmem row_label (merged_keys st) then st
  else
    let cohort := filter (fun x => negb (zmem x (merged_keys st))) cols in
    match cohort with
    | [] => st
    | _ =>
        let key := zsort (fold_left (fun acc x => zunion acc (lookup_chunks lc x)) cohort []) in
        mkLS (merged_keys st ++ cohort) (dict_set key cohort (merged st))
    end.

Definition find_group_cohorts (blocks : list (list Z)) (nlabels : nat) (all_size_one : bool) (merge : bool)
  : option (method * list (list Z * list Z)) :=
  let nchunks := length blocks in
  if Nat.eqb nchunks 1 then Some (Blockwise, [([0], zrangeZ 0 nlabels)])
  else
    let lc := label_chunks blocks nlabels in
    let exact := group_by_chunks lc in
    if Nat.eqb (length lc) 0 then Some (MapReduce, [])     (* no label present: nothing to plan *)
    else if forallb (fun l => Nat.eqb (length (snd l)) 1) lc then Some (Blockwise, exact)
    else if Nat.eqb (length exact) 1 then Some (MapReduce, if merge then exact else [])
    else
      let present := map fst lc in
      let one_group_per_chunk :=
        forallb (fun b => Nat.eqb (length (filter (fun x => zmem x b) present)) 1) blocks in
      let keys := concat (map fst exact) in
      let maxk := fold_left Z.max keys 0 in
      let no_overlap :=
        forallb (fun c => Nat.eqb (length (filter (Z.eqb c) keys)) 1) (zrangeZ 0 (Z.to_nat (maxk + 1))) in
      if one_group_per_chunk || all_size_one || no_overlap then Some (Cohorts, exact)
      else
        let nnz := fold_left (fun acc l => acc + zlength (snd l)) lc 0 in
        let size := Z.of_nat nchunks * zlength lc in
        let dense := 2 * size <? 5 * nnz in                 (* sparsity > 0.4 *)
        if dense && negb merge then Some (MapReduce, [])
        else
          let preferred := if dense then MapReduce else Cohorts in
          (* rows of the thresholded containment matrix, for the first label of every exact cohort *)
          let reps := map (fun g => hd 0 (snd g)) exact in
          let rows :=
            map (fun il =>
                   let '(i, l) := il in
                   let ci := snd l in
                   (i, (fst l,
                        if zmem (fst l) reps
                        then map fst (filter (fun m => 3 * zlength (snd m) <=? 4 * inter_count ci (snd m)) lc)
                        else [])))
                (zenum_from 0 lc) in
          let rows := filter (fun r => negb (Nat.eqb (length (snd (snd r))) 0)) rows in
          (* np.argsort(counts, kind="stable")[::-1] : count descending, then index descending *)
          let ordered :=
            sort_by (fun a b =>
                       let ca := zlength (snd (snd a)) in let cb := zlength (snd (snd b)) in
                       (cb <? ca) || ((ca =? cb) && (fst b <=? fst a))) rows in
          let st := fold_left (merge_step lc) (map snd ordered) (mkLS [] []) in
          let actual := fold_left (fun acc kv => acc + zlength (snd kv)) (merged st) 0 in
          if (zlength (merged_keys st) =? actual) && (zlength lc =? actual)
          then Some (preferred,
                     sort_by (fun a b => hd 0 (snd a) <=? hd 0 (snd b)) (merged st))
          else None.
