(* Spec.v — the ORACLE: NumPy's reductions on a list of members (exact arithmetic),
   and the per-group specification of a grouped reduction.  Validated against NumPy
   itself by correspondence suite K0.  Definitions only. *)
From Coq Require Import ZArith String List Bool QArith.
From Flox Require Import Val Agg.
Import ListNotations.
Open Scope Z_scope.

Definition zlen {A} (l : list A) : Z := Z.of_nat (length l).

(* NumPy folds from the left *)
Definition np_sum (l : list xval) : xval := fold_left xadd l (Fin 0).
Definition np_prod (l : list xval) : xval := fold_left xmul l (Fin 1).
Definition np_max (l : list xval) : xval :=      (* undefined (ValueError) on []: NaN here *)
  match l with [] => NaN | x :: r => fold_left xmax r x end.
Definition np_min (l : list xval) : xval :=
  match l with [] => NaN | x :: r => fold_left xmin r x end.
Definition np_nanmax (l : list xval) : xval := np_max (dropnan l).   (* all-NaN -> NaN *)
Definition np_nanmin (l : list xval) : xval := np_min (dropnan l).
Definition np_all (l : list xval) : xval := of_bool (forallb truthy l).
Definition np_any (l : list xval) : xval := of_bool (existsb truthy l).

Definition has_nan (l : list xval) : bool := existsb is_nan l.

Definition qlen (l : list xval) : xq := QFin (inject_Z (zlen l)).

Definition np_mean (l : list xval) : xq := qdiv (xq_of_xval (np_sum l)) (qlen l).

(* two-pass variance, as numpy computes it: mean, then mean of squared deviations *)
Definition np_var (ddof : Z) (l : list xval) : xq :=
  let n := zlen l in
  let m := np_mean l in
  let devs := map (fun x => let d := qsub (xq_of_xval x) m in qmul d d) l in
  let ss := fold_left qadd devs (QFin 0) in
  if n <=? ddof then QNaN                          (* numpy: nan (or inf) with a warning *)
  else qdiv ss (QFin (inject_Z (n - ddof))).

(* first index of the extreme; np.argmax treats NaN as the maximum (first NaN wins) *)
Fixpoint arg_best (better : xval -> xval -> bool) (l : list xval) (i : Z) (best : xval) (bi : Z) : Z :=
  match l with
  | [] => bi
  | x :: r => if better x best then arg_best better r (i + 1) x i else arg_best better r (i + 1) best bi
  end.
Definition np_argmax (l : list xval) : Z :=
  match l with [] => 0 | x :: r => arg_best (fun v b => negb (is_nan b) && (is_nan v || xlt b v)) r 1 x 0 end.
Definition np_argmin (l : list xval) : Z :=
  match l with [] => 0 | x :: r => arg_best (fun v b => negb (is_nan b) && (is_nan v || xlt v b)) r 1 x 0 end.

(* position (in [poss]) of the arg-extreme among non-NaN members *)
Definition pick_pos (poss : list Z) (i : Z) : Z := nth (Z.to_nat i) poss 0.

Definition first_notnan (l : list xval) : xval := hd NaN (dropnan l).
Definition last_notnan (l : list xval) : xval := last (dropnan l) NaN.

(* NumPy reduction named [o] applied to members [vals] (whose global positions along the
   reduced axis are [poss]).  [kws] carries ddof.  Quantiles live in Quantile.v. *)
Definition np_reduce (o : opname) (kws : list (string * Z)) (poss : list Z) (vals : list xval) : finval :=
  let ddof := lookup_kw kws "ddof" 0 in
  match o with
  | OSum => Plain (xq_of_xval (np_sum vals))
  | ONansum => Plain (xq_of_xval (np_sum (dropnan vals)))
  | OProd => Plain (xq_of_xval (np_prod vals))
  | ONanprod => Plain (xq_of_xval (np_prod (dropnan vals)))
  | OMax => Plain (xq_of_xval (np_max vals))
  | ONanmax => Plain (xq_of_xval (np_nanmax vals))
  | OMin => Plain (xq_of_xval (np_min vals))
  | ONanmin => Plain (xq_of_xval (np_nanmin vals))
  | OCount | ONanlen => Plain (QFin (inject_Z (zlen (dropnan vals))))
  | OLen => Plain (QFin (inject_Z (zlen vals)))
  | OAll => Plain (xq_of_xval (np_all vals))
  | OAny => Plain (xq_of_xval (np_any vals))
  | OMean => Plain (np_mean vals)
  | ONanmean => Plain (np_mean (dropnan vals))
  | OVar => Plain (np_var ddof vals)
  | ONanvar => Plain (np_var ddof (dropnan vals))
  | OStd => SqrtOf (np_var ddof vals)
  | ONanstd => SqrtOf (np_var ddof (dropnan vals))
  | OFirst => Plain (xq_of_xval (hd NaN vals))
  | OLast => Plain (xq_of_xval (last vals NaN))
  | ONanfirst => Plain (xq_of_xval (first_notnan vals))
  | ONanlast => Plain (xq_of_xval (last_notnan vals))
  | OArgmax => Plain (QFin (inject_Z (pick_pos poss (np_argmax vals))))
  | OArgmin => Plain (QFin (inject_Z (pick_pos poss (np_argmin vals))))
  | ONanargmax =>
      let keep := filter (fun pv => notnan (snd pv)) (combine poss vals) in
      Plain (QFin (inject_Z (pick_pos (map fst keep) (np_argmax (map snd keep)))))
  | ONanargmin =>
      let keep := filter (fun pv => notnan (snd pv)) (combine poss vals) in
      Plain (QFin (inject_Z (pick_pos (map fst keep) (np_argmin (map snd keep)))))
  | _ => Plain QNaN
  end.

(* ---------------------------------------------------------------------- *)
(* grouped specification on integer codes: -1 (any negative) = missing / unrequested *)

Fixpoint zip_pos {A} (l : list A) (i : Z) : list (Z * A) :=
  match l with [] => [] | x :: r => (i, x) :: zip_pos r (i + 1) end.

(* members of group g: (global position, value), in original order *)
Definition members (g : Z) (codes : list Z) (vals : list xval) : list (Z * xval) :=
  map (fun t => (fst t, snd (snd t)))
      (filter (fun t => fst (snd t) =? g) (zip_pos (combine codes vals) 0)).

Definition valid_count (m : list (Z * xval)) : Z := zlen (dropnan (map snd m)).

(* user-visible fill: [None] means "no fill requested" *)
Definition spec_group (o : opname) (kws : list (string * Z)) (min_count : Z) (fill : option xq)
           (codes : list Z) (vals : list xval) (g : Z) : option finval :=
  let m := members g codes vals in
  let poss := map fst m in
  let vs := map snd m in
  if valid_count m <? min_count then option_map Plain fill
  else match m with
       | [] => option_map Plain fill
       | _ => Some (np_reduce o kws poss vs)
       end.

Fixpoint zrange (start : Z) (n : nat) : list Z :=
  match n with O => [] | S k => start :: zrange (start + 1) k end.

Definition spec_groupby (o : opname) (kws : list (string * Z)) (min_count : Z) (fill : option xq)
           (ngroups : nat) (codes : list Z) (vals : list xval) : list (option finval) :=
  map (spec_group o kws min_count fill codes vals) (zrange 0 ngroups).
