(* Val.v — value domain of the flox model.
   Numbers are exact integers extended with the IEEE specials that matter to
   flox (NaN, +inf, -inf).  Floating-point rounding is NOT modelled (DESIGN 3.1).
   Definitions only; every function is total and computable. *)
From Coq Require Import ZArith List Bool QArith.
Import ListNotations.
Open Scope Z_scope.

Inductive xval : Type := Fin (z : Z) | NaN | PInf | NInf.

Definition xval_eqb (a b : xval) : bool :=
  match a, b with
  | Fin x, Fin y => x =? y
  | NaN, NaN => true
  | PInf, PInf => true
  | NInf, NInf => true
  | _, _ => false
  end.

Definition is_nan (a : xval) : bool := match a with NaN => true | _ => false end.
Definition notnan (a : xval) : bool := negb (is_nan a).
Definition dropnan (l : list xval) : list xval := filter notnan l.

(* IEEE addition on exactly representable data *)
Definition xadd (a b : xval) : xval :=
  match a, b with
  | NaN, _ => NaN
  | _, NaN => NaN
  | PInf, NInf => NaN
  | NInf, PInf => NaN
  | PInf, _ => PInf
  | _, PInf => PInf
  | NInf, _ => NInf
  | _, NInf => NInf
  | Fin x, Fin y => Fin (x + y)
  end.

Definition sgn_inf (pos : bool) : xval := if pos then PInf else NInf.

Definition xmul (a b : xval) : xval :=
  match a, b with
  | NaN, _ => NaN
  | _, NaN => NaN
  | Fin x, Fin y => Fin (x * y)
  | Fin x, PInf => if x =? 0 then NaN else sgn_inf (0 <? x)
  | PInf, Fin x => if x =? 0 then NaN else sgn_inf (0 <? x)
  | Fin x, NInf => if x =? 0 then NaN else sgn_inf (x <? 0)
  | NInf, Fin x => if x =? 0 then NaN else sgn_inf (x <? 0)
  | PInf, PInf => PInf
  | NInf, NInf => PInf
  | PInf, NInf => NInf
  | NInf, PInf => NInf
  end.

Definition xsq (a : xval) : xval := xmul a a.

(* np.maximum / np.minimum: NaN-propagating *)
Definition xmax (a b : xval) : xval :=
  match a, b with
  | NaN, _ => NaN
  | _, NaN => NaN
  | PInf, _ => PInf
  | _, PInf => PInf
  | NInf, y => y
  | x, NInf => x
  | Fin x, Fin y => Fin (Z.max x y)
  end.

Definition xmin (a b : xval) : xval :=
  match a, b with
  | NaN, _ => NaN
  | _, NaN => NaN
  | NInf, _ => NInf
  | _, NInf => NInf
  | PInf, y => y
  | x, PInf => x
  | Fin x, Fin y => Fin (Z.min x y)
  end.

(* np.fmax / np.fmin (and np.nanmax/np.nanmin folded pairwise): NaN-skipping *)
Definition xfmax (a b : xval) : xval :=
  match a, b with
  | NaN, y => y
  | x, NaN => x
  | _, _ => xmax a b
  end.

Definition xfmin (a b : xval) : xval :=
  match a, b with
  | NaN, y => y
  | x, NaN => x
  | _, _ => xmin a b
  end.

(* strict order on non-NaN values; false whenever a NaN is involved (IEEE) *)
Definition xlt (a b : xval) : bool :=
  match a, b with
  | NaN, _ => false
  | _, NaN => false
  | NInf, NInf => false
  | NInf, _ => true
  | _, NInf => false
  | PInf, _ => false
  | _, PInf => true
  | Fin x, Fin y => x <? y
  end.

(* truthiness as numpy sees it: only 0 is false (NaN and inf are truthy) *)
Definition truthy (a : xval) : bool := match a with Fin 0 => false | _ => true end.
Definition of_bool (b : bool) : xval := Fin (if b then 1 else 0).
Definition xand (a b : xval) : xval := of_bool (truthy a && truthy b).
Definition xor_ (a b : xval) : xval := of_bool (truthy a || truthy b).

(* xrutils.nanfirst / nanlast folded pairwise *)
Definition xnanfirst (a b : xval) : xval := if is_nan a then b else a.
Definition xnanlast (a b : xval) : xval := if is_nan b then a else b.

(* wrap a finite value into a signed / unsigned integer of [w] bits *)
Definition wrap_signed (w : Z) (z : Z) : Z :=
  let m := 2 ^ w in let r := z mod m in if r <? 2 ^ (w - 1) then r else r - m.
Definition wrap_unsigned (w : Z) (z : Z) : Z := z mod 2 ^ w.

(* ---------- exact rational results (mean / var / quantile) ---------- *)
Inductive xq : Type := QFin (q : Q) | QNaN | QPInf | QNInf.

Definition xq_of_xval (a : xval) : xq :=
  match a with Fin z => QFin (inject_Z z) | NaN => QNaN | PInf => QPInf | NInf => QNInf end.

Definition Qeqb (a b : Q) : bool := Qeq_bool a b.

Definition xq_eqb (a b : xq) : bool :=
  match a, b with
  | QFin x, QFin y => Qeqb x y
  | QNaN, QNaN => true
  | QPInf, QPInf => true
  | QNInf, QNInf => true
  | _, _ => false
  end.

(* |a-b| <= 2^-40 * (1+|b|) : the tolerance used when the implementation's
   result went through floating-point division / sqrt *)
Definition Qabs' (q : Q) : Q := if Qle_bool 0 q then q else Qopp q.
Definition xq_close (a b : xq) : bool :=
  match a, b with
  | QFin x, QFin y =>
      Qle_bool (Qabs' (x - y)) ((1 # 1099511627776) * (1 + Qabs' y))
  | _, _ => xq_eqb a b
  end.

(* x / y with IEEE conventions for the cases flox can produce:
   y is a count (finite, >= 0) *)
Definition xdiv_count (s : xval) (c : Z) : xq :=
  match s with
  | NaN => QNaN
  | PInf => QPInf
  | NInf => QNInf
  | Fin z =>
      if c =? 0 then (if z =? 0 then QNaN else if 0 <? z then QPInf else QNInf)
      else QFin (inject_Z z / inject_Z c)
  end.
