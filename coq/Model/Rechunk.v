(* Rechunk.v — model of flox's rechunking heuristics:
     _get_optimal_chunks_for_groups (rechunk_for_blockwise) and the division loop of
     rechunk_for_cohorts.   Labels are integer codes, chunks positive integers.
   Definitions only. *)
From Coq Require Import ZArith String List Bool.
From Flox Require Import Factorize.
Import ListNotations.
Open Scope Z_scope.

Definition znth (l : list Z) (i : Z) : Z := nth (Z.to_nat i) l 0.
Definition zlength {A} (l : list A) : Z := Z.of_nat (length l).

Fixpoint cumsum_from (acc : Z) (l : list Z) : list Z :=
  match l with [] => [] | x :: r => (acc + x) :: cumsum_from (acc + x) r end.
Definition cumsum (l : list Z) : list Z := cumsum_from 0 l.

(* chunkidx = cumsum(chunks) - 1 : index of the last element of every chunk *)
Definition chunk_last_idx (chunks : list Z) : list Z := map (fun c => c - 1) (cumsum chunks).

(* last index at which x occurs (npg aggregate func="last" of arange) ; 0 if absent *)
Fixpoint zlast_from (i : Z) (x : Z) (l : list Z) (best : Z) : Z :=
  match l with
  | [] => best
  | y :: r => zlast_from (i + 1) x r (if x =? y then i else best)
  end.
Definition zlast_index (x : Z) (l : list Z) : Z := zlast_from 0 x l 0.
Definition zfirst_index (x : Z) (l : list Z) : Z := Z.max 0 (zindex x l).

Fixpoint diffs (l : list Z) : list Z :=
  match l with
  | a :: ((b :: _) as r) => (b - a) :: diffs r
  | _ => []
  end.

Fixpoint list_eqb (a b : list Z) : bool :=
  match a, b with
  | [], [] => true
  | x :: a', y :: b' => (x =? y) && list_eqb a' b'
  | _, _ => false
  end.

(* the for-loop over zip(chunkidx, firstidx, lastidx); [cur] is newchunkidx[-1];
   returns the indices appended, in order *)
Fixpoint opt_loop (ts : list (Z * Z * Z)) (cur : Z) : list Z :=
  match ts with
  | [] => []
  | (c, f, l) :: r =>
      if (c =? 0) || (l <? cur) then opt_loop r cur
      else if (Z.abs (c - f) <? Z.abs (c - l)) && (cur <? f) then f :: opt_loop r f
      else (l + 1) :: opt_loop r (l + 1)
  end.

Fixpoint zip3 (a b c : list Z) : list (Z * Z * Z) :=
  match a, b, c with
  | x :: a', y :: b', z :: c' => (x, y, z) :: zip3 a' b' c'
  | _, _, _ => []
  end.

Definition optimal_chunks (chunks labels : list Z) : list Z :=
  let chunkidx := chunk_last_idx chunks in
  let bl := zsort (zuniq (map (znth labels) chunkidx)) in     (* labels_at_chunk_bounds *)
  let lastidx := map (fun x => zlast_index x labels) bl in
  if list_eqb chunkidx lastidx then chunks
  else
    let firstidx := map (fun x => zfirst_index x labels) bl in
    let tail := opt_loop (zip3 chunkidx firstidx lastidx) 0 in
    let idx := 0 :: tail in
    let total := last chunkidx 0 + 1 in
    let idx' := if last idx 0 =? total then idx else idx ++ [total] in
    diffs idx'.

(* missing labels (code -1) belong to no group and may live in any block: they are attached to the
   preceding group (leading ones to the first group) before the boundaries are chosen *)
Fixpoint ffill_from (prev : Z) (l : list Z) : list Z :=
  match l with
  | [] => []
  | x :: r => if x <? 0 then prev :: ffill_from prev r else x :: ffill_from x r
  end.
Definition fill_missing (labels : list Z) : list Z :=
  match filter (fun x => 0 <=? x) labels with
  | [] => labels
  | v :: _ => ffill_from v labels
  end.
Definition optimal_chunks_missing (chunks labels : list Z) : list Z :=
  match filter (fun x => 0 <=? x) labels with
  | [] => chunks                                   (* every label missing: nothing to align *)
  | _ => optimal_chunks chunks (fill_missing labels)
  end.

(* ------------------------------------------------------------------ *)
(* rechunk_for_cohorts: the division loop *)

Fixpoint next_break_dist (d : Z) (force : list Z) (l : list Z) : option Z :=
  match l with
  | [] => None
  | y :: r => if zmem y force then Some d else next_break_dist (d + 1) force r
  end.

(* labels still to visit start at index idx; returns the divisions appended from here on *)
Fixpoint cohort_loop (force oldbreaks : list Z) (chunksize : Z) (ignore_old : bool)
         (idx : Z) (counter : Z) (rest : list Z) : list Z :=
  match rest with
  | [] => []
  | lab :: r =>
      if zmem lab force || (idx =? 0)
      then idx :: cohort_loop force oldbreaks chunksize ignore_old (idx + 1) 1 r
      else
        (* distance to the next forced label, counted from idx (idx itself is not one) *)
        let close := match next_break_dist 0 force rest with
                     | Some d => d <=? chunksize / 2
                     | None => false
                     end in
        if (negb ignore_old && zmem idx oldbreaks) || ((chunksize <=? counter) && negb close)
        then idx :: cohort_loop force oldbreaks chunksize ignore_old (idx + 1) 1 r
        else cohort_loop force oldbreaks chunksize ignore_old (idx + 1) (counter + 1) r
  end.

Definition cohort_divisions (force : list Z) (oldchunks : list Z) (chunksize : Z) (ignore_old : bool)
           (labels : list Z) : list Z :=
  let oldbreaks := 0 :: cumsum oldchunks in
  cohort_loop force oldbreaks chunksize ignore_old 0 1 labels ++ [zlength labels].

Definition cohort_chunks (force oldchunks : list Z) (chunksize : Z) (ignore_old : bool) (labels : list Z) : list Z :=
  diffs (cohort_divisions force oldchunks chunksize ignore_old labels).
