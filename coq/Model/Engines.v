(* Engines.v — structural models of the per-engine grouped kernels, as flox wraps them.
   engine="flox": _prepare_for_flox (stable argsort by code) + _np_grouped_op (segment starts,
   ufunc.reduceat per segment, scatter into an array pre-filled with fill_value)
   + the NaN-substitution wrappers (_nan_grouped_op).
   engine="numpy"/"numba": numpy_groupies aggregates wrapped by aggregate_npg (np.where substitution
   for nansum/nanprod).   Definitions only. *)
From Coq Require Import ZArith String List Bool.
From Flox Require Import Val Agg Spec Pipeline.
Import ListNotations.
Open Scope Z_scope.

(* stable insertion sort of (code, value) pairs by code: np.argsort(kind="stable") *)
Fixpoint pinsert (x : Z * xval) (l : list (Z * xval)) : list (Z * xval) :=
  match l with
  | [] => [x]
  | y :: r => if fst x <=? fst y then x :: l else y :: pinsert x r
  end.
Definition psort (l : list (Z * xval)) : list (Z * xval) := fold_right pinsert [] l.

(* runs of equal consecutive codes: (flag, inv_idx, uniques) of _np_grouped_op *)
Fixpoint segments (l : list (Z * xval)) : list (Z * list xval) :=
  match l with
  | [] => []
  | (k, v) :: r =>
      match segments r with
      | (k', vs) :: s => if k =? k' then (k, v :: vs) :: s else (k, [v]) :: (k', vs) :: s
      | [] => [(k, [v])]
      end
  end.

(* out = np.full(size, fill); out[uniques] = op.reduceat(array, inv_idx) ; read slot g *)
Definition scatter_get (fill : xval) (res : list (Z * xval)) (g : Z) : xval :=
  match find (fun kv => fst kv =? g) res with
  | Some kv => snd kv
  | None => fill
  end.

(* plain reduceat kernels: sum, prod, max, min (and nanlen = sum of notnull) *)
Definition flox_plain (o : opname) (fill : xval) (codes : list Z) (vals : list xval) (g : Z) : xval :=
  let segs := segments (psort (combine codes vals)) in
  scatter_get fill (map (fun kv => (fst kv, kern o (snd kv))) segs) g.

(* _nan_grouped_op: substitute NaN by [fillna], run the plain kernel, then reset groups without a
   single valid member to fill_value (after the repair of the sentinel comparison) *)
Definition subst_nan (r : xval) (x : xval) : xval := if is_nan x then r else x.

Definition flox_nan (plain : opname) (fillna : xval) (detect_allnan : bool) (fill : xval)
           (codes : list Z) (vals : list xval) (g : Z) : xval :=
  let res := flox_plain plain fill codes (map (subst_nan fillna) vals) g in
  if detect_allnan then
    let nvalid := flox_plain OSum (Fin 0) codes (map (fun x => of_bool (notnan x)) vals) g in
    if xval_eqb res fillna && xval_eqb nvalid (Fin 0) then fill else res
  else res.

(* the flox-engine kernel for each op name *)
Definition flox_kernel (o : opname) (fill : xval) (codes : list Z) (vals : list xval) (g : Z) : xval :=
  match o with
  | OSum | OProd | OMax | OMin => flox_plain o fill codes vals g
  | ONansum => flox_nan OSum (Fin 0) false fill codes vals g
  | ONanprod => flox_nan OProd (Fin 1) false fill codes vals g
  | ONanmax => flox_nan OMax NInf true fill codes vals g
  | ONanmin => flox_nan OMin PInf true fill codes vals g
  | ONanlen => flox_plain OSum fill codes (map (fun x => of_bool (notnan x)) vals) g
  | _ => NaN
  end.

(* aggregate_npg: nansum / nanprod substitute with np.where and call the plain aggregate;
   numpy_groupies: per group, members in original order; empty group -> fill *)
Definition npg_plain (o : opname) (fill : xval) (codes : list Z) (vals : list xval) (g : Z) : xval :=
  match vals_of g codes vals with
  | [] => fill
  | m => kern o m
  end.

Definition npg_kernel (o : opname) (fill : xval) (codes : list Z) (vals : list xval) (g : Z) : xval :=
  match o with
  | ONansum => npg_plain OSum fill codes (map (subst_nan (Fin 0)) vals) g
  | ONanprod => npg_plain OProd fill codes (map (subst_nan (Fin 1)) vals) g
  | ONanmax | ONanmin =>
      (* npg drops the NaNs first: an all-NaN group is an absent group *)
      match dropnan (vals_of g codes vals) with
      | [] => fill
      | m => kern o m
      end
  | _ => npg_plain o fill codes vals g
  end.
