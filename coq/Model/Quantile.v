(* Quantile.v — model of aggregate_flox.quantile_ (grouped linear-interpolation quantiles).
   The (label, value) lexicographic partition places, for labels in ascending order, each group's
   VALID values in ascending order, and all NaNs after every valid entry; group k therefore starts
   at the cumulative count of valid values of the groups before it.  q = qn/qd in [0,1].
   Values are integers (finite data; NaNs are counted separately).  Definitions only. *)
From Coq Require Import ZArith String List Bool QArith.
From Flox Require Import Val Agg Factorize.
Import ListNotations.
Open Scope Z_scope.

Definition zn {A} (l : list A) : Z := Z.of_nat (length l).
Definition nthz (l : list Z) (i : Z) : Z := nth (Z.to_nat i) l 0.

(* numpy method="linear" on one sorted, non-empty list *)
Definition lin_quantile (qn qd : Z) (sorted : list Z) : Q :=
  let n := zn sorted in
  let num := qn * (n - 1) in               (* virtual index = num / qd *)
  let lo := num / qd in
  let hi := if num mod qd =? 0 then lo else lo + 1 in
  let a := nthz sorted lo in let b := nthz sorted hi in
  (inject_Z a + (inject_Z (b - a)) * ((num - lo * qd) # Z.to_pos qd))%Q.

(* per-group specification: NumPy's quantile of the group's members
   (valid values vs, number of NaNs nn) *)
Definition np_quantile (skipna : bool) (qn qd : Z) (vs : list Z) (nn : Z) : xq :=
  if negb skipna && (0 <? nn) then QNaN
  else match vs with
       | [] => QNaN
       | _ => QFin (Qred (lin_quantile qn qd (zsort vs)))
       end.

(* ---- flox: one global array, indices offset by the cumulative valid counts ---- *)
Fixpoint offsets_from (acc : Z) (groups : list (list Z)) : list Z :=
  match groups with [] => [] | g :: r => acc :: offsets_from (acc + zn g) r end.

Definition global_sorted (groups : list (list Z)) : list Z := concat (map zsort groups).

Definition flox_quantile_k (skipna : bool) (qn qd : Z) (glob : list Z) (off : Z) (vs : list Z) (nn : Z) : xq :=
  let n := zn vs in
  if (negb skipna && (0 <? nn)) || (n =? 0) then QNaN
  else
    let num := qn * (n - 1) in
    let lo := num / qd in
    let hi := if num mod qd =? 0 then lo else lo + 1 in
    let a := nthz glob (lo + off) in let b := nthz glob (hi + off) in
    QFin (Qred (inject_Z a + (inject_Z (b - a)) * ((num - lo * qd) # Z.to_pos qd))%Q).

(* groups: valid values per label (ascending labels), nans: NaN count per label *)
Fixpoint map3 {A B C D} (f : A -> B -> C -> D) (a : list A) (b : list B) (c : list C) : list D :=
  match a, b, c with
  | x :: a', y :: b', z :: c' => f x y z :: map3 f a' b' c'
  | _, _, _ => []
  end.

Definition flox_quantile (skipna : bool) (qn qd : Z) (groups : list (list Z)) (nans : list Z) : list xq :=
  let glob := global_sorted groups in
  map3 (fun off vs nn => flox_quantile_k skipna qn qd glob off vs nn) (offsets_from 0 groups) groups nans.

Definition spec_quantile (skipna : bool) (qn qd : Z) (groups : list (list Z)) (nans : list Z) : list xq :=
  map (fun vn => np_quantile skipna qn qd (fst vn) (snd vn)) (combine groups nans).

(* a VECTOR of q: quantile_ broadcasts q over a new leading axis; row i of the result is the quantile for q_i, in the order given *)
Definition flox_quantile_vec (skipna : bool) (qs : list (Z * Z)) (groups : list (list Z)) (nans : list Z) : list (list xq) :=
  map (fun q => flox_quantile skipna (fst q) (snd q) groups nans) qs.
Definition spec_quantile_vec (skipna : bool) (qs : list (Z * Z)) (groups : list (list Z)) (nans : list Z) : list (list xq) :=
  map (fun q => spec_quantile skipna (fst q) (snd q) groups nans) qs.
