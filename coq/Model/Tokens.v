(* Tokens.v — what a graph key must cover.  Gen/TokensGen.v (regenerated from the AST on every run)
   lists the ingredients hashed into flox's token / layer names and the ingredients bound into the
   tasks; [tokens_ok] is the boolean obligation "every ingredient that reaches a task is covered by
   the name of the layer that holds the task". *)
From Coq Require Import String List Bool.
From Flox Require Import TokensGen.
Import ListNotations.

Definition mem (x : string) (l : list string) : bool := existsb (String.eqb x) l.
Definition subset_b (a b : list string) : bool := forallb (fun x => mem x b) a.

(* replace derived names by what they are computed from *)
Definition expand (derived : list (string * list string)) (xs : list string) : list string :=
  flat_map (fun x => match find (fun d => String.eqb (fst d) x) derived with
                     | Some d => snd d
                     | None => [x]
                     end) xs.

Definition name_ok (n : string * string * namekind) : bool :=
  match snd n with NHasToken | NDaskSuffix => true | NConstant | NNoToken => false end.

Definition tokens_ok : bool :=
  Nat.eqb tokenize_calls_in_dask_groupby_agg 1
  && subset_b (expand derived_params flowing_params) token_args
  && subset_b (expand agg_derived_attrs agg_read_attrs) agg_token_attrs
  && forallb name_ok layer_names
  && mem "reindexer" subset_token_args && mem "array" subset_token_args && mem "index" subset_token_args.

(* ---------------------------------------------------------------------- *)
(* abstract key scheme: a configuration is a finite map from ingredient names to values; a layer's
   key hashes the COVERED ingredients with an injective function; its tasks depend on the BOUND ones *)
Section Keys.
  Variables (V T : Type).
  Variable tok : list V -> T.
  Hypothesis tok_injective : forall a b, tok a = tok b -> a = b.

  Definition config : Type := string -> V.
  Definition proj (fields : list string) (c : config) : list V := map c fields.

  Lemma proj_covers covered bound (c1 c2 : config) :
    (forall f, In f bound -> In f covered) ->
    proj covered c1 = proj covered c2 -> proj bound c1 = proj bound c2.
  Proof.
    intros Hsub Heq. unfold proj in *. apply map_ext_in. intros f Hf.
    specialize (Hsub f Hf). clear Hf bound.
    induction covered as [|g gs IH]; [destruct Hsub|]. simpl in Heq. inversion Heq as [[Hg Hgs]].
    destruct Hsub as [->|Hin]; [exact Hg| now apply IH].
  Qed.

  (* equal keys => equal tasks, for ANY two configurations (any pair / triple of lazy results) *)
  Theorem key_injective covered bound (task : list V -> T) (c1 c2 : config) :
    (forall f, In f bound -> In f covered) ->
    tok (proj covered c1) = tok (proj covered c2) ->
    task (proj bound c1) = task (proj bound c2).
  Proof.
    intros Hsub Hk. f_equal. eapply proj_covers; [exact Hsub|]. now apply tok_injective.
  Qed.
End Keys.

(* ---------------------------------------------------------------------- *)
(* memoisation keyed on an injective token of the arguments (flox.cache.memoize, lru_cache):
   whatever calls were made before, a call returns f applied to ITS OWN arguments *)
Section Memo.
  Variables (A T V : Type).
  Variable tokA : A -> T.
  Variable teqb : T -> T -> bool.
  Hypothesis teqb_spec : forall a b, reflect (a = b) (teqb a b).
  Hypothesis tokA_injective : forall a b, tokA a = tokA b -> a = b.
  Variable f : A -> V.

  Definition mcache : Type := list (T * V).
  Fixpoint mlookup (c : mcache) (t : T) : option V :=
    match c with [] => None | (k, v) :: r => if teqb k t then Some v else mlookup r t end.

  Definition mcall (c : mcache) (a : A) : mcache * V :=
    match mlookup c (tokA a) with
    | Some v => (c, v)
    | None => ((tokA a, f a) :: c, f a)
    end.

  Definition MInv (c : mcache) : Prop := forall a v, mlookup c (tokA a) = Some v -> v = f a.

  Lemma mcall_spec c a : MInv c -> snd (mcall c a) = f a /\ MInv (fst (mcall c a)).
  Proof.
    intros HI. unfold mcall. destruct (mlookup c (tokA a)) as [v|] eqn:E; simpl.
    - split; [now apply HI| exact HI].
    - split; [reflexivity|]. intros a' v'. simpl. destruct (teqb_spec (tokA a) (tokA a')) as [Ht|Ht].
      + intros [= <-]. now rewrite (tokA_injective _ _ Ht).
      + apply HI.
  Qed.

  Fixpoint mrun (c : mcache) (calls : list A) : mcache * list V :=
    match calls with
    | [] => (c, [])
    | a :: r => let '(c', v) := mcall c a in let '(c'', vs) := mrun c' r in (c'', v :: vs)
    end.

  (* history independence: every result of every call sequence equals f of that call's arguments *)
  Theorem memo_history_independent : forall calls c, MInv c -> snd (mrun c calls) = map f calls.
  Proof.
    induction calls as [|a r IH]; intros c HI; [reflexivity|]. simpl.
    destruct (mcall c a) as [c' v] eqn:E. destruct (mcall_spec c a HI) as [Hv HI']. rewrite E in Hv, HI'. simpl in Hv, HI'.
    specialize (IH c' HI'). destruct (mrun c' r) as [c'' vs]. simpl in *. now rewrite Hv, IH.
  Qed.

  Lemma MInv_empty : MInv [].
  Proof. intros a v H. discriminate. Qed.
End Memo.
