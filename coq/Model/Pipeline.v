(* Pipeline.v — executable model of flox's reduction pipeline on a 1-D reduced axis:
   block stage (chunk_reduce), combine along an arbitrary reduction tree
   (_simple_combine / _grouped_combine), finalize (_finalize_results).
   Integer codes: 0..ngroups-1, negative = missing / unrequested.  Definitions only. *)
From Coq Require Import ZArith String List Bool QArith.
From Flox Require Import ListX Val Agg Spec.
Import ListNotations.
Open Scope Z_scope.

(* a block: its codes and values, and the global position of its first element *)
Record block : Type := mkBlock { b_off : Z; b_codes : list Z; b_vals : list xval }.

Definition blk_members (g : Z) (b : block) : list (Z * xval) :=
  map (fun t => (fst t, snd (snd t)))
      (filter (fun t => fst (snd t) =? g) (zip_pos (combine (b_codes b) (b_vals b)) (b_off b))).

(* values of the members of group g, in order (positions dropped) *)
Definition vals_of (g : Z) (codes : list Z) (vals : list xval) : list xval :=
  map snd (filter (fun p => fst p =? g) (combine codes vals)).

Definition blk_vals (g : Z) (b : block) : list xval := vals_of g (b_codes b) (b_vals b).

(* cut (codes, vals) into consecutive blocks of the given sizes *)
Fixpoint cut_blocks (sizes : list nat) (off : Z) (codes : list Z) (vals : list xval) : list block :=
  match sizes with
  | [] => []
  | n :: r =>
      mkBlock off (firstn n codes) (firstn n vals)
      :: cut_blocks r (off + Z.of_nat n) (skipn n codes) (skipn n vals)
  end.

(* effective chunk / combine / fill tuples after _initialize_aggregation appended the
   min_count counter *)
Definition eff_chunk (a : AggDesc) (mc : Z) : list opname :=
  match a_chunk a with
  | Some chs => if 0 <? mc then chs ++ [ONanlen] else chs
  | None => []
  end.
Definition eff_combine (a : AggDesc) (mc : Z) : list opname :=
  match a_combine a with
  | Some cbs => if 0 <? mc then cbs ++ [OSum] else cbs
  | None => []
  end.

(* ---- simple combine (reduction types "reduce") ---- *)
Definition leaf_interm (chs : list opname) (g : Z) (b : block) : list xval :=
  map (fun ch => kern ch (blk_vals g b)) chs.

(* n-ary combine of the children's tuples, component by component *)
Fixpoint node_comb (cbs : list opname) (children : list (list xval)) : list xval :=
  match cbs with
  | [] => []
  | cb :: r => kern cb (map (hd NaN) children) :: node_comb r (map (@tl xval) children)
  end.

Definition tree_interm (chs cbs : list opname) (g : Z) (t : tree block) : list xval :=
  teval (leaf_interm chs g) (node_comb cbs) t.

(* ---- grouped combine: only blocks in which the group occurs take part ---- *)
Definition leaf_interm_g (chs : list opname) (g : Z) (b : block) : option (list xval) :=
  match blk_vals g b with
  | [] => None
  | _ => Some (leaf_interm chs g b)
  end.

Fixpoint somes {A} (l : list (option A)) : list A :=
  match l with
  | [] => []
  | Some x :: r => x :: somes r
  | None :: r => somes r
  end.

Definition node_comb_g (cbs : list opname) (children : list (option (list xval))) : option (list xval) :=
  match somes children with
  | [] => None
  | cs => Some (node_comb cbs cs)
  end.

Definition tree_interm_g (chs cbs : list opname) (g : Z) (t : tree block) : option (list xval) :=
  teval (leaf_interm_g chs g) (node_comb_g cbs) t.

(* ---- finalize: _finalize_results ---- *)
Definition get_count (l : list xval) : Z :=
  match last l NaN with Fin n => n | _ => 0 end.

Definition finalize_group (a : AggDesc) (kws : list (string * Z)) (mc : Z) (fill : option xq)
           (interms : list xval) : option finval :=
  if 0 <? mc then
    if get_count interms <? mc then option_map Plain fill
    else Some (eval_finalizer (a_finalize a) (removelast interms) kws)
  else Some (eval_finalizer (a_finalize a) interms kws).

(* chunked result for group g with the simple combine (all blocks reindexed to all groups) *)
Definition chunked_simple (a : AggDesc) (kws : list (string * Z)) (mc : Z) (fill : option xq)
           (t : tree block) (g : Z) : option finval :=
  finalize_group a kws mc fill (tree_interm (eff_chunk a mc) (eff_combine a mc) g t).

(* chunked result with the grouped combine: a group absent from every block gets the fill *)
Definition chunked_grouped (a : AggDesc) (kws : list (string * Z)) (mc : Z) (fill : option xq)
           (t : tree block) (g : Z) : option finval :=
  match tree_interm_g (eff_chunk a mc) (eff_combine a mc) g t with
  | None => option_map Plain fill
  | Some interms => finalize_group a kws mc fill interms
  end.

(* the "all members at once" reference for the same blueprint *)
Definition all_members_vals (g : Z) (bs : list block) : list xval := concat (map (blk_vals g) bs).
Definition direct_interm (chs : list opname) (g : Z) (bs : list block) : list xval :=
  map (fun ch => kern ch (all_members_vals g bs)) chs.

(* trees flox builds: consecutive groups of at most k children, level by level *)
Fixpoint chunks_of {A} (fuel : nat) (k : nat) (l : list A) : list (list A) :=
  match fuel with
  | O => [l]
  | S f => match l with
           | [] => []
           | _ => firstn k l :: chunks_of f k (skipn k l)
           end
  end.

Fixpoint build_tree {A} (fuel : nat) (k : nat) (ts : list (tree A)) : tree A :=
  match fuel with
  | O => Node ts
  | S f =>
      if Nat.leb (length ts) k then Node ts
      else build_tree f k (map Node (chunks_of (length ts) k ts))
  end.

Definition tree_of_blocks (k : nat) (bs : list block) : tree block :=
  build_tree (length bs) k (map Leaf bs).
