(* XrDims.v — model of flox/xarray.py:_restore_dim_order: the result's dims are sorted by the position
   of each dimension in the ORIGINAL object; the new group dimension (named after the grouper) takes
   the position of the dimension the (1-D) grouper lives on; dims unknown to the object go last.
   Dimension names are strings.  Definitions only. *)
From Coq Require Import ZArith String List Bool.
Import ListNotations.
Open Scope Z_scope.

Fixpoint index_of (d : string) (l : list string) (i : Z) : option Z :=
  match l with
  | [] => None
  | x :: r => if String.eqb x d then Some i else index_of d r (i + 1)
  end.

(* lookup_order: [gname] = by.name, [gdim] = the single dim of a 1-D grouper (None for n-D groupers);
   [no_reorder] (Dataset variables): the group dimension goes first whatever the grouper's rank *)
Definition pos_of (objdims : list string) (d : string) : Z :=
  match index_of d objdims 0 with Some i => i | None => 1000000 end.

Definition lookup_order (objdims : list string) (gname : string) (gdim : option string) (no_reorder : bool)
           (d : string) : Z :=
  if String.eqb d gname then
    if no_reorder then -1000000
    else match gdim with Some g => pos_of objdims g | None => pos_of objdims d end
  else pos_of objdims d.

(* Python's sorted(): stable insertion by key *)
Fixpoint insert_key (key : string -> Z) (x : string) (l : list string) : list string :=
  match l with
  | [] => [x]
  | y :: r => if key x <=? key y then x :: l else y :: insert_key key x r
  end.
Definition sort_key (key : string -> Z) (l : list string) : list string := fold_right (insert_key key) [] l.

Definition restore_dim_order (objdims : list string) (gname : string) (gdim : option string) (no_reorder : bool)
           (resultdims : list string) : list string :=
  sort_key (lookup_order objdims gname gdim no_reorder) resultdims.

(* ------------------------------------------------------------------ *)
(* _broadcast_size_one_dims: align a grouper (dims [bdims], any subset of the array's core dims [core], in any
   order) with the array: transpose it into core order, then insert size-1 axes where a core dim is absent.
   Arrays are abstracted by the list of their axis names ([None] = an inserted size-1 axis). *)
Definition smem (d : string) (l : list string) : bool := existsb (String.eqb d) l.

Fixpoint nat_index_of (d : string) (l : list string) (i : nat) : nat :=
  match l with
  | [] => i
  | x :: r => if String.eqb x d then i else nat_index_of d r (S i)
  end.

(* order = [dims.index(d) for d in core if d in dims] ; array.transpose with that order *)
Definition transpose_order (core bdims : list string) : list nat :=
  map (fun d => nat_index_of d bdims 0) (filter (fun d => smem d bdims) core).
Definition transposed (core bdims : list string) : list string :=
  map (fun i => nth i bdims ""%string) (transpose_order core bdims).

(* axis = [core.index(d) for d in core if d not in dims] ; np.expand_dims(array, axis): the new axes sit at the
   listed positions of the RESULT *)
Fixpoint expand_at (pos : nat) (axes : list nat) (cur : list (option string)) (n : nat) : list (option string) :=
  match n with
  | O => []
  | S k =>
      if existsb (Nat.eqb pos) axes then None :: expand_at (S pos) axes cur k
      else match cur with
           | [] => []
           | c :: r => c :: expand_at (S pos) axes r k
           end
  end.
Fixpoint positions_where (f : string -> bool) (l : list string) (i : nat) : list nat :=
  match l with
  | [] => []
  | x :: r => if f x then i :: positions_where f r (S i) else positions_where f r (S i)
  end.
Definition broadcast_axes (core bdims : list string) : list nat :=
  positions_where (fun d => negb (smem d bdims)) core 0.
Definition broadcast_result (core bdims : list string) : list (option string) :=
  expand_at 0 (broadcast_axes core bdims) (map Some (transposed core bdims)) (length core).
