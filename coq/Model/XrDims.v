(* XrDims.v — model of flox/xarray.py:_restore_dim_order: the result's dims are sorted by the position
   of each dimension in the ORIGINAL object; the new group dimension (named after the grouper) takes
   the position of the dimension the (1-D) grouper lives on; dims unknown to the object go last.
   Dimension names are strings.  Definitions only. *)
From Coq Require Import ZArith String List Bool.
Import ListNotations.
Open Scope Z_scope.

Fixpoint index_of (d : string) (l : list string) (i : Z) : option Z :=
  match l with
  | [] => None
  | x :: r => if String.eqb x d then Some i else index_of d r (i + 1)
  end.

(* lookup_order: [gname] = by.name, [gdim] = the single dim of a 1-D grouper (None for n-D groupers);
   [no_reorder] (Dataset variables): the group dimension goes first whatever the grouper's rank *)
Definition pos_of (objdims : list string) (d : string) : Z :=
  match index_of d objdims 0 with Some i => i | None => 1000000 end.

Definition lookup_order (objdims : list string) (gname : string) (gdim : option string) (no_reorder : bool)
           (d : string) : Z :=
  if String.eqb d gname then
    if no_reorder then -1000000
    else match gdim with Some g => pos_of objdims g | None => pos_of objdims d end
  else pos_of objdims d.

(* Python's sorted(): stable insertion by key *)
Fixpoint insert_key (key : string -> Z) (x : string) (l : list string) : list string :=
  match l with
  | [] => [x]
  | y :: r => if key x <=? key y then x :: l else y :: insert_key key x r
  end.
Definition sort_key (key : string -> Z) (l : list string) : list string := fold_right (insert_key key) [] l.

Definition restore_dim_order (objdims : list string) (gname : string) (gdim : option string) (no_reorder : bool)
           (resultdims : list string) : list string :=
  sort_key (lookup_order objdims gname gdim no_reorder) resultdims.
