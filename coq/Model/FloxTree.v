(* FloxTree.v — model of flox.dask_array_ops._tree_reduce for one cohort along one reduced axis: depth-1 levels of
   partial_reduce (consecutive groups of at most k nodes), then a final partial_reduce whose partitions are ALL written to the
   single output key of the cohort (block_index): the last partition written wins.  Definitions only. *)
From Coq Require Import List Arith Bool.
From Flox Require Import ListX.
Import ListNotations.

Fixpoint parts {A} (fuel k : nat) (l : list A) : list (list A) :=
  match l with
  | [] => []
  | _ => match fuel with
         | O => [l]
         | S f => firstn k l :: parts f k (skipn k l)
         end
  end.

Definition level {A} (k : nat) (nodes : list (tree A)) : list (tree A) := map Node (parts (length nodes) k nodes).

Fixpoint levels {A} (d k : nat) (nodes : list (tree A)) : list (tree A) :=
  match d with O => nodes | S d' => levels d' k (level k nodes) end.

Definition final {A} (k : nat) (nodes : list (tree A)) : tree A := last (level k nodes) (Node []).

Definition flox_tree {A} (depth k : nat) (bs : list A) : tree A := final k (levels (depth - 1) k (map Leaf bs)).
