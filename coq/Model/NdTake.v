(* NdTake.v — indexing an n-d array ONE AXIS AT A TIME with a list of positions (numpy: a[(slice(None),)*ax + (sel,)]),
   as flox.core.subset_to_blocks does with the block-key array of a dask array.  Definitions only. *)
From Coq Require Import List Arith Bool.
From Flox Require Import NdShape.
Import ListNotations.

Definition replace_nth {A} (n : nat) (x : A) (l : list A) : list A := firstn n l ++ x :: skipn (S n) l.

Section Take.
  Variable A : Type.
  Variable d : A.

  Definition take_axis (ax : nat) (sel : list nat) (a : nd A) : nd A :=
    let s' := replace_nth ax (length sel) (shape a) in
    mkNd s' (map (fun k => let idx' := unravel s' k in
                           get A d a (replace_nth ax (nth (nth ax idx' 0) sel 0) idx')) (seq 0 (nprod s'))).

  Fixpoint take_all (ax : nat) (sels : list (list nat)) (a : nd A) : nd A :=
    match sels with
    | [] => a
    | sel :: r => take_all (S ax) r (take_axis ax sel a)
    end.

  Fixpoint pick (sels : list (list nat)) (pos : list nat) : list nat :=
    match sels, pos with
    | sel :: r, p :: pr => nth p sel 0 :: pick r pr
    | _, _ => []
    end.

End Take.

(* the block-key array of a dask array: the element at index idx IS idx (here: its flat number) *)
Definition key_array (blk : list nat) : nd nat := mkNd blk (seq 0 (nprod blk)).

(* the layer built by subset_to_blocks for the blocks sels (one list per axis): flat source block of every output position, C order *)
Definition subset_sources (blk : list nat) (sels : list (list nat)) : nd nat := take_all nat 0 0 sels (key_array blk).
