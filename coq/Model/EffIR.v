(* EffIR.v — alias / effect abstraction of the functions that run inside flox's tasks, and the checker
   of the certificate computed by tools/translate/gen_effects.py (T4).
   A function is a SET of statements (flow-insensitive: any order, any number of times).
   Objects: [LParam i] = parameter i and everything it owns; [LFresh x] = allocated by this function.
   [pts x] = objects variable x may BE; [cont o] = objects referenced from inside o. *)
From Coq Require Import String List Bool Arith.
Import ListNotations.

Inductive loc : Type := LParam (i : nat) | LFresh (site : string).

Definition loc_eqb (a b : loc) : bool :=
  match a, b with
  | LParam i, LParam j => Nat.eqb i j
  | LFresh s, LFresh t => String.eqb s t
  | _, _ => false
  end.

Lemma loc_eqb_eq a b : loc_eqb a b = true <-> a = b.
Proof.
  destruct a, b; simpl; try (split; [discriminate|congruence]).
  - rewrite Nat.eqb_eq. split; congruence.
  - rewrite String.eqb_eq. split; congruence.
Qed.

Inductive stmt : Type :=
  | SParam (x : string) (i : nat)
  | SFresh (x : string)
  | SCopy (x : string)                         (* a load known to copy (reviewed COPY_POINTS of the translator) *)
  | SAlias (x : string) (ys : list string)     (* x = y : the same object *)
  | SLoad (x : string) (ys : list string)      (* x = y[..] / y.attr / view(y) / unknown(y): y itself or something inside it *)
  | SPut (c : string) (v : string)             (* a reference to v is stored inside c *)
  | SStore (x : string)                        (* in-place write into the object(s) x may be *)
  | SStoreAttr (x : string) (a : string)
  | SAllowed (x : string) (why : string)       (* a store that the translator's reviewed allow-list exempts *)
  | SCall (x : string) (f : string) (args : list (nat * string))
  | SUnknown (name : string).

Record fndef : Type := mkFn {
  f_name : string;
  f_nparams : nat;
  f_body : list stmt;
  f_pts : list (string * list loc);
  f_cont : list (loc * list loc);
  f_stores : list nat;      (* parameters this function may write into *)
  f_ret : list nat;         (* parameters the result may BE *)
  f_retc : list nat         (* parameters the result may contain references to *)
}.

Definition mem_loc (o : loc) (l : list loc) : bool := existsb (loc_eqb o) l.
Definition sub_loc (a b : list loc) : bool := forallb (fun o => mem_loc o b) a.
Definition mem_nat (n : nat) (l : list nat) : bool := existsb (Nat.eqb n) l.

Definition pts_of (f : fndef) (x : string) : list loc :=
  match find (fun p => String.eqb (fst p) x) (f_pts f) with Some p => snd p | None => [] end.
Definition cont_of (f : fndef) (o : loc) : list loc :=
  match find (fun p => loc_eqb (fst p) o) (f_cont f) with Some p => snd p | None => [] end.
(* everything reachable in one step from x: x's objects and what they reference *)
Definition reach_of (f : fndef) (x : string) : list loc :=
  pts_of f x ++ flat_map (cont_of f) (pts_of f x).

Definition summary : Type := string -> option (list nat * list nat * list nat).   (* stores, ret, retc *)

(* one statement is satisfied by the certificate *)
Definition stmt_closed (S : summary) (f : fndef) (s : stmt) : bool :=
  match s with
  | SParam x i => mem_loc (LParam i) (pts_of f x) && mem_loc (LParam i) (cont_of f (LParam i))
  | SFresh x | SCopy x => mem_loc (LFresh x) (pts_of f x)
  | SAlias x ys => forallb (fun y => sub_loc (pts_of f y) (pts_of f x)) ys
  | SLoad x ys => forallb (fun y => sub_loc (reach_of f y) (pts_of f x)) ys
  | SPut c v => forallb (fun o => sub_loc (reach_of f v) (cont_of f o)) (pts_of f c)
  | SCall x g args =>
      mem_loc (LFresh x) (pts_of f x)
      && forallb (fun ia =>
                    match S g with
                    | Some (_, ret, retc) =>
                        (negb (mem_nat (fst ia) ret) || sub_loc (pts_of f (snd ia)) (pts_of f x))
                        && (negb (mem_nat (fst ia) retc) || sub_loc (reach_of f (snd ia)) (cont_of f (LFresh x)))
                    | None => sub_loc (reach_of f (snd ia)) (pts_of f x)
                    end) args
  | SStore _ | SStoreAttr _ _ | SAllowed _ _ | SUnknown _ => true
  end.

Definition params_in (l : list loc) : list nat :=
  flat_map (fun o => match o with LParam i => [i] | LFresh _ => [] end) l.

(* parameters written by one statement, according to the certificate *)
Definition stmt_stores (S : summary) (f : fndef) (s : stmt) : list nat :=
  match s with
  | SStore x | SStoreAttr x _ => params_in (pts_of f x)
  | SCall _ g args =>
      match S g with
      | Some (st, _, _) => flat_map (fun ia => if mem_nat (fst ia) st then params_in (pts_of f (snd ia)) else []) args
      | None => []
      end
  | _ => []
  end.

Definition sub_nat (a b : list nat) : bool := forallb (fun n => mem_nat n b) a.

Definition check_fn (S : summary) (f : fndef) : bool :=
  forallb (stmt_closed S f) (f_body f)
  && sub_nat (flat_map (stmt_stores S f) (f_body f)) (f_stores f)
  && sub_nat (params_in (pts_of f "%ret")) (f_ret f)
  && sub_nat (params_in (flat_map (cont_of f) (pts_of f "%ret"))) (f_retc f).

Definition summary_of (fs : list fndef) : summary :=
  fun g => match find (fun f => String.eqb (f_name f) g) fs with
           | Some f => Some (f_stores f, f_ret f, f_retc f)
           | None => None
           end.

Definition check_all (fs : list fndef) : bool := forallb (check_fn (summary_of fs)) fs.

(* a task callable is pure when it may write into none of its parameters *)
Definition pure_fn (f : fndef) : bool := match f_stores f with [] => true | _ => false end.
