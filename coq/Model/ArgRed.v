(* ArgRed.v — model of flox's arg reductions (argmax/argmin/nanargmax/nanargmin):
   argreduce_preprocess zips every block with GLOBAL indices; chunk_argreduce yields, per group
   present in the block, (extreme value, global index of its first occurrence); _grouped_combine
   re-runs the arg reduction on the concatenation, in block order, of the partial pairs.
   Definitions only. *)
From Coq Require Import ZArith String List Bool.
From Flox Require Import ListX Val Agg Spec Pipeline.
Import ListNotations.
Open Scope Z_scope.

Definition better (d : argdir) (v b : xval) : bool :=
  match d with ArgMax => xlt b v | ArgMin => xlt v b end.

(* leftmost extreme wins *)
Definition pick (d : argdir) (a b : Z * xval) : Z * xval :=
  if better d (snd b) (snd a) then b else a.

Definition sfold (d : argdir) (l : list (Z * xval)) : option (Z * xval) :=
  match l with [] => None | x :: r => Some (fold_left (pick d) r x) end.

Definition sentinel (d : argdir) : xval := match d with ArgMax => NInf | ArgMin => PInf end.

Definition notnan_pv (pv : Z * xval) : bool := notnan (snd pv).

(* partial result of one block for one group; [None] when the group has no member there.
   NaN-skipping variants: a block holding only NaNs of the group yields the sentinel paired
   with the position of the block's first element (npg's nanarg* returns its fill 0) *)
Definition arg_block (d : argdir) (skipna : bool) (first_pos : Z) (m : list (Z * xval)) : option (Z * xval) :=
  match m with
  | [] => None
  | _ =>
      if skipna then
        match filter notnan_pv m with
        | [] => Some (first_pos, sentinel d)
        | m' => sfold d m'
        end
      else sfold d m
  end.

Definition arg_node (d : argdir) (children : list (option (Z * xval))) : option (Z * xval) :=
  sfold d (somes children).

Definition arg_tree (d : argdir) (skipna : bool) (g : Z) (t : tree block) : option (Z * xval) :=
  teval (fun b => arg_block d skipna (b_off b) (blk_members g b)) (arg_node d) t.

(* all members of g over the blocks, with global positions *)
Definition all_members (g : Z) (bs : list block) : list (Z * xval) := concat (map (blk_members g) bs).

(* the reference: first occurrence of the extreme over the whole axis *)
Definition arg_direct (d : argdir) (skipna : bool) (m : list (Z * xval)) : option (Z * xval) :=
  sfold d (if skipna then filter notnan_pv m else m).

Definition arg_of_name (o : opname) : option (argdir * bool) :=
  match o with
  | OArgmax => Some (ArgMax, false) | ONanargmax => Some (ArgMax, true)
  | OArgmin => Some (ArgMin, false) | ONanargmin => Some (ArgMin, true)
  | _ => None
  end.
