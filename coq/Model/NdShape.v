(* NdShape.v — n-dimensional arrays as (shape, C-ordered data) and the plumbing flox applies before a partial-axis reduction:
   _move_reduce_dims_to_end (a transpose that keeps the other axes in order and appends the reduced ones as given) followed by
   _collapse_axis (a C-order reshape merging the last naxis axes).  Definitions only; all computable. *)
From Coq Require Import List Arith Bool.
Import ListNotations.

Fixpoint nprod (s : list nat) : nat := match s with [] => 1 | n :: r => n * nprod r end.

(* numpy.ravel_multi_index / unravel_index, C order *)
Fixpoint ravel (s idx : list nat) : nat :=
  match s, idx with
  | _ :: r, i :: ir => i * nprod r + ravel r ir
  | _, _ => 0
  end.

Fixpoint unravel (s : list nat) (k : nat) : list nat :=
  match s with
  | [] => []
  | _ :: r => (k / nprod r) :: unravel r (k mod nprod r)
  end.

Fixpoint in_range (s idx : list nat) : Prop :=
  match s, idx with
  | [], [] => True
  | n :: r, i :: ir => i < n /\ in_range r ir
  | _, _ => False
  end.

Fixpoint index_of (x : nat) (l : list nat) : nat :=
  match l with
  | [] => 0
  | y :: r => if Nat.eqb x y then 0 else S (index_of x r)
  end.

Definition memn (x : nat) (l : list nat) : bool := existsb (Nat.eqb x) l.

Section Arrays.
  Variable A : Type.
  Variable d : A.

  Record nd : Type := mkNd { shape : list nat; data : list A }.

  Definition get (a : nd) (idx : list nat) : A := nth (ravel (shape a) idx) (data a) d.

  (* ndarray.transpose(order): new axis j is old axis order[j] *)
  Definition perm_shape (order s : list nat) : list nat := map (fun ax => nth ax s 0) order.
  (* the old multi-index of the element that lands at new multi-index idx': old[order[j]] = idx'[j] *)
  Definition unperm (order idx' : list nat) : list nat :=
    map (fun ax => nth (index_of ax order) idx' 0) (seq 0 (length order)).

  Definition transpose (order : list nat) (a : nd) : nd :=
    let s' := perm_shape order (shape a) in
    mkNd s' (map (fun k => get a (unperm order (unravel s' k))) (seq 0 (nprod s'))).

  (* _move_reduce_dims_to_end: order = (axes not reduced, ascending) ++ (reduced axes as given) *)
  Definition kept_axes (ndim : nat) (axis : list nat) : list nat := filter (fun ax => negb (memn ax axis)) (seq 0 ndim).
  Definition move_order (ndim : nat) (axis : list nat) : list nat := kept_axes ndim axis ++ axis.
  Definition move_reduce_dims_to_end (axis : list nat) (a : nd) : nd := transpose (move_order (length (shape a)) axis) a.

  (* _collapse_axis: reshape (C order) so that the last naxis axes become one *)
  Definition collapse_axis (naxis : nat) (a : nd) : nd :=
    let n := length (shape a) in
    mkNd (firstn (n - naxis) (shape a) ++ [nprod (skipn (n - naxis) (shape a))]) (data a).

  Definition plumb (axis : list nat) (a : nd) : nd := collapse_axis (length axis) (move_reduce_dims_to_end axis a).
End Arrays.

Arguments mkNd {A} _ _.
Arguments shape {A} _.
Arguments data {A} _.
