(* Dtype.v — the NumPy conventions the result dtype must follow (property C11), written by hand from
   the property's wording; Gen/Tables.v holds what the code actually does on the whole finite grid. *)
From Coq Require Import ZArith String List Bool.
From Flox Require Import Tables.
Import ListNotations.

Inductive fclass : Type := SumLike | MeanLike | Preserve | CountLike | BoolLike.

Definition class_of (f : fname) : fclass :=
  match f with
  | F_sum | F_nansum | F_prod | F_nanprod => SumLike
  | F_mean | F_nanmean | F_var | F_nanvar | F_std | F_nanstd | F_median | F_nanmedian => MeanLike
  | F_max | F_nanmax | F_min | F_nanmin | F_first | F_last | F_nanfirst | F_nanlast => Preserve
  | F_count | F_argmax | F_argmin | F_nanargmax | F_nanargmin => CountLike
  | F_any | F_all => BoolLike
  end.

(* default-integer promotion for sums/products; floating for mean/var/std; input dtype for
   min/max/first/last; platform integer for counts and arg-reductions; bool for any/all *)
Definition base_dtype (f : fname) (d : dt) : dt :=
  match class_of f with
  | SumLike =>
      match d with
      | DBool | DI8 | DI16 | DI32 | DI64 => DI64
      | DU8 | DU16 | DU32 | DU64 => DU64
      | x => x
      end
  | MeanLike =>
      match d with
      | DF32 => DF32 | DF64 => DF64 | DDatetime => DDatetime | DTimedelta => DTimedelta
      | _ => DF64
      end
  | Preserve => d
  | CountLike => DI64
  | BoolLike => DBool
  end.

(* widened to hold a requested fill_value *)
Definition widen (d : dt) (fill : fillkind) : dt :=
  match fill with
  | FillNone => d
  | FillInt => match d with DBool => DI64 | x => x end
  | FillNaN => match d with DF32 => DF32 | DF64 => DF64 | _ => DF64 end
  end.

Definition expected_dtype (f : fname) (d : dt) (kw : option dt) (fill : fillkind) : dt :=
  widen (match kw with Some k => k | None => base_dtype f d end) fill.

(* cells the conventions do not settle: a boolean array reduced by min/max/first/last keeps dtype
   bool ("input dtype") even when a non-boolean fill_value was requested ("widened to hold ...");
   recorded as known finding KF04 *)
Definition unspecified (f : fname) (d : dt) (fill : fillkind) : bool :=
  match class_of f, d, fill with
  | Preserve, DBool, FillInt | Preserve, DBool, FillNaN => true
  | _, _, _ => false
  end.

Definition dt_eqb (a b : dt) : bool :=
  match a, b with
  | DBool, DBool | DI8, DI8 | DI16, DI16 | DI32, DI32 | DI64, DI64
  | DU8, DU8 | DU16, DU16 | DU32, DU32 | DU64, DU64 | DF32, DF32 | DF64, DF64
  | DDatetime, DDatetime | DTimedelta, DTimedelta => true
  | _, _ => false
  end.

Definition refusal (e : exc) : bool := match e with EInternal _ => false | _ => true end.

Definition dtype_row_ok (r : fname * dt * option dt * fillkind * outcome) : bool :=
  let '(f, d, kw, fill, out) := r in
  if unspecified f d fill then true
  else match out with
       | ODtype got => dt_eqb got (expected_dtype f d kw fill)
       | OExc e => refusal e && (match kw with Some _ => true | None => false end)
       end.
