(* Scan.v — model of grouped scans (groupby_scan: nancumsum, ffill; bfill = mirrored ffill).
   Position i receives the reducer applied to the members of its own group at positions <= i
   (nancumsum: NaN counts as 0; ffill: the last non-NaN so far).  The chunked version carries, per
   group, the reducer over all EARLIER blocks (the state Blelloch's prefix tree computes with
   scan_binary_op) and combines it with the in-block scan.  Definitions only. *)
From Coq Require Import ZArith String List Bool.
From Flox Require Import ListX Val Agg Spec Pipeline.
Import ListNotations.
Open Scope Z_scope.

Inductive scanfn : Type := Nancumsum | Ffill.
Definition scan_red (f : scanfn) : red :=
  match f with
  | Nancumsum => mkRed MAdd PreId true
  | Ffill => mkRed MNanlast PreId false
  end.

(* sequential specification; (pc, pv) = everything before the current position *)
Fixpoint scan_from (r : red) (pc : list Z) (pv : list xval) (codes : list Z) (vals : list xval) : list xval :=
  match codes, vals with
  | c :: cs, v :: vs =>
      run_red r (vals_of c (pc ++ [c]) (pv ++ [v])) :: scan_from r (pc ++ [c]) (pv ++ [v]) cs vs
  | _, _ => []
  end.
Definition scan_seq (f : scanfn) (codes : list Z) (vals : list xval) : list xval :=
  scan_from (scan_red f) [] [] codes vals.

(* in-block scan combined with the per-group state [pre] of all earlier blocks *)
Fixpoint block_from (r : red) (pre : Z -> xval) (lc : list Z) (lv : list xval)
         (codes : list Z) (vals : list xval) : list xval :=
  match codes, vals with
  | c :: cs, v :: vs =>
      m_op (r_m r) (pre c) (run_red r (vals_of c (lc ++ [c]) (lv ++ [v])))
      :: block_from r pre (lc ++ [c]) (lv ++ [v]) cs vs
  | _, _ => []
  end.

Fixpoint scan_blocks (r : red) (pc : list Z) (pv : list xval) (blocks : list (list Z * list xval)) : list xval :=
  match blocks with
  | [] => []
  | (cs, vs) :: rest =>
      block_from r (fun g => run_red r (vals_of g pc pv)) [] [] cs vs
      ++ scan_blocks r (pc ++ cs) (pv ++ vs) rest
  end.

Fixpoint cut_pairs (sizes : list nat) (codes : list Z) (vals : list xval) : list (list Z * list xval) :=
  match sizes with
  | [] => []
  | n :: r => (firstn n codes, firstn n vals) :: cut_pairs r (skipn n codes) (skipn n vals)
  end.

Definition scan_chunked (f : scanfn) (sizes : list nat) (codes : list Z) (vals : list xval) : list xval :=
  scan_blocks (scan_red f) [] [] (cut_pairs sizes codes vals).

(* bfill: reverse, ffill, reverse (Scan blueprint: preprocess=reverse, finalize=reverse) *)
Definition bfill_seq (codes : list Z) (vals : list xval) : list xval :=
  rev (scan_seq Ffill (rev codes) (rev vals)).
