(* Agg.v — the aggregation blueprints of flox/aggregations.py as data, and their
   interpretation.  Gen/Registry.v (regenerated from the live AGGREGATIONS dict on
   every run by tools/translate/gen_registry.py) is a list of [AggDesc].
   Definitions only. *)
From Coq Require Import ZArith String List Bool QArith.
From Flox Require Import Val.
Import ListNotations.
Open Scope Z_scope.

(* names that may appear in Aggregation.numpy / .chunk / .combine *)
Inductive opname : Type :=
  | OSum | ONansum | OProd | ONanprod | OMax | ONanmax | OMin | ONanmin
  | ONanlen | OLen | OSumSq | ONansumSq | OAll | OAny
  | OFirst | OLast | ONanfirst | ONanlast
  | OArgmax | OArgmin | ONanargmax | ONanargmin
  | OMean | ONanmean | OVar | ONanvar | OStd | ONanstd
  | OMedian | ONanmedian | OQuantile | ONanquantile | OMode | ONanmode
  | OCount
  | OOther (s : string).

Definition opname_eqb (a b : opname) : bool :=
  match a, b with
  | OSum, OSum | ONansum, ONansum | OProd, OProd | ONanprod, ONanprod
  | OMax, OMax | ONanmax, ONanmax | OMin, OMin | ONanmin, ONanmin
  | ONanlen, ONanlen | OLen, OLen | OSumSq, OSumSq | ONansumSq, ONansumSq
  | OAll, OAll | OAny, OAny | OFirst, OFirst | OLast, OLast
  | ONanfirst, ONanfirst | ONanlast, ONanlast
  | OArgmax, OArgmax | OArgmin, OArgmin | ONanargmax, ONanargmax | ONanargmin, ONanargmin
  | OMean, OMean | ONanmean, ONanmean | OVar, OVar | ONanvar, ONanvar
  | OStd, OStd | ONanstd, ONanstd | OMedian, OMedian | ONanmedian, ONanmedian
  | OQuantile, OQuantile | ONanquantile, ONanquantile | OMode, OMode | ONanmode, ONanmode
  | OCount, OCount => true
  | OOther s, OOther t => String.eqb s t
  | _, _ => false
  end.

(* fill values as written in the blueprints *)
Inductive fillv : Type :=
  | FvNum (z : Z) | FvNaN | FvInf | FvNinf | FvNA | FvTrue | FvFalse | FvNone
  | FvOther (s : string).

(* dtype declarations as written in the blueprints *)
Inductive dtspec : Type :=
  | DtNone | DtIntp | DtFloating | DtFloat64 | DtBool | DtOther (s : string).

(* finalizers, translated from their Python AST *)
Inductive fexpr : Type :=
  | FArg (i : nat)                       (* i-th positional intermediate *)
  | FKw (name : string) (default : Z)    (* finalize keyword, e.g. ddof=0 *)
  | FConst (z : Z)
  | FAdd (a b : fexpr) | FSub (a b : fexpr) | FMul (a b : fexpr) | FDiv (a b : fexpr)
  | FPow2 (a : fexpr).

Inductive fmask : Type :=
  | MaskNone
  | MaskLe (a b : fexpr).                (* result[a <= b] = nan *)

Inductive finalizer : Type :=
  | FinNone                              (* finalize=None: first intermediate *)
  | FinExpr (body : fexpr) (mask : fmask) (sqrt : bool)
  | FinPick (i : nat)                    (* return x[i] *)
  | FinOpaque (s : string).

Inductive rtype : Type := Reduce | ArgReduce | RtOther (s : string).

Record AggDesc : Type := mkAgg {
  a_name : string;
  a_numpy : list opname;
  a_chunk : option (list opname);        (* None <-> chunk=(None,) : blockwise only *)
  a_combine : option (list opname);
  a_fill : list fillv;                   (* intermediate fill values *)
  a_final_fill : fillv;
  a_finalize : finalizer;
  a_rtype : rtype;
  a_preserves_dtype : bool;
  a_final_dtype : dtspec;
  a_dtypes : list dtspec;
  a_preprocess : bool;                   (* has a preprocess step (arg reductions) *)
  a_newdims : bool                       (* adds new leading dims (quantile) *)
}.

(* scans *)
Inductive scanmode : Type := ApplyBinop | ConcatThenScan | SmOther (s : string).
Record ScanDesc : Type := mkScan {
  s_name : string;
  s_binop : option string;               (* e.g. "add" *)
  s_scan : string;
  s_reduction : opname;
  s_identity : fillv;
  s_mode : scanmode;
  s_preserves_dtype : bool;
  s_preprocess : option string;
  s_finalize : option string
}.

(* ---------------------------------------------------------------------- *)
(* Reducers as monoid folds                                                *)

Inductive monoid : Type := MAdd | MMul | MMax | MMin | MAnd | MOr | MNanfirst | MNanlast.
Inductive premap : Type := PreId | PreSq | PreOne | PreBool.

Definition monoid_eqb (a b : monoid) : bool :=
  match a, b with
  | MAdd, MAdd | MMul, MMul | MMax, MMax | MMin, MMin | MAnd, MAnd | MOr, MOr
  | MNanfirst, MNanfirst | MNanlast, MNanlast => true
  | _, _ => false
  end.

Definition m_op (m : monoid) : xval -> xval -> xval :=
  match m with
  | MAdd => xadd | MMul => xmul | MMax => xmax | MMin => xmin
  | MAnd => xand | MOr => xor_ | MNanfirst => xnanfirst | MNanlast => xnanlast
  end.

Definition m_unit (m : monoid) : xval :=
  match m with
  | MAdd => Fin 0 | MMul => Fin 1 | MMax => NInf | MMin => PInf
  | MAnd => Fin 1 | MOr => Fin 0 | MNanfirst => NaN | MNanlast => NaN
  end.

Definition pre_fn (p : premap) : xval -> xval :=
  match p with
  | PreId => fun x => x
  | PreSq => xsq
  | PreOne => fun _ => Fin 1
  | PreBool => fun x => of_bool (truthy x)
  end.

Record red : Type := mkRed { r_m : monoid; r_pre : premap; r_skip : bool }.

(* the fold every kernel amounts to, per group, on the members in order *)
Definition run_red (r : red) (l : list xval) : xval :=
  fold_right (fun x acc => m_op (r_m r) (pre_fn (r_pre r) x) acc) (m_unit (r_m r))
             (if r_skip r then dropnan l else l).

(* which reducer an op name denotes (None: not a plain reducer) *)
Definition red_of (o : opname) : option red :=
  match o with
  | OSum => Some (mkRed MAdd PreId false)
  | ONansum => Some (mkRed MAdd PreId true)
  | OProd => Some (mkRed MMul PreId false)
  | ONanprod => Some (mkRed MMul PreId true)
  | OMax => Some (mkRed MMax PreId false)
  | ONanmax => Some (mkRed MMax PreId true)
  | OMin => Some (mkRed MMin PreId false)
  | ONanmin => Some (mkRed MMin PreId true)
  | ONanlen => Some (mkRed MAdd PreOne true)
  | OLen => Some (mkRed MAdd PreOne false)
  | OSumSq => Some (mkRed MAdd PreSq false)
  | ONansumSq => Some (mkRed MAdd PreSq true)
  | OAll => Some (mkRed MAnd PreBool false)
  | OAny => Some (mkRed MOr PreBool false)
  | ONanfirst => Some (mkRed MNanfirst PreId false)
  | ONanlast => Some (mkRed MNanlast PreId false)
  | _ => None
  end.

Definition kern (o : opname) (l : list xval) : xval :=
  match red_of o with Some r => run_red r l | None => NaN end.

Definition fill_sem (f : fillv) : option xval :=
  match f with
  | FvNum z => Some (Fin z)
  | FvNaN => Some NaN
  | FvInf => Some PInf
  | FvNinf => Some NInf
  | FvNA => Some NaN
  | FvTrue => Some (Fin 1)
  | FvFalse => Some (Fin 0)
  | FvNone | FvOther _ => None
  end.

(* image of a chunk reducer is free of NaN (so a NaN-skipping combine is harmless) *)
Definition image_nanfree (r : red) : bool :=
  match r_m r, r_pre r with
  | MMax, PreId | MMin, PreId => r_skip r
  | MAdd, PreOne => true
  | MAnd, _ | MOr, _ => true
  | _, _ => false
  end.

(* Is (chunk op, combine op, fill) a lawful decomposition?  The combine must be the
   plain fold of the SAME monoid over the partial results and the fill its unit. *)
Definition lawful_triple (ch cb : opname) (f : fillv) : bool :=
  match red_of ch, red_of cb, fill_sem f with
  | Some rc, Some rb, Some fv =>
      monoid_eqb (r_m rc) (r_m rb)
      && (match r_pre rb with PreId => true | PreBool => (match r_m rc with MAnd | MOr => true | _ => false end) | _ => false end)
      && (negb (r_skip rb) || image_nanfree rc)
      && xval_eqb fv (m_unit (r_m rc))
  | _, _, _ => false
  end.

Fixpoint lawful_triples (chs cbs : list opname) (fs : list fillv) : bool :=
  match chs, cbs, fs with
  | [], [], [] => true
  | c :: chs', b :: cbs', f :: fs' => lawful_triple c b f && lawful_triples chs' cbs' fs'
  | _, _, _ => false
  end.

(* arg reductions: chunk=(v, a), combine=(v', a'), fill=(sentinel, 0) *)
Inductive argdir : Type := ArgMax | ArgMin.
Definition arg_pair (v a : opname) : option (argdir * bool) :=
  match v, a with
  | OMax, OArgmax => Some (ArgMax, false)
  | ONanmax, ONanargmax => Some (ArgMax, true)
  | OMin, OArgmin => Some (ArgMin, false)
  | ONanmin, ONanargmin => Some (ArgMin, true)
  | _, _ => None
  end.

Definition lawful_arg (a : AggDesc) : bool :=
  match a_chunk a, a_combine a, a_fill a with
  | Some [v; i], Some [v'; i'], [fv; FvNum 0] =>
      match arg_pair v i, arg_pair v' i' with
      | Some (d, _), Some (d', false) =>
          (match d, d', fv with
           | ArgMax, ArgMax, FvNinf => true
           | ArgMin, ArgMin, FvInf => true
           | _, _, _ => false
           end)
          && (match a_finalize a with FinPick 1 => true | _ => false end)
      | _, _ => false
      end
  | _, _, _ => false
  end.

Definition lawful_dec (a : AggDesc) : bool :=
  match a_rtype a with
  | Reduce =>
      match a_chunk a, a_combine a with
      | Some chs, Some cbs => lawful_triples chs cbs (a_fill a)
      | None, None => true            (* blockwise-only: nothing is decomposed *)
      | _, _ => false
      end
  | ArgReduce => lawful_arg a
  | RtOther _ => false
  end.

(* ---------------------------------------------------------------------- *)
(* exact rational arithmetic with IEEE specials, for finalizers            *)

Definition qsign (q : Q) : comparison := (Qnum q ?= 0)%Z.

Definition qneg (a : xq) : xq :=
  match a with QFin q => QFin (Qopp q) | QNaN => QNaN | QPInf => QNInf | QNInf => QPInf end.

Definition qadd (a b : xq) : xq :=
  match a, b with
  | QNaN, _ | _, QNaN => QNaN
  | QPInf, QNInf | QNInf, QPInf => QNaN
  | QPInf, _ | _, QPInf => QPInf
  | QNInf, _ | _, QNInf => QNInf
  | QFin x, QFin y => QFin (Qred (x + y))
  end.

Definition qsub (a b : xq) : xq := qadd a (qneg b).

Definition qinf_signed (c : comparison) : xq :=
  match c with Gt => QPInf | Lt => QNInf | Eq => QNaN end.

Definition cmp_mul (a b : comparison) : comparison :=
  match a, b with
  | Eq, _ | _, Eq => Eq
  | Gt, Gt | Lt, Lt => Gt
  | _, _ => Lt
  end.

Definition qsgn (a : xq) : comparison :=
  match a with QFin q => qsign q | QPInf => Gt | QNInf => Lt | QNaN => Eq end.

Definition qmul (a b : xq) : xq :=
  match a, b with
  | QNaN, _ | _, QNaN => QNaN
  | QFin x, QFin y => QFin (Qred (x * y))
  | _, _ => qinf_signed (cmp_mul (qsgn a) (qsgn b))
  end.

Definition qdiv (a b : xq) : xq :=
  match a, b with
  | QNaN, _ | _, QNaN => QNaN
  | QFin x, QFin y =>
      match qsign y with
      | Eq => qinf_signed (qsign x)         (* x/0 : nan, +inf, -inf (positive zero) *)
      | _ => QFin (Qred (x / y))
      end
  | QFin _, _ => QFin 0                     (* finite / inf *)
  | _, QFin y =>
      match qsign y with
      | Eq => a                              (* inf / +0 *)
      | s => qinf_signed (cmp_mul (qsgn a) s)
      end
  | _, _ => QNaN                            (* inf / inf *)
  end.

Definition qle (a b : xq) : bool :=        (* IEEE <= : false on NaN *)
  match a, b with
  | QNaN, _ | _, QNaN => false
  | QNInf, _ => true
  | _, QPInf => true
  | QPInf, _ => false
  | _, QNInf => false
  | QFin x, QFin y => Qle_bool x y
  end.

Fixpoint lookup_kw (kws : list (string * Z)) (n : string) (d : Z) : Z :=
  match kws with
  | [] => d
  | (k, v) :: t => if String.eqb k n then v else lookup_kw t n d
  end.

Fixpoint eval_fexpr (e : fexpr) (args : list xval) (kws : list (string * Z)) : xq :=
  match e with
  | FArg i => xq_of_xval (nth i args NaN)
  | FKw n d => QFin (inject_Z (lookup_kw kws n d))
  | FConst z => QFin (inject_Z z)
  | FAdd a b => qadd (eval_fexpr a args kws) (eval_fexpr b args kws)
  | FSub a b => qsub (eval_fexpr a args kws) (eval_fexpr b args kws)
  | FMul a b => qmul (eval_fexpr a args kws) (eval_fexpr b args kws)
  | FDiv a b => qdiv (eval_fexpr a args kws) (eval_fexpr b args kws)
  | FPow2 a => let v := eval_fexpr a args kws in qmul v v
  end.

(* final value: either a plain number or the square root of one (std) *)
Inductive finval : Type := Plain (v : xq) | SqrtOf (v : xq).

Definition eval_finalizer (f : finalizer) (args : list xval) (kws : list (string * Z)) : finval :=
  match f with
  | FinNone => Plain (xq_of_xval (nth 0 args NaN))
  | FinPick i => Plain (xq_of_xval (nth i args NaN))
  | FinExpr body mask sq =>
      let v := eval_fexpr body args kws in
      let v' := match mask with
                | MaskNone => v
                | MaskLe a b => if qle (eval_fexpr a args kws) (eval_fexpr b args kws) then QNaN else v
                end in
      if sq then SqrtOf v' else Plain v'
  | FinOpaque _ => Plain QNaN
  end.

(* comparison of a model result with a number produced by the implementation *)
Definition finval_matches (m : finval) (impl : xq) : bool :=
  match m with
  | Plain v => xq_close impl v
  | SqrtOf v =>
      match v, impl with
      | QFin _, QFin r => Qle_bool 0 r && xq_close (QFin (Qred (r * r))) v
      | QNInf, _ => xq_eqb impl QNaN
      | _, _ => xq_eqb impl v
      end
  end.
