(* Reindex.v — model of flox.core.reindex_ along the group axis: the values attached to the labels [from_] are rearranged to the
   labels [to]; a label of [to] that does not occur in [from_] receives the fill value (pandas Index.get_indexer == -1).
   Definitions only. *)
From Coq Require Import ZArith List Bool.
From Flox Require Import Factorize.
Import ListNotations.
Open Scope Z_scope.

Fixpoint lookup {A} (l : Z) (from_ : list Z) (vals : list A) (fill : A) : A :=
  match from_, vals with
  | x :: fr, v :: vr => if x =? l then v else lookup l fr vr fill
  | _, _ => fill
  end.

Definition reindex {A} (from_ to : list Z) (fill : A) (vals : list A) : list A :=
  map (fun l => lookup l from_ vals fill) to.
